"""C17.R8 — mandatory separators survive formatting.

The comma-list formatter *eats* the source commas (R1 allows dropping a comma: trailing separators are optional) and
re-emits literal `,` texts itself.  Two commas are not optional and must therefore be pushed unconditionally — not
under `if_break`, whose content only exists when the group breaks:

  * the comma between two entries (every entry that is not the last one);
  * the comma after the *only* entry of a list whose one-element form is a different construct without it: the parser
    closes `(e)` as PAREN_EXPR and `(e,)` as TUPLE_EXPR.  The list-item printer learns this through a boolean field of
    its `Options` argument, which the formatter of that node kind has to set.

The item printer's control flow depends on a handful of booleans only (two flags handed in by its caller, the option
field, emptiness of the trailing-comment list, …), so the rule evaluates its HIR under **every** truth assignment of
those atoms and inspects which texts are pushed unconditionally.  The meaning of the caller's flags is read from the
call site (`index == count` → last entry, `count > 1` → several entries), not from their names.
"""
import itertools
import json

import hirq

CF = "dora_format"
CP = "dora_parser"

# Frozen grammar fact (one line of reason): list kinds whose one-entry form needs the trailing comma.
# The rule re-derives the reason from the parser on every run (see parser_fact()).
SINGLE_ENTRY_NEEDS_COMMA = {
    "TUPLE_EXPR": "parse_parentheses closes `( expr )` as PAREN_EXPR and `( expr , )` as TUPLE_EXPR: without the comma "
                  "a one-element tuple turns into a parenthesised expression of a different type",
}


class Unsupported(Exception):
    pass


def short(p):
    return p.rsplit("::", 1)[-1]


def _noline(e):
    if isinstance(e, list):
        if e and e[0] in ("call", "mcall") and len(e) > 1 and isinstance(e[1], int):
            return [e[0], 0] + [_noline(x) for x in e[2:]]
        return [_noline(x) for x in e]
    return e


def canon(e):
    return json.dumps(_noline(e), sort_keys=True)


def strip(e):
    while isinstance(e, list) and e and e[0] in ("addr", "paren") or (isinstance(e, list) and e and e[0] == "un"
                                                                        and e[1] == "Deref"):
        e = e[2]
    return e


class PathEval:
    """Evaluate a function body under one truth assignment of its boolean atoms; collect pushed texts."""

    def __init__(self, atoms_order, assignment, text_fns, cond_fns):
        self.assign = dict(zip(atoms_order, assignment))
        self.text_fns = text_fns          # method paths that push a literal text
        self.cond_fns = cond_fns          # method paths whose closure argument is laid out only when the group breaks
        self.events = []                  # (text, unconditional?)
        self.defs = {}                    # bool local -> expression
        self.cond_depth = 0

    def atom(self, e):
        k = canon(e)
        if k not in self.assign:
            raise Unsupported("condition outside the enumerated atoms: %s" % k[:120])
        return self.assign[k]

    def truth(self, e):
        e = strip(e)
        if e[0] == "lit" and e[1] == "bool":
            return e[2] in (True, "true")
        if e[0] == "un" and e[1] == "Not":
            return not self.truth(e[2])
        if e[0] == "bin" and e[1] == "And":
            return self.truth(e[2]) and self.truth(e[3])
        if e[0] == "bin" and e[1] == "Or":
            return self.truth(e[2]) or self.truth(e[3])
        if e[0] == "local" and e[1] in self.defs:
            return self.truth(self.defs[e[1]])
        if e[0] == "macro":
            return self.truth(e[2])
        return self.atom(e)

    def run(self, e):
        if e is None:
            return
        k = e[0]
        if k == "block":
            for s in e[1]:
                self.run(s)
            self.run(e[2])
        elif k == "let":
            if e[1][0] == "pbind" and e[2] is not None:
                self.defs[e[1][1]] = e[2]
                self.scan_calls(e[2])
        elif k == "if":
            c = e[1]
            if c[0] == "letx":
                raise Unsupported("if-let in the item printer")
            self.scan_calls(c)
            br = e[2] if self.truth(c) else e[3]
            self.run(br)
        elif k == "macro":
            if e[1].startswith(("assert", "debug_assert", "$crate::assert")):
                return
            if e[1] == "desugar:ForLoop":
                # a loop over collected docs: may push docs (comments), never a separator literal — verify that
                for n in hirq.walk(e[2]):
                    if n[0] == "mcall" and n[2] in self.text_fns:
                        raise Unsupported("literal text pushed inside a loop")
                return
            self.run(e[2])
        elif k == "mcall":
            self.call(e)
        elif k == "call":
            self.scan_calls(e)
        elif k in ("match", "loop"):
            raise Unsupported("%s in the item printer" % k)
        elif k in ("assign", "assignop", "ret", "lit", "local", "tup", "field", "def", "un", "bin", "cast", "addr"):
            self.scan_calls(e)
        else:
            raise Unsupported("statement kind %s" % k)

    def scan_calls(self, e):
        for n in hirq.walk(e):
            if n is not e and n[0] == "mcall" and (n[2] in self.text_fns or n[2] in self.cond_fns):
                raise Unsupported("emission nested inside an expression")

    def call(self, e):
        path = e[2]
        if path in self.text_fns:
            a = strip(e[5][0])
            if a[0] != "lit" or a[1] != "str":
                raise Unsupported("text() of a non-literal")
            self.events.append((a[2], self.cond_depth == 0))
        elif path in self.cond_fns:
            cl = strip(e[5][0])
            if cl[0] != "closure":
                raise Unsupported("layout combinator without a closure literal")
            self.cond_depth += 1
            self.run(cl[3])
            self.cond_depth -= 1
        else:
            for a in e[5]:
                a = strip(a)
                if a[0] == "closure":
                    # other combinators (nest, group, …) run their closure as part of the item: same conditionality
                    self.run(a[3])


def collect_atoms(body):
    """boolean atoms of the conditions of a body: everything below And/Or/Not that is not a let-bound bool local"""
    defs = {}
    for n in hirq.walk(body):
        if n[0] == "let" and n[1][0] == "pbind" and n[2] is not None:
            defs[n[1][1]] = n[2]
    atoms = []

    def leaves(e, seen):
        e = strip(e)
        if e[0] == "un" and e[1] == "Not":
            leaves(e[2], seen)
        elif e[0] == "bin" and e[1] in ("And", "Or"):
            leaves(e[2], seen)
            leaves(e[3], seen)
        elif e[0] == "local" and e[1] in defs and e[1] not in seen and is_boolish(defs[e[1]]):
            leaves(defs[e[1]], seen | {e[1]})
        elif e[0] == "macro":
            leaves(e[2], seen)
        elif e[0] == "lit":
            pass
        else:
            k = canon(e)
            if k not in atoms:
                atoms.append(k)

    def is_boolish(d):
        d = strip(d)
        return d[0] in ("bin", "un", "local", "field", "mcall", "call", "lit", "macro")

    def visit(e):
        if not isinstance(e, list) or not e:
            return
        if not isinstance(e[0], str):
            for x in e:                          # a plain list of nodes (argument list, statement list)
                visit(x)
            return
        if e[0] == "macro" and e[1].startswith(("assert", "debug_assert", "$crate::assert")):
            return                               # assertions are not part of the printer's layout decisions
        if e[0] == "if" and e[1][0] != "letx":
            leaves(e[1], frozenset())
        for x in e[1:]:
            if isinstance(x, list):
                visit(x)

    visit(body)
    return atoms


def parser_fact(cp, list_kind):
    """the parser production that closes `list_kind` also closes another kind when no comma follows the first entry"""
    for p, b in cp.hir.items():
        kinds = set()
        for n in hirq.walk(b["body"]):
            if n[0] == "mcall" and n[3] == "close" and len(n[5]) == 2:
                a = strip(n[5][1])
                if a[0] == "def":
                    kinds.add(short(a[2]))
        if list_kind in kinds and len(kinds) >= 2:
            has_cancel = any(n[0] == "mcall" and n[3] == "cancel_node" for n in hirq.walk(b["body"]))
            tests_comma = any(n[0] == "mcall" and n[3] in ("is", "eat") and n[5] and strip(n[5][0])[0] == "def"
                              and short(strip(n[5][0])[2]) == "COMMA" for n in hirq.walk(b["body"]))
            if has_cancel and tests_comma:
                return p, sorted(kinds - {list_kind, "LIST_ITEM"})
    return None, []


def run(chk, F):
    r = chk.rule("C17.R8", "mandatory separators are pushed unconditionally on every path of the list-item printer: "
                           "the comma between two entries, and the comma after the only entry of a list kind whose "
                           "one-entry form is a different construct without it (one-element tuples); the formatter of "
                           "such a kind sets the option that says so")
    cf, cp = F.crate(CF), F.crate(CP)
    opts = None
    for a in cf.items["adts"]:
        if a["path"].endswith("::Options") and a["kind"] == "struct":
            opts = a
    if not r.anchor("dora_format Options struct", opts):
        return
    bool_fields = [f["name"] for f in opts["variants"][0]["fields"] if f["ty"] == "bool"]
    text_fns = {p for p in cf.hir if p.endswith("::Formatter::text")}
    cond_fns = {p for p in cf.hir if p.endswith("::Formatter::if_break")}
    if not (r.anchor("Formatter::text", text_fns) and r.anchor("Formatter::if_break", cond_fns)):
        return
    # the layout combinator is conditional by construction: its doc is wrapped in the if-break constructor
    for p in cond_fns:
        ok = any(n[0] in ("call", "struct") and "IfBreak" in canon(n)[:4000] for n in hirq.walk(cf.hir[p]["body"]))
        r.anchor("%s builds an if-break document" % short(p), ok)

    # --- the item printer(s): read a bool Options field and push "," ---------------------------------------------
    printers = []
    for p, b in sorted(cf.hir.items()):
        flds = {n[2] for n in hirq.walk(b["body"]) if n[0] == "field" and n[2] in bool_fields and
                str(n[3]).endswith("::Options")}
        pushes = any(n[0] == "mcall" and n[2] in text_fns and strip(n[5][0])[:3] == ["lit", "str", ","]
                     for n in hirq.walk(b["body"]))
        if flds and pushes:
            printers.append((p, sorted(flds)))
    if not r.anchor("list-item printer (reads a boolean option and pushes \",\")", printers):
        return
    flag_fields = set()
    for p, flds in printers:
        b = cf.hir[p]
        where = "%s:%d" % (b["file"], b["line"])
        bool_params = [(i, pat[1]) for i, (pat, ty) in enumerate(b["params"]) if ty == "bool" and pat[0] == "pbind"]
        # meaning of the bool parameters, from the call sites
        roles = {}
        for q, qb in cf.hir.items():
            defs = {}
            for n in hirq.walk(qb["body"]):
                if n[0] == "let" and n[1][0] == "pbind" and n[2] is not None:
                    defs[n[1][1]] = n[2]
            counts = {v for v, d in defs.items() if any(m[0] == "mcall" and m[3] == "count" for m in hirq.walk(d))}
            for n in hirq.walk(qb["body"]):
                if n[0] == "call" and n[2][:2] == ["def", "fn"] and n[2][2] == p:
                    for i, name in bool_params:
                        a = strip(n[3][i])
                        d = strip(defs.get(a[1])) if a[0] == "local" and a[1] in defs else a
                        role = None
                        if d[0] == "bin" and d[1] == "Eq" and any(strip(x)[0] == "local" and strip(x)[1] in counts
                                                                  for x in (d[2], d[3])):
                            role = "last"
                        elif d[0] == "bin" and d[1] == "Gt" and strip(d[2])[0] == "local" and strip(d[2])[1] in counts \
                                and strip(d[3])[:2] == ["lit", "int"] and int(strip(d[3])[2]) == 1:
                            role = "multiple"
                        roles.setdefault(name, set()).add(role)
        last = [n for n, rs in roles.items() if rs == {"last"}]
        multi = [n for n, rs in roles.items() if rs == {"multiple"}]
        if not (r.anchor("%s: parameter that means 'last entry' (index == count at every call site)" % short(p),
                         len(last) == 1)
                and r.anchor("%s: parameter that means 'several entries' (count > 1 at every call site)" % short(p),
                             len(multi) == 1)):
            continue
        atoms = collect_atoms(b["body"])
        k_last, k_multi = canon(["local", last[0]]), canon(["local", multi[0]])
        k_flags = [a for a in atoms if any(json.loads(a)[0] == "field" and json.loads(a)[2] == f for f in flds)]
        if not r.anchor("%s: conditions mention both caller flags and the option" % short(p),
                        k_last in atoms and k_multi in atoms and len(k_flags) == 1):
            continue
        flag_fields.add(json.loads(k_flags[0])[2])
        if len(atoms) > 10:
            r.violation("ANALYSIS:%s:too-many-atoms" % p, "%d boolean atoms" % len(atoms), where)
            continue
        bad = {}
        n_paths = 0
        try:
            for asg in itertools.product((False, True), repeat=len(atoms)):
                env = dict(zip(atoms, asg))
                if env[k_last] is False and env[k_multi] is False:
                    continue                     # an entry that is not the last one implies several entries
                pe = PathEval(atoms, asg, text_fns, cond_fns)
                pe.run(cf.hir[p]["body"])
                n_paths += 1
                uncond = [t for t, u in pe.events if u and t == ","]
                desc = ", ".join("%s=%s" % (describe_atom(a), "T" if v else "F") for a, v in zip(atoms, asg))
                if not env[k_last] and len(uncond) != 1:
                    bad.setdefault("separator-between-entries:%s" % ("missing" if not uncond else "duplicated"), desc)
                if env[k_last] and not env[k_multi] and env[k_flags[0]] and len(uncond) != 1:
                    bad.setdefault("single-entry-comma:%s" % ("missing" if not uncond else "duplicated"), desc)
        except Unsupported as ex:
            r.violation("ANALYSIS:%s:not-understood" % p, "the item printer is outside the interpreted fragment (%s)"
                        % ex, where)
            continue
        r.instance("%s:paths" % p, sample={"printer": short(p), "atoms": [describe_atom(a) for a in atoms],
                                            "assignments": n_paths})
        for a in atoms:
            r.instance("%s:atom:%s" % (p, describe_atom(a)))
        r.floor("truth assignments evaluated for %s" % short(p), n_paths, 16)
        for what, desc in sorted(bad.items()):
            r.violation("%s:%s" % (p, what), "on the path [%s] the list-item printer does not push exactly one "
                        "unconditional \",\": %s — the formatted text loses (or doubles) a code token that is not an "
                        "optional trailing separator (e.g. `(40, // c\\n)` → `(40 // c\\n)`, a parenthesised Int64 "
                        "instead of a one-element tuple)" % (desc, what), where)

    # --- who sets the option, and for which node kinds ------------------------------------------------------------
    setters = set()
    for p, b in cf.hir.items():
        for n in hirq.walk(b["body"]):
            if n[0] == "assign" and strip(n[1])[0] == "field" and strip(n[1])[2] in flag_fields and \
                    strip(n[2])[:2] == ["lit", "bool"] and strip(n[2])[2] in (True, "true"):
                setters.add(p)
    if not r.anchor("function that sets the single-entry option", setters):
        return
    for kind, reason in sorted(SINGLE_ENTRY_NEEDS_COMMA.items()):
        prod, others = parser_fact(cp, kind)
        if not r.anchor("parser production that closes %s or another kind depending on a comma" % kind, prod):
            continue
        # the formatter dispatched for this kind
        fmt = None
        fb = cf.hir.get("dora_format::doc::format_node")
        if fb is not None:
            for n in hirq.walk(fb["body"]):
                if n[0] == "match":
                    for pat, guard, body in n[2]:
                        if any(m[0] in ("ppath", "def") and short(m[-1] if m[0] == "def" else m[1][2]) == kind
                               for m in hirq.walk(pat)):
                            calls = [m[2][2] for m in hirq.walk(body) if m[0] == "call" and m[2][:2] == ["def", "fn"]
                                     and m[2][2].startswith("dora_format::")]
                            fmt = calls[0] if calls else fmt
        if not r.anchor("format_node arm for %s" % kind, fmt):
            continue
        r.instance("kind:%s" % kind, sample={"kind": kind, "formatter": short(fmt), "parser": short(prod),
                                             "otherwise": others, "reason": reason})
        reach = {fmt}
        # the formatter itself (not a helper shared with other kinds) builds the options
        sets = any(m[0] in ("call", "mcall") and ((m[0] == "call" and m[2][:2] == ["def", "fn"] and m[2][2] in setters)
                                                  or (m[0] == "mcall" and m[2] in setters))
                   for m in hirq.walk(cf.hir[fmt]["body"]))
        if not sets:
            r.violation("%s:single-entry-option-not-set" % fmt, "the formatter of %s does not set the option that "
                        "keeps the comma of a one-entry list (%s): `(x,)` is formatted as `(x)`" % (kind, reason),
                        "%s:%d" % (cf.hir[fmt]["file"], cf.hir[fmt]["line"]))
    r.floor("list kinds whose one-entry form needs the comma", len(SINGLE_ENTRY_NEEDS_COMMA), 1)


def describe_atom(a):
    e = json.loads(a)
    if e[0] == "local":
        return e[1]
    if e[0] == "field":
        return "opt." + e[2]
    if e[0] == "mcall":
        inner = strip(e[4])
        return "%s.%s()" % (inner[1] if inner[0] == "local" else "…", e[3])
    if e[0] == "call" and e[2][0] == "def":
        return short(e[2][2]) + "(…)"
    return a[:40]


# ------------------------------------------------------------------------------------------------ R9
def _snake(name):
    out = []
    for i, ch in enumerate(name):
        if ch.isupper() and i and (not name[i - 1].isupper()):
            out.append("_")
        out.append(ch.upper())
    return "".join(out)


def run_r9(chk, F):
    """The parser decides per expression whether the separator after it (`,` after a match arm, `;` after an
    expression statement) is optional: productions that answer `Blocklike::Yes`.  A formatter predicate that *omits* a
    separator after an expression may only say yes where the parser does — otherwise the formatted text no longer
    parses (the formatter's own re-parse assertion fires) for a valid program."""
    r = chk.rule("C17.R9", "every expression kind after which the formatter omits the separator (its block-like "
                           "predicate) is block-like for the parser too (the parser's Blocklike::Yes productions), so "
                           "the omitted `,`/`;` is one the grammar does not require")
    cf, cp = F.crate(CF), F.crate(CP)
    # parser: productions whose dispatch arm answers the Yes variant of the two-variant Blocklike enum
    yes_ctor = [a for a in cp.items["adts"] if a["path"].endswith("::Blocklike") and a["kind"] == "enum"]
    if not r.anchor("dora_parser Blocklike enum", yes_ctor):
        return
    yes_path = yes_ctor[0]["path"] + "::Yes"
    if not r.anchor("Blocklike::Yes variant", any(v["name"] == "Yes" for v in yes_ctor[0]["variants"])):
        return
    closes = {}

    def closed_by(p, depth=0, seen=None):
        seen = seen or set()
        if p in seen or depth > 2 or p not in cp.hir:
            return set()
        seen.add(p)
        out = set()
        for n in hirq.walk(cp.hir[p]["body"]):
            if n[0] == "mcall" and n[3] == "close" and len(n[5]) == 2:
                a = strip(n[5][1])
                if a[0] == "def":
                    out.add(short(a[2]))
        return out

    parser_yes, parser_no = {}, {}
    for p, b in cp.hir.items():
        for n in hirq.walk(b["body"]):
            if n[0] != "match":
                continue
            for pat, guard, body in n[2]:
                body_ = strip(body)
                if body_[0] != "block" or body_[2] is None:
                    continue
                tail = strip(body_[2])
                if tail[0] != "def" or not tail[2].startswith(yes_ctor[0]["path"] + "::"):
                    continue
                prods = [s[2] for s in body_[1] if s[0] == "mcall" and s[2] and s[2].startswith("dora_parser::")]
                for q in prods:
                    kinds = {k for k in closed_by(q) if k.endswith("_EXPR") and not k.startswith("ERROR")}
                    (parser_yes if tail[2] == yes_path else parser_no).setdefault(short(q), set()).update(kinds)
    yes_kinds = set().union(*parser_yes.values()) if parser_yes else set()
    # a production that closes several expression kinds (parse_parentheses …) only counts for the Yes side when every
    # dispatch arm that reaches the kind says Yes
    no_kinds = set().union(*parser_no.values()) if parser_no else set()
    yes_kinds -= no_kinds
    r.floor("parser productions answering Blocklike::Yes", len(parser_yes), 5)
    for q, ks in sorted(parser_yes.items()):
        r.instance("parser:%s" % q, sample={"production": q, "closes": sorted(ks), "blocklike": "Yes"})
    # formatter: bool predicates over &AstExpr written as matches!(expr, AstExpr::X(_) | …)
    preds = {}
    for p, b in cf.hir.items():
        if len(b["params"]) != 1 or not b["params"][0][1].endswith("ast::AstExpr"):
            continue
        f = cf.fn(p)
        if f is None or f.get("output") != "bool":
            continue
        variants = set()
        for n in hirq.walk(b["body"]):
            if n[0] == "match":
                for pat, guard, body in n[2]:
                    tb = strip(body)
                    if tb[:2] == ["lit", "bool"] and tb[2] in (True, "true"):
                        for m in hirq.walk(pat):
                            if m[0] in ("pts", "ppath", "pstruct") and "::AstExpr::" in m[1][2]:
                                variants.add(short(m[1][2]))
        if variants:
            preds[p] = variants
    # … that guard the omission of a separator: `if !pred(..) { f.text(",") }`
    text_fns = {p for p in cf.hir if p.endswith("::Formatter::text")}
    guards = {}
    for p, b in cf.hir.items():
        for n in hirq.walk(b["body"]):
            if n[0] != "if" or n[1][0] == "letx":
                continue
            # `!pred(e)` anywhere in the condition (alone, or as a disjunct/conjunct next to further reasons to keep
            # the separator): the separator is omitted only where the predicate holds
            for cond in hirq.walk(n[1]):
                if not (hirq.is_node(cond) and cond[0] == "un" and cond[1] == "Not"):
                    continue
                inner = strip(cond[2])
                if inner[0] == "call" and inner[2][:2] == ["def", "fn"] and inner[2][2] in preds:
                    seps = [strip(m[5][0])[2] for m in hirq.walk(n[2]) if m[0] == "mcall" and m[2] in text_fns
                            and strip(m[5][0])[:2] == ["lit", "str"] and strip(m[5][0])[2] in (",", ";")]
                    if seps:
                        guards.setdefault(inner[2][2], []).append((p, seps[0]))
    if not r.anchor("formatter predicate over AstExpr that guards the omission of a separator", guards):
        return
    allk = {v["name"] for a in cp.items["adts"] if a["path"].endswith("token::TokenKind") for v in a["variants"]}
    for pred, uses in sorted(guards.items()):
        where = "%s:%d" % (cf.hir[pred]["file"], cf.hir[pred]["line"])
        for v in sorted(preds[pred]):
            kind = _snake(v)
            ikey = "%s:%s" % (pred, v)
            r.instance(ikey, sample={"predicate": short(pred), "variant": v, "kind": kind,
                                     "parser_blocklike": kind in yes_kinds, "used_in": short(uses[0][0])})
            if kind not in allk:
                r.violation("ANALYSIS:%s:kind-unknown" % ikey, "cannot map AstExpr::%s to a node kind" % v, where)
            elif kind not in yes_kinds:
                r.violation("%s:not-blocklike-for-the-parser" % ikey,
                            "%s says AstExpr::%s is block-like, so %s omits the `%s` after it, but no parser "
                            "production answers Blocklike::Yes for %s: the separator is mandatory there and the "
                            "formatted text does not parse (e.g. a match arm whose value is such an expression, "
                            "followed by another arm)" % (short(pred), v, short(uses[0][0]), uses[0][1], kind), where)
    r.floor("expression kinds the formatter treats as block-like", sum(len(preds[p]) for p in guards), 4)

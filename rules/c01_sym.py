"""Symbolic path enumeration over the HIR of the AST→bytecode generator (C01).

The generator emits the code of a child expression by calling a *sink* on the child's id (the expression
dispatcher, the statement dispatcher, a pattern destructor).  The sinks are found by role, the sema node
types (`Expr`, `Stmt`, `Pattern`) and their id-carrying payload positions come from the ADT facts.

A handler is executed symbolically: the node it handles is the root `()`, every value read from the
node's payload is bound to the position it was read from (node id / payload struct / list / option),
functions of the generator module that receive such a value are inlined, every other call is an
inspection (it cannot emit: the generator state is private to the module).  Control flow forks at every
test whose outcome is not determined by what is already assumed about the tree; the assumptions made on
a path (variant of a node, length of a list, presence of an optional child, variant of an analysis datum)
are recorded.  A path that reaches a panic is dropped.  The result of a run is, per non-panicking path,
the *trace* of sink calls: ("gen", node path, sink) and ("loop", list, mode, outcomes of one iteration).

Bounded parts (stated in the evidence): recursion of one function and pointer-chasing `while`/`loop`
loops are unrolled K times and the paths that need more are dropped."""
import re

import hirq

K_REC = 2        # a function may be re-entered this many times on one path (nesting depth K_REC+1)
K_LOOP = 3       # iterations of a pointer-chasing loop

UNK = ("unk",)
UNIT = ("unit",)


class Unint(Exception):
    """a construct involving a tracked value that the interpreter does not model (fail closed)"""


# std adaptor/accessor names (frozen: they are the standard library's, not the repository's)
TRANSPARENT = {"as_ref", "as_deref", "as_slice", "as_mut", "clone", "cloned", "copied", "deref", "borrow",
               "to_vec", "to_owned", "by_ref", "as_mut_slice", "into", "borrow_mut", "deref_mut"}
ITER_START = {"iter", "into_iter", "iter_mut"}
OPT_UNWRAP = {"unwrap", "expect", "unwrap_unchecked"}
PANIC_PREFIXES = ("core::panicking::", "std::rt::begin_panic", "std::panicking::", "core::option::expect_failed",
                  "core::option::unwrap_failed", "core::result::unwrap_failed")
OPTION_SOME = "core::option::Option::Some"
OPTION_NONE = "core::option::Option::None"


def strip_ref(ty):
    ty = ty.strip()
    while ty.startswith("&"):
        ty = ty[1:].lstrip()
        m = re.match(r"'\w+\s+", ty)
        if m:
            ty = ty[m.end():]
        if ty.startswith("mut "):
            ty = ty[4:]
    return ty


def ty_kind(ty):
    ty = strip_ref(ty)
    m = re.match(r"^id_arena::Id<(.+)>$", ty)
    if m:
        return ("id", m.group(1))
    m = re.match(r"^alloc::vec::Vec<(.+?)(?:, alloc::alloc::Global)?>$", ty)
    if m:
        return ("vec", m.group(1))
    m = re.match(r"^\[(.+)\]$", ty)
    if m:
        return ("vec", m.group(1))
    m = re.match(r"^core::option::Option<(.+)>$", ty)
    if m:
        return ("opt", m.group(1))
    m = re.match(r"^alloc::boxed::Box<(.+?)(?:, alloc::alloc::Global)?>$", ty)
    if m:
        return ("box", m.group(1))
    if re.match(r"^[A-Za-z_][\w]*(::[A-Za-z_<>' ][\w<>' ]*)*$", ty) and "::" in ty:
        return ("adt", ty)
    return ("other", ty)


class Single:
    def __init__(self, acc, kind):
        self.acc, self.kind = acc, kind

    def __repr__(self):
        return "Single(%s)" % (accstr(self.acc),)


class ListItem:
    def __init__(self, acc, subs):
        self.acc, self.subs = acc, subs

    def __repr__(self):
        return "List(%s,%r)" % (accstr(self.acc), self.subs)


def accstr(acc):
    out = []
    for a in acc:
        if isinstance(a, tuple):
            out.append("[%s]" % ("*" if a[0] == "*" else a[1]))
        else:
            out.append(a)
    s = ".".join(out).replace(".[", "[")
    return s


def pathstr(path):
    return " → ".join(accstr(a) for a in path) if path else "<node>"


class Model:
    """node enums, payload positions, sinks, lookups: all derived from the facts"""

    def __init__(self, crate, roots, scope):
        """roots: {enum path: kind};  scope: path prefix of the sema ADTs that are decomposed"""
        self.c = crate
        self.adts = dict((a["path"], a) for a in crate.items["adts"])
        self.fns = dict((f["path"], f) for f in crate.items["fns"])
        self.roots = roots
        self.scope = scope
        self.uninterpreted = []
        self._items = {}
        self._reach = {}

    def short(self, enum_path):
        return enum_path.rsplit("::", 1)[-1]

    def enum_of_variant(self, def_path):
        owner = def_path.rsplit("::", 1)[0]
        return owner if owner in self.roots else None

    def variant_fields(self, enum_path, vname):
        a = self.adts[enum_path]
        for v in a["variants"]:
            if v["name"] == vname:
                return v["fields"]
        return None

    def field_ty(self, struct_path, fname):
        a = self.adts.get(strip_ref(struct_path))
        if a is None or a["kind"] != "struct":
            return None
        for f in a["variants"][0]["fields"]:
            if f["name"] == fname:
                return f["ty"]
        return None

    def reaches_ids(self, ty):
        if ty not in self._reach:
            n = len(self.uninterpreted)
            self._reach[ty] = bool(self._items_of(ty, ("?",), ())) or len(self.uninterpreted) > n
            del self.uninterpreted[n:]
        return self._reach[ty]

    def items(self, enum_path, vname):
        key = (enum_path, vname)
        if key not in self._items:
            out = []
            tag = "%s::%s" % (self.short(enum_path), vname)
            for f in self.variant_fields(enum_path, vname):
                out += self._items_of(f["ty"], (tag, f["name"]), (enum_path,))
            self._items[key] = out
        return self._items[key]

    def _items_of(self, ty, acc, seen):
        k = ty_kind(ty)
        if k[0] == "id":
            kind = self.roots.get(k[1])
            return [Single(acc, kind)] if kind else []
        if k[0] == "vec":
            subs = self._items_of(k[1], acc + (("*",),), seen)
            return [ListItem(acc, subs)] if subs else []
        if k[0] in ("opt", "box"):
            return self._items_of(k[1], acc, seen)
        if k[0] == "adt":
            a = self.adts.get(k[1])
            if a is None or not k[1].startswith(self.scope) or k[1] in seen:
                return []
            if a["kind"] == "struct":
                out = []
                for f in a["variants"][0]["fields"]:
                    out += self._items_of(f["ty"], acc + (f["name"],), seen + (k[1],))
                return out
            if a["kind"] == "enum":
                out = []
                for v in a["variants"]:
                    for f in v["fields"]:
                        out += self._items_of(f["ty"], acc + ("@" + v["name"], f["name"]), seen + (k[1],))
                if out:
                    self.uninterpreted.append((accstr(acc), "ids inside nested enum %s" % k[1]))
                return []
            return []
        if "id_arena::Id<" in ty and any(r in ty for r in self.roots):
            self.uninterpreted.append((accstr(acc), "type %s" % ty))
        return []


def flat_slots(items):
    for it in items:
        if isinstance(it, Single):
            yield it
        else:
            for s in flat_slots(it.subs):
                yield s


def has_tracked(v):
    if not isinstance(v, tuple) or not v:
        return False
    t = v[0]
    if t in ("node", "at", "enum", "iter"):
        return True
    if t in ("ctor",):
        return any(has_tracked(x) for x in v[2])
    if t == "struct":
        return any(has_tracked(x) for _f, x in v[2])
    if t in ("tuple", "list"):
        return any(has_tracked(x) for x in v[1])
    return False


def node_paths(v, out):
    if not isinstance(v, tuple) or not v:
        return
    t = v[0]
    if t in ("node", "enum"):
        out.append(v[1])
    elif t == "at":
        out.append(v[1] + (v[2],))
    elif t == "ctor":
        for x in v[2]:
            node_paths(x, out)
    elif t == "struct":
        for _f, x in v[2]:
            node_paths(x, out)
    elif t in ("tuple", "list"):
        for x in v[1]:
            node_paths(x, out)
    elif t == "iter":
        node_paths(v[1], out)


class State:
    __slots__ = ("env", "decl", "cons", "trace", "exit", "stack", "ctx", "notes", "handler", "params")

    def __init__(self):
        self.env = {}
        self.decl = ()          # stack of frozensets of let-declared names per open block
        self.cons = {}
        self.trace = ()
        self.exit = None
        self.stack = ()
        self.ctx = ()
        self.notes = ()
        self.handler = None
        self.params = frozenset()

    def clone(self):
        s = State()
        s.env = dict(self.env)
        s.decl = self.decl
        s.cons = dict(self.cons)
        s.trace = self.trace
        s.exit = self.exit
        s.stack = self.stack
        s.ctx = self.ctx
        s.notes = self.notes
        s.handler = self.handler
        s.params = self.params
        return s

    def key(self, val=None):
        return (self.trace, self.exit, val, frozenset(self.env.items()), frozenset(self.cons.items()), self.stack)

    def note(self, text):
        if len(self.notes) < 24 and text not in self.notes:
            self.notes = self.notes + (text,)


def dedupe(pairs):
    if len(pairs) < 2:
        return pairs
    seen = {}
    out = []
    for st, v in pairs:
        try:
            k = st.key(v)
        except TypeError:
            out.append((st, v))
            continue
        if k in seen:
            continue
        seen[k] = 1
        out.append((st, v))
    return out


def merge_cons(pairs, protected=None):
    """states that differ only in assumptions about analysis data (not about the tree, and not in what
    `protected` keeps apart) are replaced by one state assuming the intersection"""
    groups = {}
    order = []
    for st, v in pairs:
        try:
            prot = frozenset((ck, cv) for ck, cv in st.cons.items()
                             if ck[0] in ("var", "len", "none") or (protected is not None and protected(ck, cv)))
            k = (st.trace, st.exit, v, frozenset(st.env.items()), st.stack, prot)
            hash(k)
        except TypeError:
            order.append((None, (st, v)))
            continue
        if k not in groups:
            groups[k] = [st, v]
            order.append((k, None))
        else:
            g = groups[k][0]
            common = dict((ck, cv) for ck, cv in g.cons.items() if st.cons.get(ck) == cv)
            if len(common) != len(g.cons):
                g2 = g.clone()
                g2.cons = common
                groups[k][0] = g2
    out = []
    for k, direct in order:
        if k is None:
            out.append(direct)
        else:
            out.append((groups[k][0], groups[k][1]))
    return out


class Interp:
    def __init__(self, model, module_prefix, sinks, lookups, no_inline_prefixes=()):
        """sinks: {fn path: (arg index, kind)};  lookups: {fn path: enum path}"""
        self.m = model
        self.c = model.c
        self.module = module_prefix
        self.sinks = sinks
        self.lookups = lookups
        self.no_inline = tuple(no_inline_prefixes)
        self.record_inspections = set()   # resolved paths of inspection functions whose use is recorded on the path
        self.protected = None     # predicate(cons key, value): assumptions that merging must keep apart
        self.pruned = {}          # site -> count  (recursion / loop bound)
        self.inlined = set()
        self.closures = {}
        self.steps = 0

    # ------------------------------------------------------------------ values
    def norm(self, path, acc, ty):
        k = ty_kind(ty)
        if k[0] == "id" and k[1] in self.m.roots:
            return ("node", path + (acc,))
        if k[0] == "box":
            return self.norm(path, acc, k[1])
        if not self.m.reaches_ids(ty):
            # an attribute of the node (operator, name, flag, type reference): an analysis datum keyed by the node
            return ("ad", accstr(acc[1:]), (path,))
        return ("at", path, acc, strip_ref(ty))

    def symname(self, v):
        if isinstance(v, tuple) and v and v[0] == "ad":
            return v[1] + "."
        if isinstance(v, tuple) and v and v[0] == "sym" and isinstance(v[1], tuple) and len(v[1]) == 2 \
                and isinstance(v[1][1], str):
            return self.symname(v[1][0]) + v[1][1] + "."
        return ""

    def sym(self, node, st, extra=None):
        return ("sym", (id(node), st.ctx, extra))

    # ------------------------------------------------------------------ constraints
    def var_of(self, st, path):
        return st.cons.get(("var", path))

    def assume_variant(self, st, path, enum_path, vname, positive):
        """returns False if contradictory"""
        cur = st.cons.get(("var", path))
        tag = "%s::%s" % (self.m.short(enum_path), vname)
        if positive:
            if cur is None:
                st.cons[("var", path)] = ("is", tag)
                st.note("%s is %s" % (pathstr(path), tag))
                return True
            if cur[0] == "is":
                return cur[1] == tag
            if tag in cur[1]:
                return False
            st.cons[("var", path)] = ("is", tag)
            st.note("%s is %s" % (pathstr(path), tag))
            return True
        if cur is None:
            st.cons[("var", path)] = ("not", frozenset([tag]))
            return True
        if cur[0] == "is":
            return cur[1] != tag
        st.cons[("var", path)] = ("not", cur[1] | frozenset([tag]))
        return True

    def assume(self, st, key, value, text=None):
        cur = st.cons.get(key)
        if cur is None:
            st.cons[key] = value
            if text:
                st.note(text)
            return True
        return cur == value

    def assume_in(self, st, key, variant, positive, text):
        """enum-valued datum: positive → exactly `variant`; negative → not `variant`"""
        cur = st.cons.get(key)
        if positive:
            if cur is None or (cur[0] == "notin" and variant not in cur[1]):
                st.cons[key] = ("in", variant)
                st.note("%s = %s" % (text, hirq.last(variant)))
                return True
            if cur[0] == "in":
                return cur[1] == variant
            return False
        if cur is None:
            st.cons[key] = ("notin", frozenset([variant]))
            return True
        if cur[0] == "in":
            return cur[1] != variant
        st.cons[key] = ("notin", cur[1] | frozenset([variant]))
        return True

    # ------------------------------------------------------------------ driver
    def run_root(self, fn_path, bindings, assume=None):
        b = self.c.hir[fn_path]
        st = State()
        st.stack = (fn_path,)
        if assume:
            st.cons.update(assume)
            for k, v in assume.items():
                if k[0] == "var":
                    st.note("%s is %s" % (pathstr(k[1]), v[1]))
        for (pat, _ty) in b["params"]:
            name = pat[1] if hirq.is_node(pat) and pat[0] == "pbind" else None
            if name is not None:
                st.env[name] = bindings.get(name, UNK)
        st.params = frozenset(st.env)
        outs = self.ev(b["body"], st)
        res = []
        for s, v in outs:
            if s.exit is not None and s.exit[0] == "ret":
                s.exit = None
            if s.exit is not None:
                raise Unint("%s: path leaves the function with `%s`" % (fn_path, s.exit[0]))
            res.append(s)
        return res

    # ------------------------------------------------------------------ evaluation
    def ev(self, e, st):
        """→ list of (state, value); states with .exit set carry no value"""
        self.steps += 1
        if self.steps > 4000000:
            raise Unint("step budget exhausted (path explosion)")
        if not hirq.is_node(e):
            if e is None:
                return [(st, UNIT)]
            raise Unint("not a node: %r" % (e,))
        k = e[0]
        f = getattr(self, "ev_" + k, None)
        if f is None:
            raise Unint("HIR node kind `%s`" % k)
        return f(e, st)

    def ev_seq(self, exprs, st):
        """evaluate expressions left to right → list of (state, [values])"""
        cur = [(st, ())]
        for x in exprs:
            nxt = []
            for s, vals in cur:
                if s.exit is not None:
                    nxt.append((s, vals))
                    continue
                for s2, v in self.ev(x, s):
                    nxt.append((s2, vals + (v,)))
            cur = nxt
        return cur

    def ev_lit(self, e, st):
        if e[1] == "int":
            return [(st, ("int", e[2]))]
        if e[1] == "bool":
            return [(st, ("bool", bool(e[2])))]
        return [(st, UNK)]

    def ev_local(self, e, st):
        return [(st, st.env.get(e[1], UNK))]

    def ev_def(self, e, st):
        if e[1] in ("ctor", "variant"):
            return [(st, ("ctor", e[2], ()))]
        return [(st, UNK)]

    def ev_macro(self, e, st):
        name = e[1]
        if name == "desugar:ForLoop":
            return self.ev_for(e, st)
        if name == "vec!":
            arr = [n for n in hirq.walk(e[2]) if n[0] == "array"]
            if len(arr) == 1:
                outs = []
                for s, vals in self.ev_seq(arr[0][1], st):
                    outs.append((s, ("list", tuple(vals)) if s.exit is None else UNK))
                return outs
            outs = self.ev(e[2], st)
            return [(s, UNK if not has_tracked(v) else self._unint("vec! form with tracked value")) for s, v in outs]
        nm = name.rstrip("!").split("::")[-1]
        for suf in ("_2021", "_2015"):
            if nm.endswith(suf):
                nm = nm[:-len(suf)]
        if nm in ("unreachable", "unimplemented", "panic", "todo"):
            return []
        return self.ev(e[2], st)

    def _unint(self, text):
        raise Unint(text)

    def ev_block(self, e, st):
        st = st.clone()
        saved = dict(st.env)
        st.decl = st.decl + (frozenset(),)
        cur = [st]
        done = []
        for s in e[1]:
            nxt = []
            for c in cur:
                for s2, _v in self.ev(s, c):
                    if s2.exit is not None:
                        done.append((s2, UNK))
                    else:
                        nxt.append((s2, None))
            cur = [x for x, _ in dedupe(nxt)]
        res = []
        for c in cur:
            if e[2] is not None:
                for s2, v in self.ev(e[2], c):
                    res.append((s2, v))
            else:
                res.append((c, UNIT))
        out = []
        for s2, v in res + done:
            declared = s2.decl[-1] if s2.decl else frozenset()
            env = {}
            for name, old in saved.items():
                env[name] = old if name in declared else s2.env.get(name, old)
            s2.env = env
            s2.decl = s2.decl[:-1]
            out.append((s2, v))
        return dedupe(out)

    def declare(self, st, name):
        if st.decl:
            st.decl = st.decl[:-1] + (st.decl[-1] | frozenset([name]),)

    def ev_let(self, e, st):
        pat, init, els = e[1], e[2], e[3]
        if init is None:
            st = st.clone()
            self.bind_all(pat, UNK, st)
            return [(st, UNIT)]
        out = []
        for s, v in self.ev(init, st):
            if s.exit is not None:
                out.append((s, UNK))
                continue
            if hirq.is_node(pat) and pat[0] == "pbind" and pat[2] is None and not has_tracked(v) and v[0] in ("unk",):
                v = self.sym(e, s)
            for s2, ok in self.pm(pat, v, s.clone(), declare=True):
                if ok:
                    out.append((s2, UNIT))
                elif els is not None:
                    for s3, _v in self.ev(els, s2):
                        if s3.exit is None:
                            raise Unint("let-else block falls through")
                        out.append((s3, UNK))
                # a refutable `let` without else cannot fail to match
        return out

    def bind_all(self, pat, val, st):
        for n in hirq.walk(pat):
            if n[0] == "pbind":
                st.env[n[1]] = val
                self.declare(st, n[1])

    # ---- pattern matching -----------------------------------------------------------------------------
    def pm(self, pat, val, st, declare=False):
        """→ list of (state, matched?)"""
        if not hirq.is_node(pat):
            raise Unint("pattern %r" % (pat,))
        k = pat[0]
        if k == "pwild":
            return [(st, True)]
        if k == "pbind":
            st.env[pat[1]] = val
            if declare:
                self.declare(st, pat[1])
            if pat[2] is not None:
                return self.pm(pat[2], val, st, declare)
            return [(st, True)]
        if k == "pref":
            return self.pm(pat[1], val, st, declare)
        if k == "por":
            out = []
            pend = [st]
            for alt in pat[1]:
                nxt = []
                for s in pend:
                    for s2, ok in self.pm(alt, val, s.clone(), declare):
                        if ok:
                            out.append((s2, True))
                        else:
                            nxt.append(s2)
                pend = nxt
            return out + [(s, False) for s in pend]
        if k == "ptuple":
            if val[0] == "tuple" and len(val[1]) == len(pat[1]):
                vals = val[1]
            else:
                if has_tracked(val):
                    raise Unint("tuple pattern against %s" % (val[0],))
                vals = [UNK] * len(pat[1])
            cur = [st]
            fails = []
            for q, v in zip(pat[1], vals):
                nxt = []
                for s in cur:
                    for s2, ok in self.pm(q, v, s, declare):
                        (nxt if ok else fails).append(s2)
                cur = nxt
            return [(s, True) for s in cur] + [(s, False) for s in fails]
        if k == "lit":
            if pat[1] == "int":
                if val[0] == "int":
                    return [(st, val[1] == pat[2])]
                if val[0] == "len":
                    key = ("len",) + val[1]
                    cur = st.cons.get(key)
                    if cur is not None and cur[0] == "eq":
                        return [(st, cur[1] == pat[2])]
                    if cur is not None and cur[0] == "ne" and pat[2] in cur[1]:
                        return [(st, False)]
                    a = st.clone()
                    a.cons[key] = ("eq", pat[2])
                    a.note("len(%s) = %d" % (accstr(val[1][1]), pat[2]))
                    b = st
                    b.cons[key] = ("ne", (cur[1] if cur else frozenset()) | frozenset([pat[2]]))
                    return [(a, True), (b, False)]
            if pat[1] == "bool" and val[0] == "bool":
                return [(st, val[1] == bool(pat[2]))]
            if has_tracked(val):
                raise Unint("literal pattern against %s" % (val[0],))
            return [(st.clone(), True), (st, False)]
        if k in ("pts", "pstruct", "ppath"):
            d = hirq.def_path(pat[1])
            if d is None:
                raise Unint("constructor pattern without definition")
            if k == "pts":
                subs = [(str(i), q) for i, q in enumerate(pat[2])]
            elif k == "pstruct":
                subs = [(f, q) for f, q in pat[2]]
            else:
                subs = []
            return self.pm_ctor(d, subs, k, val, st, declare, pat)
        if k == "macro":
            return self.pm(pat[2], val, st, declare)
        if k in ("prange", "pslice", "un"):
            if has_tracked(val):
                raise Unint("%s pattern against %s" % (k, val[0]))
            a = st.clone()
            self.bind_all(pat, UNK, a)
            return [(a, True), (st, False)]
        raise Unint("pattern kind %s" % k)

    def pm_subs(self, subs, values, st, declare):
        """bind sub-patterns to values (dict name -> value); → [(state, ok)]"""
        cur = [st]
        fails = []
        for f, q in subs:
            nxt = []
            for s in cur:
                for s2, ok in self.pm(q, values(f), s, declare):
                    (nxt if ok else fails).append(s2)
            cur = nxt
        return [(s, True) for s in cur] + [(s, False) for s in fails]

    def pm_ctor(self, d, subs, kind, val, st, declare, pat):
        t = val[0]
        owner = self.m.enum_of_variant(d)
        vname = hirq.last(d)
        if t == "enum":
            if owner is None:
                raise Unint("pattern %s against a tree node" % d)
            path = val[1]
            fields = self.m.variant_fields(owner, vname)
            if fields is None:
                raise Unint("unknown variant %s" % d)
            tag = "%s::%s" % (self.m.short(owner), vname)
            out = []
            a = st.clone()
            if self.assume_variant(a, path, owner, vname, True):
                if kind == "pts" and len(subs) != len(fields):
                    if any(n[0] == "pbind" for _f, q in subs for n in hirq.walk(q)):
                        raise Unint("`..` with bindings in pattern %s" % d)
                    out.append((a, True))
                else:
                    ftys = dict((f["name"], f["ty"]) for f in fields)

                    def values(fname, _path=path, _tag=tag, _ftys=ftys):
                        if fname not in _ftys:
                            raise Unint("field %s of %s" % (fname, _tag))
                        return self.norm(_path, (_tag, fname), _ftys[fname])
                    out += self.pm_subs(subs, values, a, declare)
            b = st
            if self.assume_variant(b, path, owner, vname, False):
                out.append((b, False))
            return out
        if t == "ctor":
            if val[1] != d:
                return [(st, False)]
            args = val[2]

            def values(fname, _args=args):
                i = int(fname)
                return _args[i] if i < len(_args) else UNK
            return self.pm_subs(subs, values, st, declare)
        if t == "struct":
            if val[1] != d:
                if val[1].rsplit("::", 1)[0] == d.rsplit("::", 1)[0]:
                    return [(st, False)]
                raise Unint("struct pattern %s against %s" % (d, val[1]))
            fv = dict(val[2])
            return self.pm_subs(subs, lambda f: fv.get(f, UNK), st, declare)
        if t == "at":
            kk = ty_kind(val[3])
            if kk[0] == "opt" and d in (OPTION_SOME, OPTION_NONE):
                key = ("none", val[1], val[2])
                cur = st.cons.get(key)
                want_none = (d == OPTION_NONE)
                out = []
                if cur is None or cur == want_none:
                    a = st.clone()
                    if cur is None:
                        a.cons[key] = want_none
                        a.note("%s is %s" % (accstr(val[2]), "None" if want_none else "Some"))
                    if want_none:
                        out.append((a, True))
                    else:
                        inner = self.norm(val[1], val[2], kk[1])
                        out += self.pm_subs(subs, lambda f: inner, a, declare)
                if cur is None or cur != want_none:
                    b = st
                    if cur is None:
                        b.cons[key] = not want_none
                        b.note("%s is %s" % (accstr(val[2]), "Some" if want_none else "None"))
                    out.append((b, False))
                return out
            raise Unint("pattern %s against payload position %s" % (d, accstr(val[2])))
        if t in ("ad", "sym"):
            if d in (OPTION_SOME, OPTION_NONE):
                key = ("opt", val)
                want = "some" if d == OPTION_SOME else "none"
                cur = st.cons.get(key)
                out = []
                if cur is None or cur == want:
                    a = st.clone()
                    a.cons[key] = want
                    if want == "some":
                        out += self.pm_subs(subs, lambda f: val, a, declare)
                    else:
                        out.append((a, True))
                if cur is None or cur != want:
                    b = st
                    b.cons[key] = "none" if want == "some" else "some"
                    out.append((b, False))
                return out
            key = ("enumval", val)
            out = []
            a = st.clone()
            text = val[1] if t == "ad" else "value"
            if self.assume_in(a, key, d, True, text):
                out += self.pm_subs(subs, lambda f: ("sym", (id(pat), st.ctx, f)), a, declare)
            b = st
            if self.assume_in(b, key, d, False, text):
                out.append((b, False))
            return out
        if has_tracked(val):
            raise Unint("pattern %s against %s" % (d, t))
        # untracked value: both outcomes
        a = st.clone()
        out = self.pm_subs(subs, lambda f: UNK, a, declare)
        out.append((st, False))
        return out

    # ---- control flow -----------------------------------------------------------------------------------
    def ev_cond(self, c, st):
        """→ list of (state, truth)"""
        c0 = hirq.unmacro(c) if not (hirq.is_node(c) and c[0] == "macro" and c[1] == "matches!") else c
        if hirq.is_node(c0) and c0[0] == "letx":
            out = []
            for s, v in self.ev(c0[2], st):
                if s.exit is not None:
                    out.append((s, None))
                    continue
                out += self.pm(c0[1], v, s.clone(), declare=False)
            return out
        if hirq.is_node(c0) and c0[0] == "bin" and c0[1] in ("And", "Or"):
            out = []
            for s, t in self.ev_cond(c0[2], st):
                if s.exit is not None:
                    out.append((s, None))
                elif (c0[1] == "And") == bool(t):
                    out += self.ev_cond(c0[3], s)
                else:
                    out.append((s, t))
            return out
        if hirq.is_node(c0) and c0[0] == "un" and c0[1] == "Not":
            return [(s, (None if t is None else (not t))) for s, t in self.ev_cond(c0[2], st)]
        if hirq.is_node(c0) and c0[0] == "block" and not c0[1] and c0[2] is not None:
            return self.ev_cond(c0[2], st)
        out = []
        for s, v in self.ev(c0, st):
            if s.exit is not None:
                out.append((s, None))
                continue
            out += self.truth(v, s)
        return out

    def truth(self, v, st):
        t = v[0]
        if t == "bool":
            return [(st, v[1])]
        if t == "isempty":
            key = ("len",) + v[1]
            cur = st.cons.get(key)
            if cur is not None and cur[0] == "eq":
                return [(st, cur[1] == 0)]
            if cur is not None and cur[0] == "ne" and 0 in cur[1]:
                return [(st, False)]
            a = st.clone()
            a.cons[key] = ("eq", 0)
            a.note("%s is empty" % accstr(v[1][1]))
            b = st
            b.cons[key] = ("ne", (cur[1] if cur else frozenset()) | frozenset([0]))
            return [(a, True), (b, False)]
        if t == "optis":
            val, sense = v[1], v[2]
            if val[0] == "at":
                key = ("none", val[1], val[2])
                cur = st.cons.get(key)
                if cur is not None:
                    return [(st, (not cur) == sense)]
                a = st.clone()
                a.cons[key] = not sense
                a.note("%s is %s" % (accstr(val[2]), "Some" if sense else "None"))
                b = st
                b.cons[key] = sense
                b.note("%s is %s" % (accstr(val[2]), "None" if sense else "Some"))
                return [(a, True), (b, False)]
            key = ("opt", val)
            cur = st.cons.get(key)
            if cur is not None:
                return [(st, (cur == "some") == sense)]
            a = st.clone()
            a.cons[key] = "some" if sense else "none"
            b = st
            b.cons[key] = "none" if sense else "some"
            return [(a, True), (b, False)]
        if t in ("ad", "sym"):
            key = ("boolval", v)
            cur = st.cons.get(key)
            if cur is not None:
                return [(st, cur)]
            a = st.clone()
            a.cons[key] = True
            b = st
            b.cons[key] = False
            if t == "ad":
                a.note("%s(%s)" % (v[1], ", ".join(pathstr(p) for p in v[2])))
                b.note("not %s(%s)" % (v[1], ", ".join(pathstr(p) for p in v[2])))
            elif isinstance(v[1], tuple) and len(v[1]) == 2 and isinstance(v[1][1], str):
                a.note("%s%s()" % (self.symname(v[1][0]), v[1][1]))
                b.note("not %s%s()" % (self.symname(v[1][0]), v[1][1]))
            return [(a, True), (b, False)]
        if has_tracked(v):
            raise Unint("condition on %s" % t)
        return [(st.clone(), True), (st, False)]

    def ev_if(self, e, st):
        out = []
        saved = dict(st.env)
        pn = frozenset(n[1] for n in hirq.walk(e[1]) if n[0] == "pbind")
        for s, t in self.ev_cond(e[1], st):
            if s.exit is not None:
                res = [(s, UNK)]
            elif t:
                res = self.ev(e[2], s)
            elif e[3] is not None:
                res = self.ev(e[3], s)
            else:
                res = [(s, UNIT)]
            for s2, v in res:
                s2.env = dict((n, (old if n in pn else s2.env.get(n, old))) for n, old in saved.items())
                out.append((s2, v))
        return dedupe(out)

    def ev_match(self, e, st):
        src = e[3] if len(e) > 3 else ""
        if isinstance(src, str) and src.startswith("TryDesugar"):
            return self.ev_try(e, st)
        out = []
        for s0, v in self.ev(e[1], st):
            if s0.exit is not None:
                out.append((s0, UNK))
                continue
            pend = [s0]
            for (pat, guard, body) in e[2]:
                nxt = []
                pn = frozenset(n[1] for n in hirq.walk(pat) if n[0] == "pbind")
                for s in pend:
                    saved = dict(s.env)
                    for s2, ok in self.pm(pat, v, s.clone(), declare=False):
                        if not ok:
                            s2.env = dict(saved)
                            nxt.append(s2)
                            continue
                        if guard is not None:
                            for s3, t in self.ev_cond(guard, s2):
                                if s3.exit is not None:
                                    out.append((s3, UNK))
                                elif t:
                                    out += self._arm(body, s3, saved, pn)
                                else:
                                    s3.env = dict(saved)
                                    nxt.append(s3)
                        else:
                            out += self._arm(body, s2, saved, pn)
                pend = nxt
            # states that match no arm: the match is exhaustive, so these assumptions are contradictory
        return dedupe(out)

    def _arm(self, body, st, saved, patnames=frozenset()):
        # names bound by the pattern go out of scope; assignments to outer names persist
        res = []
        for s, v in self.ev(body, st):
            s.env = dict((n, (old if n in patnames else s.env.get(n, old))) for n, old in saved.items())
            res.append((s, v))
        return res

    def ev_try(self, e, st):
        inner = hirq.unmacro(e[1])
        if not (hirq.is_node(inner) and inner[0] == "call" and inner[3]):
            raise Unint("`?` desugaring shape")
        out = []
        for s, v in self.ev(inner[3][0], st):
            if s.exit is not None:
                out.append((s, UNK))
                continue
            if v[0] == "ctor" and v[1] == OPTION_SOME:
                out.append((s, v[2][0] if v[2] else UNIT))
            elif v[0] == "ctor" and v[1] == OPTION_NONE:
                s.exit = ("ret", ("ctor", OPTION_NONE, ()))
                out.append((s, UNK))
            elif has_tracked(v):
                raise Unint("`?` on %s" % v[0])
            else:
                a = s.clone()
                out.append((a, UNK))
                s.exit = ("ret", ("ctor", OPTION_NONE, ()))
                out.append((s, UNK))
        return out

    def ev_ret(self, e, st):
        out = []
        if e[1] is None:
            st.exit = ("ret", UNIT)
            return [(st, UNK)]
        for s, v in self.ev(e[1], st):
            if s.exit is None:
                s.exit = ("ret", v)
            out.append((s, UNK))
        return out

    def ev_break(self, e, st):
        if e[1] is None:
            st.exit = ("break", UNIT)
            return [(st, UNK)]
        out = []
        for s, v in self.ev(e[1], st):
            if s.exit is None:
                s.exit = ("break", v)
            out.append((s, UNK))
        return out

    def ev_continue(self, e, st):
        st.exit = ("continue",)
        return [(st, UNK)]

    def ev_loop(self, e, st):
        """`while`/`loop`: concrete unrolling"""
        body = e[2]
        cur = [st]
        out = []
        seen = set()
        for _it in range(K_LOOP + 1):
            nxt = []
            for s in cur:
                try:
                    k = s.key()
                except TypeError:
                    k = None
                if k is not None:
                    if k in seen:
                        continue
                    seen.add(k)
                for s2, _v in self.ev(body, s):
                    if s2.exit is None or s2.exit[0] == "continue":
                        s2.exit = None
                        nxt.append((s2, None))
                    elif s2.exit[0] == "break":
                        v = s2.exit[1]
                        s2.exit = None
                        out.append((s2, v))
                    else:
                        out.append((s2, UNK))
            cur = [x for x, _ in dedupe(nxt)]
            if not cur:
                break
        if cur:
            left = [s for s in cur if s.key() not in seen]
            if left:
                self.pruned[("loop", self._where(st))] = self.pruned.get(("loop", self._where(st)), 0) + len(left)
        return dedupe(out)

    def _where(self, st):
        return st.stack[-1] if st.stack else "?"

    # ---- for loops ----------------------------------------------------------------------------------------
    def for_parts(self, e):
        m = e[2]
        try:
            assert m[0] == "match"
            it = m[1]
            assert it[0] == "call" and hirq.def_path(it[2]).endswith("IntoIterator::into_iter")
            iterable = it[3][0]
            loop = m[2][0][2]
            assert loop[0] == "loop"
            inner = loop[2][1][0] if loop[2][1] else loop[2][2]
            assert inner[0] == "match"
            pat = body = None
            for (p, _g, b) in inner[2]:
                d = hirq.def_path(p[1])
                if d == OPTION_SOME:
                    pat = p[2][0][1] if p[0] == "pstruct" else p[2][0]
                    body = b
            assert pat is not None
            return iterable, pat, body
        except (AssertionError, IndexError, TypeError, AttributeError):
            raise Unint("for-loop desugaring shape")

    def ev_for(self, e, st):
        iterable, pat, body = self.for_parts(e)
        out = []
        for s, v in self.ev(iterable, st):
            if s.exit is not None:
                out.append((s, UNK))
                continue
            out += self.run_for(e, v, pat, body, s)
        return dedupe(out)

    def run_for(self, e, v, pat, body, st):
        base, mods = v, ()
        if v[0] == "iter":
            base, mods = v[1], v[2]
        if base[0] == "list":
            items = list(base[1])
            enum = False
            for m in mods:
                if m[0] == "enumerate":
                    enum = True
                elif m[0] == "rev":
                    items.reverse()
                elif m[0] in ("take", "skip") and m[1][0] == "int":
                    items = items[:m[1][1]] if m[0] == "take" else items[m[1][1]:]
                else:
                    raise Unint("iterator adaptor %s over a local list" % (m[0],))
            cur = [st]
            done = []
            for i, item in enumerate(items):
                val = ("tuple", (("int", i), item)) if enum else item
                nxt = []
                for s in cur:
                    saved = dict(s.env)
                    for s2, ok in self.pm(pat, val, s.clone(), declare=False):
                        if not ok:
                            raise Unint("refutable for pattern")
                        for s3, _v in self.ev(body, s2):
                            s3.env = dict((n, s3.env.get(n, saved[n])) for n in saved)
                            if s3.exit is None or s3.exit[0] == "continue":
                                s3.exit = None
                                nxt.append((s3, None))
                            elif s3.exit[0] == "break":
                                s3.exit = None
                                done.append((s3, UNIT))
                            else:
                                done.append((s3, UNK))
                cur = [x for x, _ in dedupe(nxt)]
            return [(s, UNIT) for s in cur] + done
        if base[0] == "at" and ty_kind(base[3])[0] == "vec":
            inner_ty = ty_kind(base[3])[1]
            elem = self.norm(base[1], base[2] + (("*",),), inner_ty)
            enum = any(m[0] == "enumerate" for m in mods)
            mode = tuple(m for m in mods if m[0] != "enumerate") or (("all",),)
            val = ("tuple", (self.sym(e, st, "idx"), elem)) if enum else elem
            return self.symbolic_loop(("loop", (base[1], base[2]), mode), val, pat, body, st)
        if has_tracked(base):
            raise Unint("for loop over %s" % (base[0],))
        return self.symbolic_loop(("uloop", None, ()), UNK, pat, body, st)

    def symbolic_loop(self, head, val, pat, body, st):
        sub = st.clone()
        sub.trace = ()
        saved = dict(sub.env)
        normal, early = [], []
        for s2, ok in self.pm(pat, val, sub, declare=False):
            if not ok:
                raise Unint("refutable for pattern")
            for s3, _v in self.ev(body, s2):
                if s3.exit is None or s3.exit[0] == "continue":
                    normal.append(s3)
                else:
                    early.append(s3)
        # outer variables changed by the body
        changed = set()
        for s3 in normal + early:
            for n, old in saved.items():
                new = s3.env.get(n, old)
                if new != old:
                    if has_tracked(new) and not (new[0] == "list" and not any(has_tracked(x) for x in new[1])):
                        raise Unint("loop body assigns tracked value to outer variable `%s`" % n)
                    changed.add(n)
        outcomes = frozenset((s3.trace, frozenset(s3.cons.items())) for s3 in normal)
        has_events = any(tr for tr, _c in outcomes)
        ev = head + (outcomes,)
        res = []
        after = st.clone()
        for n in changed:
            after.env[n] = UNK
        if has_events:
            after.trace = after.trace + (ev,)
        res.append((after, UNIT))
        for s3 in early:
            x = st.clone()
            for n in changed:
                x.env[n] = UNK
            tr = x.trace
            if has_events:
                tr = tr + (head[:2] + (("partial",) + tuple(head[2]),) + (outcomes,),)
            if s3.trace:
                tr = tr + (head[:2] + (("last",) + tuple(head[2]),) + (frozenset([(s3.trace, frozenset(s3.cons.items()))]),),)
            x.trace = tr
            x.notes = s3.notes
            if s3.exit[0] == "break":
                x.exit = None
                res.append((x, UNIT))
            else:
                x.exit = s3.exit
                res.append((x, UNK))
        return res

    # ---- expressions -------------------------------------------------------------------------------------------
    def ev_field(self, e, st):
        out = []
        for s, v in self.ev(e[1], st):
            if s.exit is not None:
                out.append((s, UNK))
                continue
            out.append((s, self.field_of(v, e[2], e[3] if len(e) > 3 else None)))
        return out

    def field_of(self, v, name, struct_ty):
        t = v[0]
        if t == "at":
            fty = self.m.field_ty(v[3], name)
            if fty is None:
                raise Unint("field `%s` of payload type %s" % (name, v[3]))
            return self.norm(v[1], v[2] + (name,), fty)
        if t == "struct":
            for f, x in v[2]:
                if f == name:
                    return x
            raise Unint("field `%s` of struct value %s" % (name, v[1]))
        if t == "ad":
            return ("ad", "%s.%s" % (v[1], name), v[2])
        if t == "sym":
            return ("sym", (v[1], name))
        if t == "tuple":
            try:
                return v[1][int(name)]
            except (ValueError, IndexError):
                raise Unint("tuple field %s" % name)
        if has_tracked(v):
            raise Unint("field `%s` of %s" % (name, t))
        return UNK

    def ev_index(self, e, st):
        out = []
        for s, vals in self.ev_seq([e[1], e[2]], st):
            if s.exit is not None:
                out.append((s, UNK))
                continue
            a, i = vals
            if a[0] == "at" and ty_kind(a[3])[0] == "vec":
                k = i[1] if i[0] == "int" else "?"
                out.append((s, self.norm(a[1], a[2] + (("#", k),), ty_kind(a[3])[1])))
            elif a[0] == "list":
                if i[0] == "int" and 0 <= i[1] < len(a[1]):
                    out.append((s, a[1][i[1]]))
                elif any(has_tracked(x) for x in a[1]):
                    raise Unint("computed index into a local list of tracked values")
                else:
                    out.append((s, UNK))
            elif has_tracked(a):
                raise Unint("index into %s" % a[0])
            else:
                out.append((s, UNK))
        return out

    def ev_addr(self, e, st):
        return self.ev(e[2], st)

    def ev_un(self, e, st):
        if e[1] == "Deref":
            return self.ev(e[2], st)
        out = []
        for s, v in self.ev(e[2], st):
            if s.exit is None and e[1] == "Not" and v[0] == "bool":
                out.append((s, ("bool", not v[1])))
            elif s.exit is None and e[1] == "Not" and v[0] in ("isempty", "optis", "ad", "sym"):
                for s2, t in self.truth(v, s):
                    out.append((s2, ("bool", not t)))
            elif s.exit is None and has_tracked(v):
                raise Unint("unary %s on %s" % (e[1], v[0]))
            else:
                out.append((s, UNK))
        return out

    def ev_bin(self, e, st):
        if e[1] in ("And", "Or"):
            return [(s, (UNK if t is None else ("bool", t))) for s, t in self.ev_cond(e, st)]
        out = []
        for s, vals in self.ev_seq([e[2], e[3]], st):
            if s.exit is not None:
                out.append((s, UNK))
                continue
            a, b = vals
            if a[0] == "int" and b[0] == "int" and e[1] in ("Eq", "Ne", "Lt", "Le", "Gt", "Ge", "Add", "Sub"):
                r = {"Eq": a[1] == b[1], "Ne": a[1] != b[1], "Lt": a[1] < b[1], "Le": a[1] <= b[1],
                     "Gt": a[1] > b[1], "Ge": a[1] >= b[1], "Add": a[1] + b[1], "Sub": a[1] - b[1]}[e[1]]
                out.append((s, ("bool", r) if isinstance(r, bool) else ("int", r)))
            elif a[0] == "len" and b[0] == "int" and e[1] in ("Eq", "Ne"):
                for s2, ok in self.pm(["lit", "int", b[1]], a, s):
                    out.append((s2, ("bool", ok == (e[1] == "Eq"))))
            else:
                # comparisons / arithmetic over ids and lengths are inspections
                out.append((s, UNK))
        return out

    def ev_cast(self, e, st):
        return [(s, (v if v[0] == "int" else (UNK if not has_tracked(v) or v[0] == "len" else v)))
                for s, v in self.ev(e[1], st)]

    def ev_tup(self, e, st):
        return [(s, ("tuple", tuple(vals)) if s.exit is None else UNK) for s, vals in self.ev_seq(e[1], st)]

    def ev_array(self, e, st):
        return [(s, ("list", tuple(vals)) if s.exit is None else UNK) for s, vals in self.ev_seq(e[1], st)]

    def ev_struct(self, e, st):
        names = [f for f, _x in e[2]]
        out = []
        exprs = [x for _f, x in e[2]]
        base = e[3] if len(e) > 3 else None
        spath = hirq.def_path(e[1]) or "?"
        for s, vals in self.ev_seq(exprs, st):
            if s.exit is not None:
                out.append((s, UNK))
                continue
            if base is not None:
                for s2, bv in self.ev(base, s):
                    if has_tracked(bv):
                        raise Unint("struct update syntax with tracked base")
                    out.append((s2, ("struct", spath, tuple(zip(names, vals)))))
            else:
                out.append((s, ("struct", spath, tuple(zip(names, vals)))))
        return out

    def ev_assign(self, e, st):
        out = []
        for s, v in self.ev(e[2], st):
            if s.exit is not None:
                out.append((s, UNK))
                continue
            l = hirq.strip(e[1])
            if hirq.is_node(l) and l[0] == "local":
                s.env[l[1]] = v
                out.append((s, UNIT))
            else:
                if has_tracked(v):
                    raise Unint("assignment of tracked value to a place")
                for s2, _lv in self.ev_place(e[1], s):
                    out.append((s2, UNIT))
        return out

    def ev_place(self, l, st):
        """evaluate the sub-expressions of a place (for their events)"""
        l = hirq.unmacro(l)
        if hirq.is_node(l) and l[0] in ("field", "addr"):
            return self.ev_place(l[1] if l[0] == "field" else l[2], st)
        if hirq.is_node(l) and l[0] == "un":
            return self.ev_place(l[2], st)
        if hirq.is_node(l) and l[0] == "index":
            out = []
            for s, _v in self.ev_place(l[1], st):
                out += self.ev(l[2], s)
            return out
        if hirq.is_node(l) and l[0] == "local":
            return [(st, UNK)]
        return self.ev(l, st)

    def ev_assignop(self, e, st):
        out = []
        for s, v in self.ev(e[3], st):
            l = hirq.strip(e[2])
            if s.exit is None and hirq.is_node(l) and l[0] == "local" and has_tracked(s.env.get(l[1], UNK)):
                raise Unint("compound assignment to tracked variable")
            if s.exit is None and hirq.is_node(l) and l[0] == "local":
                s.env[l[1]] = UNK
            out.append((s, UNIT))
        return out

    def ev_closure(self, e, st):
        self.closures[id(e)] = e
        return [(st, ("closure", id(e)))]

    def probe_closure(self, cv, st, what):
        """closure handed to an adaptor we do not model: it must not emit"""
        e = self.closures[cv[1]]
        s = st.clone()
        s.trace = ()
        for q in e[2]:
            self.bind_all(q, UNK, s)
        try:
            outs = self.ev(e[3], s)
        except Unint as ex:
            raise Unint("closure passed to %s: %s" % (what, ex))
        for s2, _v in outs:
            if s2.trace:
                raise Unint("closure passed to %s emits code" % what)

    def ev_letx(self, e, st):
        return [(s, (UNK if t is None else ("bool", t))) for s, t in self.ev_cond(e, st)]

    # ---- calls -----------------------------------------------------------------------------------------------------
    def is_panic(self, d):
        return d is not None and d.startswith(PANIC_PREFIXES)

    def ev_call(self, e, st):
        c = e[2]
        d = hirq.def_path(c) if hirq.is_node(c) and c[0] == "def" else None
        if d is not None and c[1] in ("ctor", "variant", "struct"):
            return [(s, ("ctor", d, tuple(vals)) if s.exit is None else UNK) for s, vals in self.ev_seq(e[3], st)]
        if self.is_panic(d):
            return []
        out = []
        if d is None:
            # call of a closure value / fn pointer
            for s, vals in self.ev_seq([c] + list(e[3]), st):
                if s.exit is not None:
                    out.append((s, UNK))
                    continue
                if vals[0][0] == "closure":
                    out += self.call_closure(vals[0], list(vals[1:]), s)
                elif any(has_tracked(v) for v in vals):
                    raise Unint("indirect call with tracked arguments")
                else:
                    out.append((s, UNK))
            return out
        for s, vals in self.ev_seq(e[3], st):
            if s.exit is not None:
                out.append((s, UNK))
                continue
            out += self.apply(d, hirq.last(d), list(vals), s, e, None, list(e[3]))
        return out

    def ev_mcall(self, e, st):
        out = []
        for s, vals in self.ev_seq([e[4]] + list(e[5]), st):
            if s.exit is not None:
                out.append((s, UNK))
                continue
            out += self.apply(e[2], e[3], list(vals), s, e, e[4], [e[4]] + list(e[5]))
        return out

    def call_closure(self, cv, args, st):
        e = self.closures[cv[1]]
        s = st.clone()
        saved = dict(s.env)
        cur = [s]
        for q, a in zip(e[2], args + [UNK] * len(e[2])):
            nxt = []
            for x in cur:
                for s2, ok in self.pm(q, a, x, declare=False):
                    if ok:
                        nxt.append(s2)
            cur = nxt
        out = []
        for x in cur:
            for s2, v in self.ev(e[3], x):
                if s2.exit is not None and s2.exit[0] == "ret":
                    v = s2.exit[1]
                    s2.exit = None
                s2.env = dict((n, s2.env.get(n, saved[n])) for n in saved)
                out.append((s2, v))
        return out

    def apply(self, d, name, vals, st, e, recv_expr, arg_exprs=()):
        """d: resolved path or None; vals: evaluated (receiver +) arguments"""
        if self.is_panic(d):
            return []
        # sinks
        if d in self.sinks:
            idx, kind = self.sinks[d]
            a = vals[idx] if idx < len(vals) else UNK
            if a[0] != "node":
                raise Unint("sink %s called with an argument that is not a tracked node (%s)" % (hirq.last(d), a[0]))
            if not a[1]:
                raise Unint("sink %s called on the node being handled" % hirq.last(d))
            st.trace = st.trace + (("gen", a[1], hirq.last(d)),)
            return [(st, ("ad", "result of %s" % hirq.last(d), (a[1],)))]
        # node lookups
        if d in self.lookups:
            a = vals[-1] if vals else UNK
            if a[0] == "node":
                return [(st, ("enum", a[1]))]
            if has_tracked(a):
                raise Unint("lookup %s with %s" % (name, a[0]))
            return [(st, UNK)]
        if d is not None and re.match(r"^alloc::vec::Vec::<.*>::(new|with_capacity)$", d):
            return [(st, ("list", ()))]
        tracked = any(has_tracked(v) for v in vals)
        # functions of the generator module and accessors of the node enums: inline
        if d is not None and d in self.c.hir and tracked:
            if d.startswith(self.module) and not d.startswith(self.no_inline):
                return self.inline(d, vals, st, e, arg_exprs)
            if vals and vals[0][0] == "enum" and d.rsplit("::", 1)[0] in self.m.roots:
                return self.inline(d, vals, st, e, arg_exprs)
        if d is not None and d.startswith(self.module) and tracked and d not in self.c.hir:
            raise Unint("generator function %s without body facts receives a tracked value" % d)
        recv = vals[0] if (recv_expr is not None and vals) else None
        if recv is not None:
            r = self.std_method(name, recv, vals[1:], st, e, recv_expr)
            if r is not None:
                return r
        for v in vals:
            if v[0] == "closure":
                self.probe_closure(v, st, name)
        if recv is not None and has_tracked(recv) and recv[0] not in ("node",):
            if recv[0] in ("len", "isempty", "optis"):
                return [(st, UNK)]
            raise Unint("method `%s` on tracked %s" % (name, recv[0]))
        if tracked:
            ps = []
            for v in vals:
                node_paths(v, ps)
            if d in self.record_inspections:
                # the path consulted this analysis datum of these nodes
                st.cons[("seen", d, tuple(ps))] = True
            return [(st, ("ad", name, tuple(ps)))]
        if recv is not None and recv[0] in ("ad", "sym"):
            return [(st, ("sym", (recv, name)))]
        return [(st, UNK)]

    def set_local(self, st, recv_expr, value, tracked_new):
        l = hirq.strip(recv_expr) if recv_expr is not None else None
        if hirq.is_node(l) and l[0] == "local":
            st.env[l[1]] = value
            return True
        if tracked_new:
            raise Unint("tracked value stored into a place that is not a local")
        return False

    def std_method(self, name, recv, args, st, e, recv_expr):
        t = recv[0]
        if name in TRANSPARENT and t != "closure":
            return [(st, recv)]
        if t == "at":
            k = ty_kind(recv[3])
            if k[0] == "vec":
                if name in ITER_START:
                    return [(st, ("iter", recv, ()))]
                if name == "len":
                    return [(st, ("len", (recv[1], recv[2])))]
                if name == "is_empty":
                    return [(st, ("isempty", (recv[1], recv[2])))]
                if name in ("first", "last", "get", "pop", "split_first", "split_last", "chunks", "windows"):
                    raise Unint("partial list access `.%s()` on %s" % (name, accstr(recv[2])))
                return None
            if k[0] == "opt":
                if name in OPT_UNWRAP:
                    key = ("none", recv[1], recv[2])
                    if st.cons.get(key) is True:
                        return []
                    if st.cons.get(key) is None:
                        st.cons[key] = False
                    return [(st, self.norm(recv[1], recv[2], k[1]))]
                if name in ("is_some", "is_none"):
                    return [(st, ("optis", recv, name == "is_some"))]
                if name in ("map", "and_then", "unwrap_or", "unwrap_or_else", "map_or", "filter", "or", "or_else",
                            "take", "iter"):
                    raise Unint("Option adaptor `.%s()` on optional child %s" % (name, accstr(recv[2])))
                return None
            return None
        if t == "iter":
            if name in ("enumerate", "rev"):
                return [(st, ("iter", recv[1], recv[2] + ((name,),)))]
            if name in ("take", "skip") and len(args) == 1:
                return [(st, ("iter", recv[1], recv[2] + ((name, args[0]),)))]
            if name in ITER_START:
                return [(st, recv)]
            raise Unint("iterator adaptor `.%s()` over %s" % (name, recv[1][0]))
        if t == "list":
            items = recv[1]
            tr = any(has_tracked(x) for x in items)
            if name == "push" and len(args) == 1:
                self.set_local(st, recv_expr, ("list", items + (args[0],)), has_tracked(args[0]))
                return [(st, UNIT)]
            if name == "insert" and len(args) == 2:
                if args[0][0] == "int" and 0 <= args[0][1] <= len(items):
                    new = items[:args[0][1]] + (args[1],) + items[args[0][1]:]
                    self.set_local(st, recv_expr, ("list", new), has_tracked(args[1]))
                    return [(st, UNIT)]
                if tr or has_tracked(args[1]):
                    raise Unint("insert at computed position into a list of tracked values")
                self.set_local(st, recv_expr, UNK, False)
                return [(st, UNIT)]
            if name == "reverse":
                self.set_local(st, recv_expr, ("list", tuple(reversed(items))), tr)
                return [(st, UNIT)]
            if name in ITER_START:
                return [(st, ("iter", recv, ()))]
            if name == "len":
                return [(st, ("int", len(items)))]
            if name == "is_empty":
                return [(st, ("bool", len(items) == 0))]
            if name in ("last", "first"):
                if not items:
                    return [(st, ("ctor", OPTION_NONE, ()))]
                return [(st, ("ctor", OPTION_SOME, (items[-1] if name == "last" else items[0],)))]
            if name in ("extend_from_slice", "extend", "append") and not tr and not any(has_tracked(a) for a in args):
                self.set_local(st, recv_expr, UNK, False)
                return [(st, UNIT)]
            if tr:
                raise Unint("method `%s` on a local list of tracked values" % name)
            return [(st, UNK)]
        if t == "ctor" and recv[1] in (OPTION_SOME, OPTION_NONE):
            some = recv[1] == OPTION_SOME
            if name in OPT_UNWRAP:
                return [(st, recv[2][0])] if some else []
            if name in ("is_some", "is_none"):
                return [(st, ("bool", some == (name == "is_some")))]
            if has_tracked(recv):
                raise Unint("Option method `%s` on tracked value" % name)
            return [(st, UNK)]
        if t in ("ad", "sym"):
            if name in OPT_UNWRAP:
                key = ("opt", recv)
                if st.cons.get(key) == "none":
                    return []
                st.cons[key] = "some"
                return [(st, recv)]
            if name in ("is_some", "is_none"):
                return [(st, ("optis", recv, name == "is_some"))]
            return None
        if t == "struct":
            return None
        return None

    def inline(self, d, vals, st, e, arg_exprs=()):
        if st.stack.count(d) > K_REC:
            self.pruned[("rec", d)] = self.pruned.get(("rec", d), 0) + 1
            return []
        b = self.c.hir[d]
        self.inlined.add(d)
        s = st.clone()
        caller_env, caller_decl, caller_params = s.env, s.decl, s.params
        if s.handler is None and len(s.stack) == 1:
            s.handler = d
        s.env = {}
        s.decl = ()
        s.stack = st.stack + (d,)
        s.ctx = st.ctx + (id(e),)
        cur = [s]
        for i, (pat, _ty) in enumerate(b["params"]):
            a = vals[i] if i < len(vals) else UNK
            nxt = []
            for x in cur:
                for s2, ok in self.pm(pat, a, x, declare=False):
                    if ok:
                        nxt.append(s2)
            cur = nxt
        out = []
        # lists handed over by `&mut local`: what the callee does to them is visible to the caller
        byref = []
        for i, (pat, _ty) in enumerate(b["params"]):
            if i < len(arg_exprs) and i < len(vals) and vals[i][0] == "list" and hirq.is_node(pat) and pat[0] == "pbind":
                ax = hirq.unmacro(arg_exprs[i])
                if hirq.is_node(ax) and ax[0] == "addr" and ax[1]:
                    loc = hirq.local_name(ax[2])
                    if loc is not None and loc in caller_env:
                        byref.append((pat[1], loc))
                elif hirq.is_node(ax) and ax[0] == "local" and isinstance(_ty, str) and _ty.startswith("&mut"):
                    byref.append((pat[1], ax[1]))
        for x in cur:
            x.params = frozenset(x.env)
            for s2, v in self.ev(b["body"], x):
                if s2.exit is not None:
                    if s2.exit[0] == "ret":
                        v = s2.exit[1]
                        s2.exit = None
                    else:
                        raise Unint("%s: `%s` leaves the function" % (d, s2.exit[0]))
                updates = [(loc, s2.env.get(pn, UNK)) for pn, loc in byref]
                s2.env = dict(caller_env)
                for loc, nv in updates:
                    s2.env[loc] = nv
                s2.decl = caller_decl
                s2.params = caller_params
                s2.stack = st.stack
                s2.ctx = st.ctx
                out.append((s2, v))
        return merge_cons(out, self.protected) if all(not has_tracked(v) for _s, v in out) else dedupe(out)

    def ev_path(self, e, st):
        return [(st, UNK)]

    def ev_repeat(self, e, st):
        return [(st, UNK)]

    def ev_other(self, e, st):
        return [(st, UNK)]

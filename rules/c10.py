"""C10 — every place a frame can be suspended has a stack map.

R1   baseline: every emitted call is followed, before any other code is emitted, by a stack-map
     record at its return offset (MIR forward scan), with rule-level exemptions for runtime
     functions whose native target diverges and for the non-collecting write-barrier slow path
R1b  runtime-entry trampolines record the one stack map at offset 0 that the stack walker reads
R2   same pairing in both boots back ends (Dora statement lists)
R3   metadata writer / start-up reader record agreement (rules/c10_metadata.py)
R4   every code kind has an explicit arm in the stack walker's root iteration
Slot liveness (that the map names exactly the live references) is NOT decided.
"""
import cfg
import doraq
import hirq
from callgraph import CallGraph

CC = "dora_cannon_compiler::"
RT = "dora_runtime::"
SEEDS = [RT + "gc::Gc::alloc", RT + "gc::Gc::collect_garbage", RT + "safepoint::stop_the_world",
         RT + "threads::DoraThread::park", RT + "threads::parked_scope"]


def last(p):
    return p.rsplit("::", 1)[-1]


def runtime_function_targets(F):
    """RuntimeFunction variant → native Rust fn path (derived from runtime_function_symbol and
    compile_aot_runtime_trampolines / export symbols)"""
    dc = F.crate("dora_compiler")
    rt = F.crate("dora_runtime")
    sym = {}
    b = dc.hir_fn("aot_compile::runtime_function_symbol")
    if b:
        for n in hirq.walk(b["body"]):
            if n[0] == "match":
                for (pat, g, arm) in hirq.match_arms(n):
                    a = hirq.strip(arm)
                    if hirq.is_node(a) and a[0] == "lit" and a[1] == "str":
                        for d in hirq.pat_paths(pat):
                            sym[last(d)] = a[2]
    tramp = {}
    b = dc.hir_fn("aot_compile::compile_aot_runtime_trampolines")
    if b:
        for cs in hirq.calls(b["body"]):
            if cs.callee and cs.callee.endswith("compile_runtime_function_trampoline") and len(cs.args) >= 2:
                a0 = hirq.strip(cs.args[0])
                a1 = cs.args[1]
                lits = [n[2] for n in hirq.walk(a1) if n[0] == "lit" and n[1] == "str"]
                if hirq.is_node(a0) and a0[0] == "lit" and lits:
                    tramp[a0[2]] = lits[0]
    bysym = {f["symbol"]: f["path"] for f in rt.items["fns"] if f.get("symbol")}
    out = {}
    for variant, s in sym.items():
        native_sym = tramp.get(s, s)
        out[variant] = bysym.get(native_sym)
    return out, sym, tramp


def diverging(cg, roots):
    """functions (among all bodies) with no reachable normal return once calls to diverging functions are cut"""
    div = set()
    changed = True
    bodies = {}
    while changed:
        changed = False
        for p in list(cg.bodies):
            if p in div or not p.startswith(RT):
                continue
            B = bodies.get(p)
            if B is None:
                B = bodies[p] = cg.body(p)
            cut = set()
            for x in B.calls:
                tg = [t for (t, k) in cg.targets(x.fn)] if x.fn else []
                known = [t for t in tg if t in cg.bodies]
                # a call is cut only when every possible target is known and diverges (dyn calls expand to all impls)
                if known and len(known) == len(tg) and all(t in div for t in known):
                    cut.add(x.block)
            reach = B.reachable(0, avoid=set())
            # remove paths through cut call blocks: successors of a cut block are not taken
            seen = set()
            st = [0]
            while st:
                b = st.pop()
                if b in seen:
                    continue
                seen.add(b)
                if b in cut:
                    continue
                for s in B.succ[b]:
                    if s not in seen:
                        st.append(s)
            if not (seen & set(B.exits())):
                div.add(p)
                changed = True
    return div


def rule_r1(chk, F):
    r = chk.rule("C10.R1", "baseline: after every call-emitting masm primitive the next code-affecting emission is "
                           "emit_gcpoint (directly or via call_epilog); exempt by rule: runtime functions whose native "
                           "target diverges, and the non-collecting write-barrier slow path")
    cg = CallGraph(F, libs=["dora_cannon_compiler", "dora_asm", "dora_runtime", "dora_compiler"], bins=[])
    call_insns = {p for p in cg.bodies if p in ("dora_asm::x64::AssemblerX64::call_rel32",
                                                "dora_asm::x64::AssemblerX64::call_r")}
    if not r.anchor("AssemblerX64::call_rel32/call_r", call_insns):
        return
    masm_fns = [p for p in cg.bodies if p.startswith(CC + "masm::") and "MacroAssembler" in p]
    prims = set()
    # A method that emits the call instruction *directly* on either target is a call primitive on both: on x64
    # `virtual_call`/`raw_call` go through `call_reg`, on arm64 they emit `blr`/`bl` themselves — their call sites
    # outside masm owe the stack map on both targets (C10.R7 checks that the transitive sets agree by name).
    try:
        A = F.a64()
        acc = A.crate("dora_cannon_compiler")
        a64_call = ("bl_i", "bl_r", "bl", "blr", "bl_imm")
        for ap, mb in acc.mir.items():
            if "masm::arm64::" not in ap:
                continue
            AB = cfg.Body(mb)
            if any(x.name and x.name.startswith("dora_asm::arm64::") and last(x.name) in a64_call for x in AB.calls):
                for p in masm_fns:
                    if last(p) == last(ap):
                        prims.add(p)
    except Exception as e:                                      # noqa: BLE001 — host-only analysis still stands
        r.observe("aarch64 facts unavailable (%s): call primitives derived from the x64 emitters only" % e)
    r.floor("call-emitting masm primitives", len(prims), 4)
    r.observe("primitives: %s" % sorted(last(p) for p in prims))
    targets, sym, tramp = runtime_function_targets(F)
    r.floor("RuntimeFunction variants mapped to natives", sum(1 for v in targets.values() if v), 6)
    div = diverging(cg, [])
    may_collect = cg.callers_closure(SEEDS)
    exempt = {}
    for variant, native in targets.items():
        if native is None:
            continue
        if native in div:
            exempt[variant] = "native target %s never returns" % last(native)
        elif variant == "WriteBarrierSlowPath" and native not in may_collect:
            exempt[variant] = "native target %s cannot reach a collection or a park" % last(native)
    r.observe("rule-level exemptions: %s" % exempt)
    GCP = CC + "masm::MacroAssembler::emit_gcpoint"
    EPI = CC + "asm::BaselineAssembler::<'a>::call_epilog"
    NEUTRAL = ("emit_position", "emit_positon", "emit_comment", "emit_lineno", "pos", "emit_call_relocation",
               "emit_native_call_relocation", "emit_direct_call_relocation")

    def code_affecting(name):
        if not name or not name.startswith(CC):
            return False
        if not (name.startswith(CC + "masm::") or name.startswith(CC + "asm::BaselineAssembler")):
            return False
        return last(name) not in NEUTRAL

    def scan(B, start_block):
        """→ (ok, offender) forward scan from the successors of start_block"""
        seen = set()
        st = list(B.succ[start_block])
        while st:
            b = st.pop()
            if b in seen:
                continue
            seen.add(b)
            t = B.blocks[b]["t"]
            if t[0] == "call":
                fn = cfg.callee_of(t[1]["f"])
                name = cfg.callee_name(fn)
                if name == GCP:
                    continue
                if name == EPI:
                    continue
                if code_affecting(name):
                    return False, "%s emits code before the stack map" % last(name)
            if t[0] == "ret":
                return False, "function returns without recording a stack map"
            for s in B.succ[b]:
                if s not in seen:
                    st.append(s)
        return True, None

    # call_epilog itself starts with the stack map
    E = cg.body(EPI)
    if r.anchor("BaselineAssembler::call_epilog", E):
        first = None
        seen = set()
        order = E._rpo(0)
        for b in order:
            t = E.blocks[b]["t"]
            if t[0] == "call":
                name = cfg.callee_name(cfg.callee_of(t[1]["f"]))
                if name == GCP or code_affecting(name):
                    first = name
                    break
        r.instance("call_epilog:first-emission-is-gcpoint", sample={"first": first})
        if first != GCP:
            r.violation(EPI + ":gcpoint-not-first",
                        "call_epilog emits `%s` before emit_gcpoint: the stack map is recorded at the wrong offset"
                        % last(first or "nothing"), E.file)
    nsites = 0
    for p in sorted(cg.bodies):
        if not p.startswith(CC) or p.startswith(CC + "masm::") or "{closure" in p:
            continue
        B = cg.body(p)
        defs = None
        for x in B.calls:
            if x.name not in prims:
                continue
            nsites += 1
            variant = None
            for a in x.args:
                if defs is None:
                    defs = cfg.simple_defs(B)
                o = cfg.origin(B, a, defs)
                if o[0] == "agg" and o[1][0] == "adt" and o[1][1].endswith("RuntimeFunction"):
                    variant = o[1][2]
            ok, why = scan(B, x.block)
            key = "%s:%s%s" % (p, last(x.name), ("(%s)" % variant) if variant else "")
            r.instance(key, sample={"fn": p, "primitive": last(x.name), "runtime_function": variant,
                                    "gcpoint_follows": ok, "at": x.where()})
            if ok:
                continue
            if variant in exempt:
                r.observe("%s: no stack map after %s — exempt (%s)" % (last(p), variant, exempt[variant]))
                continue
            r.violation(key + ":no-stack-map",
                        "%s; a collection that finds this frame suspended at that return address has no map (`no "
                        "gcpoint` panic) or reads one recorded for a different offset" % why, x.where())
    r.floor("call sites of call-emitting primitives outside masm", nsites, 7)
    # who-may-call the raw instructions
    for p in sorted(cg.bodies):
        if p.startswith(CC) and not p.startswith(CC + "masm::"):
            B = cg.body(p)
            for x in B.calls:
                if x.name in call_insns:
                    r.violation(p + ":raw-call-instruction",
                                "%s emits a raw call instruction outside masm (no stack-map discipline applies)"
                                % last(p), x.where())
    return exempt


def rule_r1b(chk, F):
    r = chk.rule("C10.R1b", "runtime-entry trampolines: the path that emits the native call records the stack map at "
                            "offset 0 (read by iterate_roots_from_stack_frame via gcpoint_for_offset(0))")
    dc = F.crate("dora_compiler")
    n = 0
    for p, mb in sorted(dc.mir.items()):
        if not p.startswith("dora_compiler::runtime_entry_trampoline::") or last(p) != "generate":
            continue
        B = cfg.Body(mb)
        calls = [x for x in B.calls if x.name and (x.name.endswith("AssemblerX64::call_rel32")
                                                   or last(x.name) in ("bl", "bl_imm", "blr", "bl_r")
                                                   and "arm64" in x.name)]
        if not calls:
            continue
        n += 1
        ins = [x for x in B.calls if x.name and x.name.endswith("GcPointTable::insert")]
        r.instance(p + ":gcpoint-at-0", sample={"fn": p, "native_calls": len(calls), "inserts": len(ins)})
        ok = False
        for i in ins:
            a = i.args[1] if len(i.args) > 1 else None
            zero = a is not None and a[0] == "k" and a[1].get("v") == 0
            if zero and B.postdominates(i.block, 0):
                ok = True
        if not ok:
            r.violation(p + ":no-stack-map-at-offset-0",
                        "the trampoline calls native code but does not record the stack map at offset 0 on every "
                        "path: handles for reference arguments are not visited while the native runs", B.file)
    r.floor("runtime-entry trampoline generators", n, 2)
    # the reader side uses offset 0 for these kinds
    rt = F.crate("dora_runtime")
    b = rt.hir_fn("gc::root::iterate_roots_from_stack_frame")
    if r.anchor("iterate_roots_from_stack_frame", b):
        zero = [cs for cs in hirq.calls(b["body"]) if cs.name == "gcpoint_for_offset" and cs.args
                and hirq.lit_int(cs.args[0]) == 0]
        r.instance("reader:gcpoint_for_offset(0)")
        if not zero:
            r.violation("iterate_roots_from_stack_frame:no-offset-0-lookup",
                        "trampoline frames are no longer looked up at offset 0", b["file"])


def stmt_lists(node):
    """every BLOCK_EXPR's statement list (nested ones as well)"""
    for n in doraq.walk(node):
        if n[0] == "BLOCK_EXPR":
            yield doraq.nodes(n)


def direct_calls(st):
    """calls in a statement that are not inside a nested block or lambda body"""
    out = []
    stack = [st]
    while stack:
        n = stack.pop()
        if not doraq.is_node(n):
            continue
        if n is not st and n[0] in ("BLOCK_EXPR", "LAMBDA_EXPR"):
            continue
        if n[0] in ("CALL_EXPR", "METHOD_CALL_EXPR"):
            out.append(doraq.Call(n))
        for c in n[2]:
            if doraq.is_node(c):
                stack.append(c)
    return out


def rule_r2(chk, F, exempt):
    r = chk.rule("C10.R2", "boots back ends: every emitted call instruction is followed in its statement list, before "
                           "any other instruction, by gc_points.insert(pos, ..) (and locations.insert); same rule-"
                           "level exemptions, identified by the relocation's RuntimeFunction")
    D = F.dora()
    spec = {"pkgs/boots/codegen/x64.dora": ("self.asm.call_rel32", "self.asm.call_r"),
            "pkgs/boots/codegen/arm64.dora": ("self.asm.bl_imm", "self.asm.bl_r", "self.asm.bl", "self.asm.blr")}
    for f, insns in spec.items():
        t = D.get(f)
        if not r.anchor(f, t):
            continue
        fns = [fn for fn in doraq.functions(t, f) if fn.body is not None]
        # wrappers: functions whose body emits a call and ends without gc point, taking the runtime function as param
        wrappers = {}
        nsites = 0
        for fn in fns:
            for lst in stmt_lists(fn.body):
                for i, st in enumerate(lst):
                    # a call instruction emitted directly by this statement (not inside a nested block/lambda:
                    # nested blocks are statement lists of their own)
                    direct = [c for c in direct_calls(st) if c.callee in insns]
                    if not direct:
                        continue
                    nsites += 1
                    ok = False
                    offender = None
                    rtf = set()
                    for st2 in lst[i + 1:]:
                        tx = doraq.text(st2)
                        for v in exempt:
                            if "RuntimeFunction::" + v in tx:
                                rtf.add(v)
                        if "self.gc_points.insert(" in tx:
                            ok = True
                            break
                        others = [c for c in direct_calls(st2) if c.callee.startswith("self.asm.")
                                  and c.callee != "self.asm.position"]
                        if others:
                            offender = others[0].callee
                            break
                    # the statement itself may carry the relocation kind
                    for v in exempt:
                        if "RuntimeFunction::" + v in doraq.text(st):
                            rtf.add(v)
                    params = [pn for (pn, pt) in fn.params() if pt and "RuntimeFunction" in pt]
                    key = "%s::%s:%s@%d" % (f, fn.qual, direct[0].callee.split(".")[-1], i)
                    r.instance(key, sample={"fn": fn.qual, "line": direct[0].line, "gc_point_follows": ok,
                                            "runtime_functions": sorted(rtf)})
                    if ok:
                        continue
                    if rtf:
                        r.observe("%s: no stack map — exempt (%s)" % (fn.qual, ", ".join(sorted(rtf))))
                        continue
                    if params:
                        wrappers[fn.name] = fn
                        r.observe("%s is a call wrapper taking the RuntimeFunction as a parameter: its callers are "
                                  "checked" % fn.qual)
                        continue
                    r.violation("%s::%s:call-without-gc-point" % (f, fn.qual),
                                "a call instruction is emitted and %s before gc_points.insert: no stack map at this "
                                "return address" % (("`%s` follows" % offender) if offender else "the block ends"),
                                "%s:%d" % (f, direct[0].line))
        # callers of wrappers
        for fn in fns:
            for lst in stmt_lists(fn.body):
                for i, st in enumerate(lst):
                    if st[0] not in ("EXPR_STMT", "LET"):
                        continue
                    cs = [c for c in direct_calls(st) if c.callee.startswith("self.") and c.callee[5:] in wrappers]
                    if not cs:
                        continue
                    nsites += 1
                    arg = cs[0].arg_text(0) or ""
                    ok = False
                    offender = None
                    for st2 in lst[i + 1:]:
                        tx = doraq.text(st2)
                        if "self.gc_points.insert(" in tx:
                            ok = True
                            break
                        others = [c for c in doraq.calls(st2) if c.callee.startswith("self.asm.")
                                  and c.callee != "self.asm.position"]
                        if others:
                            offender = others[0].callee
                            break
                    key = "%s::%s:%s(%s)" % (f, fn.qual, cs[0].callee[5:], arg)
                    r.instance(key, sample={"fn": fn.qual, "arg": arg, "gc_point_follows": ok})
                    if ok:
                        continue
                    v = arg.split("::")[-1]
                    if v in exempt:
                        r.observe("%s: %s without stack map — exempt (%s)" % (fn.qual, v, exempt[v]))
                        continue
                    r.violation(key + ":call-without-gc-point",
                                "the runtime call is not followed by gc_points.insert (%s)" % (offender or "block ends"),
                                "%s:%d" % (f, cs[0].line))
        r.floor("%s call sites" % f, nsites, 6)


def rule_r4(chk, F):
    r = chk.rule("C10.R4", "every CodeKind has an explicit (non-wildcard) arm in the stack walker's root iteration; "
                           "kinds that are walked without a stack map are exactly the trampolines that save no "
                           "managed references")
    rt = F.crate("dora_runtime")
    ck = None
    for a in rt.items["adts"]:
        if a["path"].endswith("runtime::code::CodeKind") or a["path"].endswith("::CodeKind") and a["kind"] == "enum" \
                and "runtime" in a["path"]:
            ck = a
    if not r.anchor("dora_runtime CodeKind", ck):
        return
    variants = [v["name"] for v in ck["variants"]]
    r.floor("CodeKind variants", len(variants), 8)
    b = rt.hir_fn("gc::root::iterate_roots_from_stack_frame")
    if not r.anchor("iterate_roots_from_stack_frame", b):
        return
    arms = {}
    wild = False
    for n in hirq.walk(b["body"]):
        if n[0] != "match":
            continue
        hit = False
        local = {}
        for (pat, g, arm) in hirq.match_arms(n):
            names = [last(d) for d in hirq.pat_paths(pat) if "CodeKind::" in d]
            if names:
                hit = True
            uses_map = any(cs.name == "gcpoint_for_offset" for cs in hirq.calls(arm))
            panics = hirq.is_panic_body(arm)
            for nm in names:
                local[nm] = ("map" if uses_map else ("panic" if panics else "nomap"))
        if hit:
            arms.update(local)
            wild = wild or any(hirq.pat_is_wild(pat) for (pat, g, a) in hirq.match_arms(n))
    for v in variants:
        r.instance("CodeKind::%s" % v, sample={"variant": v, "handling": arms.get(v)})
        if v not in arms:
            r.violation("iterate_roots_from_stack_frame:CodeKind::%s:no-arm" % v,
                        "code kind %s has no explicit arm in the stack walker" % v, b["file"])
    if wild:
        r.violation("iterate_roots_from_stack_frame:wildcard-arm",
                    "a wildcard arm hides code kinds added later from the stack walker", b["file"])
    # frozen, with reasons: frames walked without consulting a stack map
    NOMAP_OK = {
        "AllocationFailureTrampoline": "saves no managed references (its only argument is a size); the caller's "
                                       "frame has its own map",
        "SafepointTrampoline": "saves no managed references; takes no arguments",
        "DoraEntryTrampoline": "terminates the walk (bottom-most managed frame)",
    }
    for v, how in sorted(arms.items()):
        if how == "nomap" and v not in NOMAP_OK:
            r.violation("iterate_roots_from_stack_frame:CodeKind::%s:walked-without-stack-map" % v,
                        "frames of kind %s are skipped without consulting a stack map" % v, b["file"])
        if how == "nomap":
            r.observe("%s walked without map: %s" % (v, NOMAP_OK.get(v, "?")))


def rule_r5(chk, F, rid="C10.R5"):
    r = chk.rule(rid, "a trap call is never the last instruction of a code object: after the deferred bailout "
                           "stubs a non-call instruction is emitted, so the return address (where the source position "
                           "is recorded) lies inside the function and cannot resolve to the next code object")
    cg = CallGraph(F, libs=["dora_cannon_compiler", "dora_asm"], bins=[])
    eb = [p for p in cg.bodies if p.endswith("masm::MacroAssembler::emit_bailouts")]
    if r.anchor("MacroAssembler::emit_bailouts", eb):
        B = cg.body(eb[0])
        traps = B.calls_to("masm::MacroAssembler::trap")
        asm_insn = {p for p in cg.bodies if p.startswith("dora_asm::x64::AssemblerX64::")}
        call_insn = {"dora_asm::x64::AssemblerX64::call_rel32", "dora_asm::x64::AssemblerX64::call_r"}
        # masm methods that emit at least one machine instruction and never a call
        emitters = set()
        for p in cg.bodies:
            if p.startswith(CC + "masm::") and "MacroAssembler" in p and p not in eb:
                reach = cg.reachable_from([p], stop=lambda x: x.startswith("dora_asm::"))
                if (reach & asm_insn) and not (reach & call_insn):
                    emitters.add(p)
        r.anchor("emit_bailouts: trap call", traps)
        if traps:
            pads = [x for x in B.calls if x.name in emitters]
            rets = set(B.exits())
            t = traps[0]
            # `if bailouts.len() > 0 { pad }` after `for b in &bailouts { trap }`: the empty edge is infeasible
            # once a trap was emitted — recognised only when the guard tests the length/emptiness of the very
            # collection the trap loop iterates over
            from rules.c04 import base_local
            defs = cfg.simple_defs(B)
            loop_src = set()
            for x in B.calls:
                if x.name and (x.name.endswith("::iter") or x.name.endswith("into_iter")) and x.args:
                    loop_src.add(base_local(B, x.args[0], defs))
            infeasible = set()
            for sb in range(B.n):
                tt = B.blocks[sb]["t"]
                if tt[0] != "switch" or tt[1][0] not in ("c", "m"):
                    continue
                o = cfg.origin(B, tt[1], defs)
                lencall = None
                empty_edge = None
                if o[0] == "bin" and o[1] in ("Gt", "Ne"):
                    a, b = o[2], o[3]
                    if b[0] == "k" and b[1].get("v") == 0 and a[0] in ("c", "m"):
                        oa = cfg.origin(B, a, defs)
                        if oa[0] == "call" and last(cfg.callee_name(cfg.callee_of(oa[1]["f"])) or "") == "len":
                            lencall = oa[1]
                            empty_edge = dict((v, bb) for v, bb in tt[2]).get(0)
                elif o[0] == "call" and last(cfg.callee_name(cfg.callee_of(o[1]["f"])) or "") == "is_empty":
                    lencall = o[1]
                    empty_edge = tt[3]
                if lencall is not None and empty_edge is not None and lencall["a"]:
                    if base_local(B, lencall["a"][0], defs) in loop_src:
                        infeasible.add(empty_edge)
            leak = B.reachable_from_succ(t.block, avoid={x.block for x in pads} | infeasible) & rets
            r.instance("emit_bailouts:instruction-after-last-trap", sample={"pads": [last(x.name) for x in pads]})
            if leak:
                r.violation(eb[0] + ":trap-call-can-end-the-code-object",
                            "after the last bailout stub no further instruction is emitted on some path: when the "
                            "code size is a multiple of the alignment (and no constants follow) the trap's return "
                            "address equals the end of the function — its position record lies outside the function "
                            "and resolves to the next code object (wrong first stack-trace frame)", B.file)
    D = F.dora()
    for f, pad in (("pkgs/boots/codegen/x64.dora", ("self.asm.nop", "self.asm.int3")),
                   ("pkgs/boots/codegen/arm64.dora", ("self.asm.brk", "self.asm.nop"))):
        t = D.get(f)
        if t is None:
            continue
        fin = [x for x in doraq.functions(t, f) if x.name == "finalize" and x.body is not None]
        if not r.anchor(f + " finalize", fin):
            continue
        cs = [c for c in direct_calls_in_block(fin[0].body)]
        idx_d = [i for i, c in enumerate(cs) if c.callee == "self.emit_deferred_code"]
        idx_p = [i for i, c in enumerate(cs) if c.callee in pad]
        r.instance("%s:finalize:pad-after-deferred-code" % f, sample={"calls": [c.callee for c in cs][:8]})
        if not idx_d or not idx_p or not any(i > idx_d[0] for i in idx_p):
            r.violation("%s::finalize:no-instruction-after-deferred-code" % f,
                        "finalize() emits the deferred trap stubs but no unconditional padding instruction after them",
                        fin[0].where())


def rule_r6(chk, F, rid="C10.R6"):
    r = chk.rule(rid, "the baseline stack map records a slot only for a register that has frame storage: a register "
                      "offset is pushed into the gc-point slot lists only under a zero-size test, and the per-type "
                      "recorder (add_ref_fields) records a slot at the value's own offset only for types whose size "
                      "is never zero")
    c = F.crate("dora_cannon_compiler")
    dc = F.crate("dora_compiler")
    cg = CallGraph(F, libs=["dora_cannon_compiler", "dora_compiler"], bins=[])
    # slot lists = the CannonCodeGen fields whose clones are handed to GcPoint::new
    slot_fields = set()
    for pth, mb in c.mir.items():
        if "CannonCodeGen" not in pth:
            continue
        B = cfg.Body(mb)
        defs = None
        for x in B.calls:
            if x.name and x.name.endswith("GcPoint::new"):
                defs = defs or cfg.simple_defs(B)
                for a in x.args:
                    o = cfg.origin(B, a, defs) if a[0] in ("c", "m") else None
                    if o and o[0] == "call" and o[1]["a"]:
                        oo = cfg.origin(B, o[1]["a"][0], defs)
                        if oo[0] == "param" and oo[1] == 1:
                            slot_fields |= {q for q in oo[2] if q.startswith(".")}
    if not r.anchor("CannonCodeGen slot lists handed to GcPoint::new", sorted(slot_fields)):
        return
    # storage predicates: bool functions that (transitively) consult argument_passing_mode / AotLayout::size
    size_fns = {q for q in cg.bodies if q.endswith("layout::AotLayout::<'a>::size") or last(q) == "argument_passing_mode"}
    r.anchor("AotLayout::size / argument_passing_mode", sorted(size_fns))

    def is_storage_pred(name):
        b = cg.body(name)
        if b is None or b.local_ty(0) != "bool":
            return False
        return bool(cg.reachable_from([name]) & size_fns)

    npush = ndeleg = 0
    for pth, mb in sorted(c.mir.items()):
        if "CannonCodeGen" not in pth:
            continue
        B = cfg.Body(mb)
        defs = None
        for x in B.calls:
            if not x.name or not x.args:
                continue
            defs = defs or cfg.simple_defs(B)
            o0 = cfg.origin(B, x.args[0], defs) if x.args[0][0] in ("c", "m") else None
            on_slot = bool(o0 and o0[0] == "param" and o0[1] == 1 and (set(o0[2]) & slot_fields))
            if not on_slot:
                # &mut self.<slot list> passed as a later argument = delegation to a per-type recorder
                for a in x.args[1:]:
                    oa = cfg.origin(B, a, defs) if a[0] in ("c", "m") else None
                    if oa and oa[0] == "param" and oa[1] == 1 and (set(oa[2]) & slot_fields) and "&" in oa[2]:
                        ndeleg += 1
                        r.instance("%s:delegates-to:%s" % (pth, last(x.name)), sample={"callee": x.name})
                continue
            if last(x.name) != "push":
                continue
            npush += 1
            key = "%s:push(%s)" % (pth, ",".join(sorted(set(o0[2]) & slot_fields)))
            guards = []
            for sb in range(B.n):
                t = B.blocks[sb]["t"]
                if t[0] != "switch" or t[1][0] not in ("c", "m") or not B.dominates(sb, x.block) or sb == x.block:
                    continue
                o = cfg.origin(B, t[1], defs)
                neg = False
                if o[0] == "un" and o[1] == "Not":
                    neg = True
                    o = cfg.origin(B, o[2], defs)
                if o[0] != "call":
                    continue
                nm = cfg.callee_name(cfg.callee_of(o[1]["f"])) or ""
                if not is_storage_pred(nm):
                    continue
                # which edge of the switch leads to the push?
                edges = [v for (v, tb) in t[2] if tb == x.block or x.block in B.reachable(tb, avoid={sb})]
                other = t[3] == x.block or x.block in B.reachable(t[3], avoid={sb})
                if len(edges) + (1 if other else 0) != 1:
                    continue
                truth = (other or edges == [1]) != neg
                guards.append((last(nm), truth))
            ok = False
            for nm, truth in guards:
                zeroish = any(w in nm for w in ("zero", "empty", "unit")) and not nm.startswith(("non", "not_"))
                if zeroish and not truth:
                    ok = True
                elif not zeroish:
                    ok = True   # unknown polarity: existence only
                    r.observe("%s: storage predicate `%s` of unknown polarity accepted" % (key, nm))
            r.instance(key, sample={"guards": guards})
            if not ok:
                r.violation(key + ":recorded-without-storage-test",
                            "a register's frame offset is recorded in the stack map without a dominating zero-size "
                            "test: a register whose type has no storage (e.g. `ref mut ()`) shares the offset of its "
                            "neighbour (or fp+0), so every stack map of such a function names a slot pair that is "
                            "not this register — the collector reads a return address / another value as a pointer",
                            "%s:%d" % (B.file, x.line))
    r.floor("direct slot pushes in CannonCodeGen", npush, 1)
    r.floor("delegations to the per-type recorder", ndeleg, 1)
    # per-type recorder vs. size table
    hs = [h for q, h in dc.hir.items() if q.endswith("layout::AotLayout::<'a>::size")]
    ha = [h for q, h in dc.hir.items() if q.endswith("layout::AotLayout::<'a>::add_ref_fields")]
    if not (r.anchor("HIR of AotLayout::size", hs) and r.anchor("HIR of AotLayout::add_ref_fields", ha)):
        return

    def top_match(h):
        for n in hirq.walk(h["body"]):
            if n[0] == "match":
                return n
        return None
    ms, ma = top_match(hs[0]), top_match(ha[0])
    if not (r.anchor("size: match over BytecodeType", ms) and r.anchor("add_ref_fields: match", ma)):
        return

    def zero_kind(body):
        b = hirq.strip(body)
        if hirq.is_node(b) and b[0] == "lit" and b[1] == "int":
            return "zero" if b[2] == 0 else "nonzero"
        lits = [n for n in hirq.walk(body) if n[0] == "lit" and n[1] == "int" and n[2] == 0]
        conds = [n for n in hirq.walk(body) if n[0] in ("if", "match")]
        # a literal 0 in *result* position of a conditional arm
        if conds:
            for n in conds:
                branches = [n[2], n[3]] if n[0] == "if" else [a[2] for a in n[2]]
                for br in branches:
                    bb = hirq.strip(br) if br is not None else None
                    if hirq.is_node(bb) and bb[0] == "lit" and bb[1] == "int" and bb[2] == 0:
                        return "maybe-zero"
            return "derived"
        return "derived" if not lits else "derived"
    size_kind = {}
    for (pat, g, body) in hirq.match_arms(ms):
        for d in hirq.pat_paths(pat):
            size_kind[last(d)] = "panic" if hirq.is_panic_body(body) else zero_kind(body)
    params = [pp[0] for pp in ha[0]["params"]]
    # the offset parameter: the integer parameter of add_ref_fields
    off_names = {hirq.local_name(["local", pp[0][1]]) if False else pp[0][1] for pp in ha[0]["params"]
                 if hirq.is_node(pp[0]) and pp[0][0] == "pbind" and pp[1] in ("i32", "i64", "isize")}
    rec_kind = {}
    for (pat, g, body) in hirq.match_arms(ma):
        kind = "none"
        for cs in hirq.calls(body):
            if cs.name == "push" and cs.args:
                a = hirq.strip(cs.args[0])
                if hirq.is_node(a) and a[0] == "local" and a[1] in off_names:
                    kind = "direct"
                elif kind == "none":
                    kind = "layout"
        if hirq.is_panic_body(body):
            kind = "panic"
        for d in hirq.pat_paths(pat):
            rec_kind[last(d)] = kind
    r.floor("BytecodeType variants in the size table", len(size_kind), 15)
    r.floor("BytecodeType variants in the recorder", len(rec_kind), 15)
    for v in sorted(rec_kind):
        sk, rk = size_kind.get(v), rec_kind[v]
        r.instance("add_ref_fields:%s" % v, sample={"size": sk, "recorder": rk})
        if rk == "direct" and sk in ("zero", "maybe-zero", None):
            r.violation("dora_compiler::layout::AotLayout::add_ref_fields:%s:slot-recorded-for-possibly-unsized-value" % v,
                        "add_ref_fields records a reference slot at the value's own offset for BytecodeType::%s, but "
                        "AotLayout::size can return 0 for that type (%s): a register of that type has no storage and "
                        "the recorded slot belongs to a neighbour" % (v, sk), ha[0]["file"])


def direct_calls_in_block(block):
    out = []
    for st in doraq.nodes(block):
        out += direct_calls(st)
    out.sort(key=lambda c: c.line)
    return out


def run(chk, F):
    exempt = rule_r1(chk, F) or {}
    rule_r1b(chk, F)
    rule_r2(chk, F, exempt)
    try:
        from rules import c10_metadata
    except ImportError:
        c10_metadata = None
    if c10_metadata is not None:
        c10_metadata.run_metadata(chk, F, rid="C10.R3")
    rule_r4(chk, F)
    rule_r5(chk, F)
    rule_r8(chk, F)
    rule_r6(chk, F)
    chk.assumptions += [
        "decides the pairing call → stack map (and the record layouts); that a map names exactly the live "
        "reference slots is value-level liveness and is not decided; disjointness of code ranges is a link-time fact",
        "masm/arm64.rs (cfg(aarch64)) is not analysed on this host",
    ]
    from rules import a64; a64.run_c10(chk, F)  # noqa: E702  arm64 siblings (aarch64 fact set)


def rule_r8(chk, F, rid="C10.R8"):
    """Generalises R5 from the bailout stubs to the whole finalisation of a code object.  A call to a runtime function
    whose native target never returns (trap, stack overflow — derived as in R1) leaves a return address that is only
    ever used to *look up* the frame (stack trace, stack map).  If such a call is the last instruction of the code
    object the address equals the start of the next one.  May-analysis over MIR: per function the set of possible 'last
    code-affecting emission' kinds {trap-call, other, nothing}, composed through calls (a callee that may emit nothing
    keeps the caller's state), to a fixpoint; the function that hands out the finished code must not be able to end
    with a trap call."""
    r = chk.rule(rid, "no code object can end with a call that never returns: on every path through the baseline "
                      "compiler's finalisation (slow paths, bailout stubs) the last emitted instruction is not a "
                      "trap/stack-overflow call (its return address would be the first byte of the next function)")
    cg = CallGraph(F, libs=["dora_cannon_compiler", "dora_asm", "dora_runtime", "dora_compiler"], bins=[])
    targets, _sym, _tramp = runtime_function_targets(F)
    div = diverging(cg, [])
    div_variants = {v for v, native in targets.items() if native is not None and native in div}
    if not r.anchor("runtime functions whose native target never returns", div_variants):
        return
    # assembler methods that append bytes: those that reach the buffer's emit primitives (position()/label
    # bookkeeping does not count)
    prims = {p for p in cg.bodies if p.startswith("dora_asm::") and last(p) in
             ("emit_u8", "emit_u16", "emit_u32", "emit_u64", "emit_byte", "emit_int32")}
    if not r.anchor("assembler buffer primitives (emit_u8/emit_u32/…)", prims):
        return
    asm_insn = set()
    for p in cg.bodies:
        if p.startswith("dora_asm::x64::AssemblerX64::") and last(p) not in ("resolve_jumps", "bind_label",
                                                                               "finalize", "code"):
            if p in prims or (cg.reachable_from([p]) & prims):
                asm_insn.add(p)
    # functions of the compiler that (transitively) emit machine code
    emits_code = set()
    for p in cg.bodies:
        if p.startswith(CC):
            if cg.reachable_from([p], stop=lambda x: x.startswith("dora_asm::")) & asm_insn:
                emits_code.add(p)
    RCRF = [p for p in cg.bodies if p.endswith("MacroAssembler>::raw_call_runtime_function") or
            p.endswith("::raw_call_runtime_function")]
    if not r.anchor("MacroAssembler::raw_call_runtime_function", RCRF):
        return
    summary = {}            # path -> frozenset of {"trap","other","nothing"}
    bodies = {}

    def body(p):
        if p not in bodies:
            bodies[p] = cg.body(p)
        return bodies[p]

    def call_effect(B, x, defs):
        """→ set of kinds the call may leave as last emission ('nothing' = keeps the state)"""
        nm = x.name
        if nm in RCRF:
            variant = None
            for a in x.args:
                o = cfg.origin(B, a, defs)
                if o[0] == "agg" and o[1][0] == "adt" and o[1][1].endswith("RuntimeFunction"):
                    variant = o[1][2]
            if variant is None:
                return {"trap", "other"}                      # unknown runtime function: may be a diverging one
            return {"trap"} if variant in div_variants else {"other"}
        if nm is None:
            # unresolved (closure parameter, dyn): targets through the call graph
            tg = [t for (t, _k) in cg.targets(x.fn)] if x.fn else []
            out = set()
            for t in tg:
                if t in emits_code:
                    out |= summary.get(t, {"other", "nothing"})
            return out or {"nothing"}
        if nm.startswith("dora_asm::"):
            return {"other"} if nm in asm_insn else {"nothing"}
        if nm in emits_code:
            return set(summary.get(nm, {"nothing"}))
        return {"nothing"}

    def analyse(p):
        B = body(p)
        defs = cfg.simple_defs(B)
        from rules.c04 import base_local
        # emptiness guards of a collection iterated in this function: once a trap was emitted *in the loop*, the
        # collection is not empty, so the guard's empty edge is infeasible for the trap state
        loop_src = set()
        for x in B.calls:
            if x.name and (x.name.endswith("::iter") or x.name.endswith("into_iter")) and x.args:
                loop_src.add(base_local(B, x.args[0], defs))
        drop_trap = set()
        for sb in range(B.n):
            tt = B.blocks[sb]["t"]
            if tt[0] != "switch" or tt[1][0] not in ("c", "m"):
                continue
            o = cfg.origin(B, tt[1], defs)
            lencall, empty_edge = None, None
            if o[0] == "bin" and o[1] in ("Gt", "Ne"):
                a, b = o[2], o[3]
                if b[0] == "k" and b[1].get("v") == 0 and a[0] in ("c", "m"):
                    oa = cfg.origin(B, a, defs)
                    if oa[0] == "call" and last(cfg.callee_name(cfg.callee_of(oa[1]["f"])) or "") == "len":
                        lencall = oa[1]
                        empty_edge = dict((v, bb) for v, bb in tt[2]).get(0)
            elif o[0] == "call" and last(cfg.callee_name(cfg.callee_of(o[1]["f"])) or "") == "is_empty":
                lencall, empty_edge = o[1], tt[3]
            if lencall is not None and empty_edge is not None and lencall["a"] and \
                    base_local(B, lencall["a"][0], defs) in loop_src:
                drop_trap.add((sb, empty_edge))
        calls_at = {x.block: x for x in B.calls}
        state = {0: {"nothing"}}
        work = [0]
        while work:
            b = work.pop()
            st = set(state[b])
            x = calls_at.get(b)
            if x is not None:
                eff = call_effect(B, x, defs)
                new = set()
                for e in eff:
                    if e == "nothing":
                        new |= st
                    else:
                        new.add(e)
                st = new
            for s in B.succ[b]:
                if B.blocks[s]["c"]:
                    continue
                out = st - {"trap"} if (b, s) in drop_trap else st
                if not out <= state.get(s, set()):
                    state[s] = state.get(s, set()) | out
                    work.append(s)
            state.setdefault(("out", b), set()).update(st)
        res = set()
        for e in B.exits():
            res |= state.get(("out", e), set())
        return frozenset(res or {"nothing"})

    order = sorted(emits_code)
    for _round in range(8):
        changed = False
        for p in order:
            if p.startswith(CC + "masm::") and "MacroAssembler" in p and p in RCRF:
                continue
            try:
                s = analyse(p)
            except Exception:                                   # noqa: BLE001
                s = frozenset({"trap", "other", "nothing"})
            if summary.get(p) != s:
                summary[p] = s
                changed = True
        if not changed:
            break
    enders = sorted(p for p, s in summary.items() if "trap" in s)
    r.observe("functions that may end with a never-returning call: %s" % [last(p) for p in enders][:12])
    r.floor("functions whose last emission can be a never-returning call (slow-path and trap emitters)", len(enders), 3)
    # the finishers: functions that construct the finished code object (return a CodeDescriptor) after emitting
    fin = [p for p in emits_code if p.startswith(CC + "asm::BaselineAssembler") and last(p) in ("code",)]
    fin += [p for p in emits_code if p.startswith(CC + "masm::MacroAssembler") and last(p) == "code"]
    if not r.anchor("code-object finishers (BaselineAssembler::code / MacroAssembler::code)", fin):
        return
    for p in sorted(set(fin)):
        s = summary.get(p, frozenset())
        r.instance("%s:last-emission" % p, sample={"finisher": last(p), "may_end_with": sorted(s)})
        if "trap" in s:
            B = body(p)
            r.violation("%s:can-end-with-a-never-returning-call" % p,
                        "on some path the last instruction %s emits is a call to a runtime function that never returns "
                        "(trap / stack overflow): when no padding follows, its return address is the first byte of the "
                        "next code object — the frame of a failing assert (or another trap) is attributed to the "
                        "neighbouring function in the stack trace, and a stack-map lookup would hit the wrong "
                        "function" % last(p), B.file)

"""C02.R17 — machine-mode arm vs instruction width in both macro assemblers.

The baseline compiler's MacroAssembler methods take a `MachineMode` and dispatch on it (`match mode { Int32 => …,
Int64 => … }`, 80 arms on x64, 157 on arm64).  Inside an arm that is taken for one operand width only, an instruction
that exists in the assembler in both a 32-bit and a 64-bit form must be used in the form of the arm's width — the
`cbz`/`cbz_w` swap in arm64 `divmod_common` (a 64-bit divisor tested for zero on its low word) is the bug class.

Which instructions are width-significant is derived: an assembler method counts only if its sibling of the other width
exists in the same assembler (`cmp`/`cmp_w`, `addl_rr`/`addq_rr`).  Forms whose destination width is the *result* type
rather than the operation type (conditional set/select) and mixed-width extended-register forms are exempt by one-line
reasons.
"""
import re

import hirq

# destination width = result type, not the operation type (a comparison of two Int64 yields a 32-bit Bool/Ordering)
RESULT_TYPED = {"cset", "csel", "csinc", "csinv", "setcc"}


def last(p):
    return p.rsplit("::", 1)[-1]


def strip(e):
    while isinstance(e, list) and e and e[0] == "addr":
        e = e[2]
    return e


def x64_width(name, names):
    m = re.match(r"^((?:lock_)?[a-z0-9]+?)([lq])(_[a-z0-9_]+)?$", name)
    if not m:
        return None
    other = m.group(1) + ("q" if m.group(2) == "l" else "l") + (m.group(3) or "")
    if other not in names:
        return None
    return 32 if m.group(2) == "l" else 64


def a64_width(name, names):
    if name.endswith("_w"):
        return 32 if name[:-2] in names else None
    return 64 if name + "_w" in names else None


def base_of(name):
    n = name[:-2] if name.endswith("_w") else name
    return n.split("_")[0]


MODE_WIDTH = {"Int32": 32, "Int64": 64, "Ptr": 64, "IntPtr": 64}


def run(chk, F):
    r = chk.rule("C02.R17", "in every MacroAssembler method that dispatches on its MachineMode, an arm taken for one "
                            "operand width only uses the matching form of every instruction the assembler offers in "
                            "both a 32-bit and a 64-bit form (both targets)")
    total_arms = 0
    for tag, facts, mod, prefix, wf in (
            ("x64", F, "masm::x64", "dora_asm::x64::AssemblerX64::", x64_width),
            ("arm64", None, "masm::arm64", "dora_asm::arm64::AssemblerArm64::", a64_width)):
        try:
            fs = facts if facts is not None else F.a64()
            cc = fs.crate("dora_cannon_compiler")
            asm = fs.crate("dora_asm")
        except Exception as e:                                   # noqa: BLE001
            r.observe("%s facts unavailable: %s" % (tag, e))
            continue
        names = {last(p) for p in asm.hir if p.startswith(prefix)}
        if not r.anchor("%s assembler methods" % tag, len(names) > 100):
            continue
        arms = 0
        sized = 0
        for p, b in sorted(cc.hir.items()):
            if mod not in p:
                continue
            mode_params = {pat[1] for (pat, ty) in b["params"] if pat[0] == "pbind" and ty.endswith("MachineMode")}
            if not mode_params:
                continue
            for n in hirq.walk(b["body"]):
                if n[0] != "match":
                    continue
                sc = strip(n[1])
                if not (sc[0] == "local" and sc[1] in mode_params):
                    continue
                for pat, guard, body in n[2]:
                    modes = {last(m[1][2]) for m in hirq.walk(pat) if m[0] == "ppath" and "MachineMode::" in m[1][2]}
                    ws = {MODE_WIDTH[m] for m in modes if m in MODE_WIDTH}
                    if not modes or len(ws) != 1 or (modes - set(MODE_WIDTH)):
                        continue
                    want = ws.pop()
                    arms += 1
                    # nested dispatches on the same mode re-decide the width: only this arm's own instructions
                    inner = {id(x) for m2 in hirq.walk(body) if m2[0] == "match" and m2 is not n and
                             strip(m2[1]) == sc for x in hirq.walk(m2)}
                    for c in hirq.walk(body):
                        if id(c) in inner or c[0] != "mcall" or not c[2] or not c[2].startswith(prefix):
                            continue
                        w = wf(c[3], names)
                        if w is None or base_of(c[3]) in RESULT_TYPED or "_ext" in c[3]:
                            continue
                        sized += 1
                        key = "%s:%s:%s:%s" % (tag, p, "|".join(sorted(modes)), c[3])
                        r.instance(key, sample={"target": tag, "method": last(p), "arm": sorted(modes),
                                                "instruction": c[3], "width": w})
                        if w != want:
                            r.violation("%s:%s:%s:%s:width-%d-in-%d-bit-arm" % (p, "|".join(sorted(modes)), c[3], tag,
                                                                                 w, want),
                                        "%s (%s): the arm taken for %s only uses the %d-bit form %s — the operation is "
                                        "carried out on %s of its operand (a 64-bit value is tested/combined on its "
                                        "low word, or a 32-bit value together with whatever its upper half holds)"
                                        % (last(p), tag, "/".join(sorted(modes)), w, c[3],
                                           "half" if w < want else "twice the width"),
                                        "%s:%d" % (b["file"], c[1]))
            # `if mode.is64() { … } else { … }`: the predicate's truth table is read from MachineMode::is64 itself by
            # C02.R15; here only the shape matters: 64-bit forms in the true branch, none in the false branch
            for n in hirq.walk(b["body"]):
                if n[0] != "if" or n[1][0] == "letx":
                    continue
                cond = strip(n[1])
                neg = False
                if cond[0] == "un" and cond[1] == "Not":
                    cond, neg = strip(cond[2]), True
                if not (cond[0] == "mcall" and cond[3] == "is64" and strip(cond[4])[0] == "local"
                        and strip(cond[4])[1] in mode_params):
                    continue
                for branch, is64 in ((n[2], not neg), (n[3], neg)):
                    if branch is None:
                        continue
                    arms += 1
                    inner = {id(x) for m2 in hirq.walk(branch) if m2[0] in ("match", "if") and m2 is not n and
                             any(y[0] == "local" and y[1] in mode_params for y in hirq.walk(m2[1]))
                             for x in hirq.walk(m2)}
                    for c in hirq.walk(branch):
                        if id(c) in inner or c[0] != "mcall" or not c[2] or not c[2].startswith(prefix):
                            continue
                        w = wf(c[3], names)
                        if w is None or base_of(c[3]) in RESULT_TYPED or "_ext" in c[3]:
                            continue
                        sized += 1
                        r.instance("%s:%s:is64=%s:%s" % (tag, p, is64, c[3]),
                                   sample={"target": tag, "method": last(p), "arm": "is64()=%s" % is64,
                                           "instruction": c[3], "width": w})
                        if (w == 64) != is64:
                            r.violation("%s:is64=%s:%s:%s:width-%d" % (p, is64, c[3], tag, w),
                                        "%s (%s): the branch taken when mode.is64() is %s uses the %d-bit form %s"
                                        % (last(p), tag, str(is64).lower(), w, c[3]), "%s:%d" % (b["file"], c[1]))
        total_arms += arms
        r.floor("%s single-width mode arms" % tag, arms, 90 if tag == "x64" else 80)
        r.floor("%s width-significant instructions inside them" % tag, sized, 85 if tag == "x64" else 90)

"""C01 (partial): "operands and arguments are evaluated left to right exactly once", decided on the shape of the
AST→bytecode generator.

The generator emits the code of a child by calling a sink (expression dispatcher, statement dispatcher, pattern
destructor) on the child's id; the order and multiplicity of those calls on each path through a handler is the
order and multiplicity in which the children's code appears in the bytecode of the node.

  C01.R0  roles (node enums, dispatchers, destructors, lookups) located by shape
  C01.R1  exactly once: on every non-panicking path through the handler of a variant, every id-carrying position of
          the payload is generated exactly once (one call / one forward loop over the list), or not at all only
          where the path itself establishes that there is nothing to evaluate
  C01.R2  left to right: on every path the positions are generated in source order; list loops run forward
  C01.R4  (source order) the declaration order of the payload fields, which R2 uses as source order, agrees with the
          child positions the lowering reads them from
  C01.R5  (argument placement, c01_place.py) a constructor handler consults the field index the checker recorded for
          each argument, so that named arguments written out of declaration order initialise their own fields
  (the optional rule about the optimizing compiler's graph builder, pkgs/boots/bytecode_graph_builder.dora, is not
   built: its handlers append several instructions per bytecode instruction — checks, address computations, loads,
   stores — and which of them are effectful is not derivable from the Dora syntax tree without a frozen table)

See c01_sym.py for the path enumeration and its bounds."""
import sys

import facts as factsmod
import hirq

from rules import c01_sym as S
from rules.c01_sym import Single, ListItem, accstr, pathstr, Unint
from rules.c01_roles import Roles
from rules import c01_place
from rules import c01_loopctx

# ---------------------------------------------------------------------------------------------------------------------
# Expected order where it differs from declaration order (frozen; one reason each):
#   a pattern binds the value of the expression it is matched against, so its destructuring code is emitted after
#   that expression although the pattern is written (and declared) before it.
ORDER_OVERRIDE = {
    # `for PATTERN in EXPR BLOCK`: EXPR is evaluated once, the pattern binds each element, then the block runs
    "Expr::For": ["expr", "pattern", "block"],
    # `let PATTERN = EXPR else ELSE`: EXPR is evaluated, then destructured, the else block runs on mismatch
    "Stmt::Let": ["expr", "pattern", "else_expr"],
}

# Positions that a handler may leave ungenerated on a path, and the condition the path must have established
# (frozen; one reason each).  cond = (enum path suffix, allowed variants): some value on the path was matched
# against that enum and restricted to a subset of the allowed variants.
ZERO_OK = [
    # the callee of a call names a function / type, it is not a value, when the call was resolved to one of these
    ("Expr::Call", "callee", ("CallType", {"Fct", "GenericStaticMethod", "NewEnum", "NewStruct", "NewClass"}),
     "callee names a definition (function, static trait method, constructor), nothing to evaluate"),
    # intrinsic *functions* (not methods): assert(x), Array::zero(n)/Array::new(..): callee is a function path
    ("Expr::Call", "callee", ("Intrinsic", {"Assert", "ArrayNewOfSize", "ArrayWithValues"}),
     "callee names an intrinsic function, nothing to evaluate"),
    # a lambda expression allocates the closure object; parameters and body are compiled as a separate function
    ("Expr::Lambda", "params", None, "lambda parameters belong to the separately generated lambda function"),
    ("Expr::Lambda", "block", None, "the lambda body is generated as a separate function, not at the creation site"),
    # jump-table match on ints / simple enums: arm patterns are literals, variant names or `_`, folded into the table
    ("Expr::Match", "arms[*].pattern", ("SourceType", {"Enum", "UInt8", "Int32", "Int64"}),
     "patterns of a jump-table match bind nothing and are folded into the dispatch table"),
    # `let p = e else { .. }`: with an irrefutable pattern (destructor returns no mismatch label) the else block is dead
    ("Stmt::Let", "else_expr", ("result", "none"),
     "irrefutable pattern: the destructor reported no mismatch label, the else block can never run"),
    # `for p in it` over unit elements: the loop variable has no value (the handler tests `.is_unit()` on the value type)
    ("Expr::For", "pattern", ("call", "is_unit"), "elements of unit type: there is no value to destructure"),
    # `let p;` without initialiser: nothing to destructure, nothing can mismatch
    ("Stmt::Let", "pattern", ("absent", "expr"), "declaration without initialiser: no value to destructure"),
    ("Stmt::Let", "else_expr", ("absent", "expr"), "declaration without initialiser: nothing can mismatch"),
]

# Positions whose multiplicity is not decided when they are reached through a computed index inside a loop over
# computed candidates (frozen; reason):
DYN_UNDECIDED = {
    # guards of a jump-table match are emitted once per dispatch group that contains the arm; the groups are
    # mutually exclusive at run time (label flow), which this analysis does not model
    ("Expr::Match", "arms[*].cond"): "guards are duplicated into mutually exclusive dispatch groups of the jump table",
}


def run(chk, F):
    c = F.crate("dora_frontend")
    r0 = chk.rule("C01.R0", "node enums, dispatchers, pattern destructors and node lookups of the generator are "
                            "located by shape")
    R = Roles(r0, c)
    if not R.ok:
        return
    r0.instance("roles", sample={"expr_dispatch": R.expr_dispatch, "stmt_dispatch": R.stmt_dispatch,
                                 "pattern_sinks": sorted(R.pattern_sinks), "lookups": sorted(R.lookups),
                                 "enums": [R.E, R.S, R.P]})
    try:
        A = Analysis(c, R)
        A.run()
    except Unint as e:
        raise factsmod.AnalysisError("C01", "cannot interpret: %s" % e)
    for tag, why in sorted(A.unint.items()):
        # a handler the path enumeration cannot interpret is an analysis failure for that handler (fail closed)
        r0.violation("ANALYSIS:%s:%s:uninterpretable" % (A.handlers.get(tag, R.expr_dispatch), tag),
                     "the handler of %s cannot be interpreted (%s): nothing is decided for its payload positions"
                     % (tag, why))
    rules_r1_r2(chk, A, R)
    rule_r4(chk, F, c, R, A)
    c01_place.rule_r5(chk, c, R, A)
    c01_loopctx.run(chk, F)
    chk.assumptions += [
        "partial claim: decides, on the generator's own code, how often and in which order the code of the children of "
        "each expression/statement node is emitted; what the emitted instructions compute, traps, value/reference "
        "semantics and the run-time order across label flow are not decided",
        "recursion of one generator function and pointer-chasing loops are unrolled (%d re-entries, %d iterations); "
        "deeper nesting (parenthesised operands, field chains, && chains) relies on the uniformity of the recursive "
        "code" % (S.K_REC, S.K_LOOP),
        "list arity (`args[0]` without a length test, `.take(n)` with a computed n) is established by the type checker, "
        "not by the generator; such accesses are decided for order and multiplicity of the elements they visit only",
    ]


# ---------------------------------------------------------------------------------------------------------------------
class Analysis:
    def __init__(self, c, R):
        self.c, self.R = c, R
        self.model = S.Model(c, R.kinds, R.scope)
        self.interp = S.Interp(self.model, R.module + "::", R.sinks, R.lookups,
                               # the bytecode builder knows nothing about the tree; the module of the pattern
                               # destructors walks *pattern* nodes (which carry no expressions): its functions are
                               # sinks or inspections, never inlined
                               no_inline_prefixes=(R.module + "::bytecode::",) + tuple(
                                   sorted(set(p.rsplit("::", 1)[0] + "::" for p in R.pattern_sinks))))
        enums = set(c[0] for (_t, _s, c, _r) in ZERO_OK if c and c[0] not in ("result", "absent", "call"))
        calls = set(c[1] for (_t, _s, c, _r) in ZERO_OK if c and c[0] == "call")

        def protected(k, v):
            if k[0] == "enumval" and v[0] == "in":
                return v[1].rsplit("::", 1)[0].rsplit("::", 1)[-1] in enums
            if k[0] == "opt" and k[1][0] == "ad":
                return k[1][1].startswith("result of")
            if k[0] == "boolval" and k[1][0] == "sym" and isinstance(k[1][1], tuple) and len(k[1][1]) == 2:
                return k[1][1][1] in calls
            return False
        self.interp.protected = protected
        # checker records consulted by constructor handlers (C01.R5)
        self.record_pairs = c01_place.record_pairs(c, R)
        self.interp.record_inspections = set(g for (_i, g) in self.record_pairs.values())
        self.paths = {}         # variant tag -> [State]
        self.handlers = {}      # variant tag -> handler fn

    def run(self):
        import gc
        gc.disable()        # millions of small immutable tuples, no cycles: the collector only costs time here
        try:
            self._run()
        finally:
            gc.enable()

    def _run(self):
        R = self.R
        sys.setrecursionlimit(max(sys.getrecursionlimit(), 6000))
        self.unint = {}         # variant tag -> why the handler could not be interpreted
        for (fn, argi, enum) in ((R.expr_dispatch, R.expr_arg, R.E), (R.stmt_dispatch, R.stmt_arg, R.S)):
            b = self.c.hir[fn]
            name = b["params"][argi][0][1]
            arms = arm_handlers(b["body"], enum)
            for v in R.adts[enum]["variants"]:
                tag = "%s::%s" % (self.model.short(enum), v["name"])
                if tag in arms:
                    self.handlers[tag] = arms[tag]
                try:
                    finals = self.interp.run_root(fn, {name: ("node", ())}, assume={("var", ()): ("is", tag)})
                except Unint as e:
                    self.unint[tag] = str(e)
                    continue
                except RecursionError:
                    self.unint[tag] = "nesting too deep for the interpreter"
                    continue
                for st in finals:
                    self.paths.setdefault(tag, []).append(st)
                    if st.handler and tag not in self.handlers:
                        self.handlers[tag] = st.handler
        self.place_variants = derive_place_variants(self.c, self.R)


def arm_handlers(body, enum):
    """dispatcher arms: variant tag -> the function the arm forwards to"""
    out = {}
    short = enum.rsplit("::", 1)[-1]
    for n in hirq.walk(body):
        if n[0] != "match":
            continue
        for (pat, _g, arm) in n[2]:
            ds = [d for d in hirq.pat_paths(pat) if d.rsplit("::", 1)[0] == enum]
            cs = [c for c in hirq.calls(arm) if c.callee]
            if len(ds) == 1 and cs:
                out.setdefault("%s::%s" % (short, hirq.last(ds[0])), cs[0].callee)
    return out


def derive_place_variants(c, R):
    """A checker function outside the generator that receives the payload struct of a variant V, looks up the node
    in payload field F, dispatches on its variant and reports a diagnostic for every variant it does not name,
    makes generator paths that assume another variant at V.F infeasible for checked programs.
    → ({(variant tag, field): set of accepted child tags}, {key: function})"""
    E = R.E
    short = E.rsplit("::", 1)[-1]
    payload = {}                                   # payload struct path -> variant tag
    for v in R.adts[E]["variants"]:
        if len(v["fields"]) == 1 and v["fields"][0]["ty"] in R.adts:
            payload[v["fields"][0]["ty"]] = "%s::%s" % (short, v["name"])
    lookup_names = set(hirq.last(p) for p in R.lookups)
    out, where = {}, {}
    fns = dict((f["path"], f) for f in c.items["fns"])
    for p, b in c.hir.items():
        if p.startswith(R.module + "::") or p not in fns:
            continue
        mine = [(i, S.strip_ref(t)) for i, t in enumerate(fns[p]["inputs"]) if S.strip_ref(t) in payload]
        if not mine:
            continue
        pnames = {}
        for (i, t) in mine:
            if i < len(b["params"]) and hirq.is_node(b["params"][i][0]) and b["params"][i][0][0] == "pbind":
                pnames[b["params"][i][0][1]] = payload[t]
        # locals bound to lookup(param.F)
        looked = {}
        for n in hirq.walk(b["body"]):
            if n[0] == "let" and hirq.is_node(n[1]) and n[1][0] == "pbind" and n[2] is not None:
                for cs in hirq.calls(n[2]):
                    if cs.name in lookup_names and cs.args:
                        a0 = hirq.strip(cs.args[-1])
                        if hirq.is_node(a0) and a0[0] == "field" and hirq.local_name(a0[1]) in pnames:
                            looked[n[1][1]] = (pnames[hirq.local_name(a0[1])], a0[2])
        for n in hirq.walk(b["body"]):
            if n[0] != "match" or hirq.local_name(n[1]) not in looked:
                continue
            names = set()
            wild_reports = False
            for (pat, _g, body) in n[2]:
                ds = hirq.pat_paths(pat)
                if ds and all(d.rsplit("::", 1)[0] == E for d in ds):
                    names |= set(hirq.last(d) for d in ds)
                elif hirq.pat_is_wild(pat):
                    # `report` is the diagnostics sink of the checker (frozen name: it is what makes the arm an error)
                    wild_reports = any(cs.name == "report" for cs in hirq.calls(body))
            if names and wild_reports:
                key = looked[hirq.local_name(n[1])]
                out[key] = set("%s::%s" % (short, x) for x in names)
                where[key] = p
    return (out, where)


# ---------------------------------------------------------------------------------------------------------------------
class Issue:
    def __init__(self, rule, slot, kind, text, st):
        self.rule, self.slot, self.kind, self.text, self.st = rule, slot, kind, text, st


class Checker:
    """checks the trace of one path against the payload positions of the node's variant"""

    def __init__(self, model, st, tag):
        self.m = model
        self.st = st
        self.cons = st.cons
        self.tag = tag
        self.issues = []
        self.accepted = []       # (slot, class, reason)
        self.assumed = []        # (slot, what)
        self.undecided = []      # (slot, why)
        self.how = {}            # slot -> description

    # ---- helpers
    def enum_of_tag(self, tag):
        short, v = tag.split("::", 1)
        for e in self.m.roots:
            if self.m.short(e) == short:
                return e, v
        raise Unint("variant tag %s" % tag)

    def slotname(self, root_tag, acc):
        # acc starts with (tag, field0): drop the tag and a tuple-variant's "0" wrapper when a struct follows
        parts = list(acc[1:])
        if parts and parts[0] == "0" and len(parts) > 1:
            parts = parts[1:]
        return accstr(tuple(parts))

    def ordered(self, tag, items):
        ov = ORDER_OVERRIDE.get(tag)
        if not ov:
            return items
        def keyf(it):
            n = self.slotname(tag, it.acc)
            return ov.index(n) if n in ov else len(ov)
        return sorted(items, key=keyf)

    def cond_holds(self, cond, tag, P):
        if cond is None:
            return True
        kind, arg = cond
        if kind == "result":
            # a sink result tested for None on this path
            for k, v in self.cons.items():
                if k[0] == "opt" and k[1][0] == "ad" and k[1][1].startswith("result of") and v == arg:
                    return True
            return False
        if kind == "call":
            for k, v in self.cons.items():
                if k[0] == "boolval" and v is True and k[1][0] == "sym" and isinstance(k[1][1], tuple) \
                        and len(k[1][1]) == 2 and k[1][1][1] == arg:
                    return True
            return False
        if kind == "absent":
            for k, v in self.cons.items():
                if k[0] == "none" and k[1] == P and v is True and accstr(k[2]).endswith(arg):
                    return True
            return False
        for k, v in self.cons.items():
            if k[0] == "enumval" and v[0] == "in":
                d = v[1]
                owner = d.rsplit("::", 1)[0]
                if owner.endswith("::" + kind) and hirq.last(d) in arg:
                    return True
        return False

    def zero(self, P, tag, it, ctx_cons=None):
        """position `it` of node P (variant tag) has no events on this path: is that established as harmless?"""
        cons = ctx_cons if ctx_cons is not None else self.cons
        name = self.slotname(tag, it.acc)
        full = "%s.%s" % (tag, name) if not P else "%s → %s.%s" % (pathstr(P), tag, name)
        top = (P + (it.acc,))[0]
        group = "%s.%s" % (self.tag, self.slotname(self.tag, top)) + (
            " (through %s)" % "/".join(sorted(set(a[0].split("::")[1] for a in P))) if P else "")
        if isinstance(it, Single):
            child = P + (it.acc,)
            # optional child that is absent
            for k, v in cons.items():
                if k[0] == "none" and k[1] == P and k[2] == it.acc and v is True:
                    self.how[full] = "absent (None) on this path"
                    return True
            # child whose variant is known and has nothing to evaluate
            v = cons.get(("var", child))
            if v is not None and v[0] == "is":
                enum, vn = self.enum_of_tag(v[1])
                sub = self.m.items(enum, vn)
                if not sub:
                    self.accepted.append((group, "child is %s (no children to evaluate)" % v[1], ""))
                    self.how[full] = "child is %s: nothing to generate" % v[1]
                    return True
                # known variant with children: all of them must be harmlessly absent
                ok = all(self.zero(child, v[1], s, cons) for s in self.ordered(v[1], sub))
                if ok:
                    self.how[full] = "child is %s whose children need no code" % v[1]
                return ok
        else:
            for k, v in cons.items():
                if k[0] == "len" and k[1] == P and k[2] == it.acc and v == ("eq", 0):
                    self.how[full] = "empty list on this path"
                    return True
        for (ztag, zslot, cond, reason) in ZERO_OK:
            if ztag == tag and zslot == name and self.cond_holds(cond, tag, P):
                self.accepted.append((group, reason, cond))
                self.how[full] = "not generated: %s" % reason
                return True
        return False

    # ---- events
    def under(self, ev, P):
        """first step of the event below node P, or None"""
        if ev[0] == "gen":
            path = ev[1]
            if len(path) > len(P) and path[:len(P)] == P:
                return path[len(P)]
            return None
        if ev[0] in ("loop",):
            lp, lacc = ev[1]
            if lp == P:
                return lacc + (("*",),)
            if len(lp) > len(P) and lp[:len(P)] == P:
                return lp[len(P)]
            return None
        return None

    def check_node(self, P, tag, evs, cons=None):
        """evs: [(index, event)] all lying under node P, which is variant `tag`"""
        enum, vn = self.enum_of_tag(tag)
        items = self.ordered(tag, self.m.items(enum, vn))
        self.check_items(P, tag, items, evs, cons)

    def check_items(self, P, tag, items, evs, cons=None):
        claimed = set()
        spans = []
        for it in items:
            mine = []
            for (i, ev) in evs:
                step = self.under(ev, P)
                if step is None:
                    continue
                if isinstance(it, Single):
                    if step == it.acc:
                        mine.append((i, ev))
                else:
                    n = len(it.acc)
                    if step[:n] == it.acc and len(step) > n and isinstance(step[n], tuple):
                        mine.append((i, ev))
            for (i, _ev) in mine:
                claimed.add(i)
            name = self.slotname(tag, it.acc)
            full = "%s.%s" % (tag, name) if not P else "%s → %s.%s" % (pathstr(P), tag, name)
            if isinstance(it, Single):
                self.check_single(P, tag, it, mine, full, cons)
            else:
                self.check_list(P, tag, it, mine, full, cons)
            if mine:
                spans.append((full, mine[0][0], mine[-1][0]))
        for (i, ev) in evs:
            if i not in claimed and self.under(ev, P) is not None:
                raise Unint("event %s under %s matches no payload position of %s" % (self.evstr(ev), pathstr(P), tag))
        # order between positions
        for a in range(len(spans)):
            for b in range(a + 1, len(spans)):
                if spans[b][1] < spans[a][2]:
                    self.issues.append(Issue("R2", spans[b][0], "before:" + spans[a][0].rsplit(".", 1)[-1],
                                             "%s is generated before %s has been generated completely"
                                             % (spans[b][0], spans[a][0]), self.st))
        return spans

    def evstr(self, ev):
        if ev[0] == "gen":
            return "%s(%s)" % (ev[2], pathstr(ev[1]))
        return "%s over %s %s" % (ev[0], accstr(ev[1][1]) if ev[1] else "?", ev[2])

    def check_single(self, P, tag, it, mine, full, cons):
        child = P + (it.acc,)
        exact = [(i, ev) for (i, ev) in mine if ev[0] == "gen" and ev[1] == child]
        deeper = [(i, ev) for (i, ev) in mine if not (ev[0] == "gen" and ev[1] == child)]
        if len(exact) >= 2:
            self.issues.append(Issue("R1", full, "twice", "%s is generated %d times on one path (%s)"
                                     % (full, len(exact), ", ".join(ev[2] for _i, ev in exact)), self.st))
            return
        if exact and deeper:
            self.issues.append(Issue("R1", full, "twice", "%s is generated by %s and its children are generated again "
                                                          "separately (%s)" % (full, exact[0][1][2],
                                                                               self.evstr(deeper[0][1])), self.st))
            return
        if exact:
            self.how[full] = "once via %s" % exact[0][1][2]
            return
        if deeper:
            # the handler looked into the child: its variant is the first component of the next step
            tags = set()
            for (_i, ev) in deeper:
                step = self.under(ev, child)
                if step is None:
                    raise Unint("event below %s without a step" % full)
                tags.add(step[0])
            if len(tags) != 1:
                raise Unint("%s destructured as several variants on one path: %s" % (full, sorted(tags)))
            ctag = tags.pop()
            known = (cons if cons is not None else self.cons).get(("var", child))
            if known is not None and known[0] == "is" and known[1] != ctag:
                raise Unint("%s: events for %s but the path assumes %s" % (full, ctag, known[1]))
            self.how[full] = "destructured as %s, children generated in place" % ctag
            self.check_node(child, ctag, deeper, cons)
            return
        if not self.zero(P, tag, it, cons):
            self.issues.append(Issue("R1", full, "never", "%s is not generated on a path where nothing establishes "
                                                         "that there is nothing to evaluate: the operand (and its side "
                                                         "effects) is dropped on that path" % full, self.st))

    def check_list(self, P, tag, it, mine, full, cons):
        loops = [(i, ev) for (i, ev) in mine if ev[0] == "loop" and ev[1] == (P, it.acc)]
        idx = {}
        dyn = []
        other = []
        n = len(it.acc)
        for (i, ev) in mine:
            if ev[0] == "loop" and ev[1] == (P, it.acc):
                continue
            step = self.under(ev, P)
            mark = step[n]
            if mark[0] == "#" and mark[1] != "?":
                idx.setdefault(mark[1], []).append((i, ev))
            elif mark[0] == "#":
                dyn.append((i, ev))
            else:
                other.append((i, ev))
        if other:
            raise Unint("element of %s generated outside a loop over it" % full)
        # positions inspected through a computed index on this path (`list[i].field` tested, not generated)
        inspected = set()
        for k in (cons if cons is not None else self.cons):
            if k[0] == "none" and k[1] == P and len(k[2]) > n and k[2][:n] == it.acc and k[2][n] == ("#", "?"):
                for s in S.flat_slots(it.subs):
                    if s.acc[n + 1:] == k[2][n + 1:] and (tag, self.slotname(tag, s.acc)) in DYN_UNDECIDED:
                        inspected.add(self.slotname(tag, s.acc))
        if inspected and not dyn:
            for nm in inspected:
                self.undecided.append(("%s.%s" % (tag, nm), DYN_UNDECIDED[(tag, nm)]))
                self.how["%s.%s" % (tag, nm)] = "NOT DECIDED: " + DYN_UNDECIDED[(tag, nm)]
            it = ListItem(it.acc, [x for x in it.subs
                                   if not (isinstance(x, Single) and self.slotname(tag, x.acc) in inspected)])
        if dyn:
            # which sub-positions do the dyn events touch?
            touched = set()
            for (_i, ev) in dyn:
                step = self.under(ev, P)
                for s in S.flat_slots(it.subs):
                    if tuple(x for x in s.acc if not isinstance(x, tuple)) == tuple(x for x in step if not isinstance(x, tuple)):
                        touched.add((tag, self.slotname(tag, s.acc)))
            for t in touched:
                if t not in DYN_UNDECIDED:
                    raise Unint("%s.%s generated through a computed index" % t)
                self.undecided.append(("%s.%s" % t, DYN_UNDECIDED[t]))
                self.how["%s.%s" % t] = "NOT DECIDED: " + DYN_UNDECIDED[t]
            skip = set(t[1] for t in touched)
            it = ListItem(it.acc, [x for x in it.subs
                                   if not (isinstance(x, Single) and self.slotname(tag, x.acc) in skip)])
            if not loops and not idx:
                return
        if loops and idx:
            self.issues.append(Issue("R1", full, "twice", "%s: elements are generated by a loop and again by index"
                                     % full, self.st))
            return
        if idx:
            ks = sorted(idx)
            lenc = (cons if cons is not None else self.cons).get(("len", P, it.acc))
            for k in ks:
                subs = [self.subst(s, n, ("#", k)) for s in it.subs]
                self.check_items(P, tag, subs, idx[k], cons)
            if ks != list(range(len(ks))):
                self.issues.append(Issue("R1", full, "never", "%s: elements %s are generated by index but %s are not"
                                         % (full, ks, [k for k in range(max(ks)) if k not in ks]), self.st))
            firsts = [idx[k][0][0] for k in ks]
            if firsts != sorted(firsts):
                self.issues.append(Issue("R2", full, "index-order", "%s: elements are generated in the order %s"
                                         % (full, [k for _f, k in sorted(zip(firsts, ks))]), self.st))
            if lenc is not None and lenc[0] == "eq":
                if lenc[1] != len(ks):
                    self.issues.append(Issue("R1", full, "never", "%s has %d elements on this path but only %s are "
                                                                 "generated" % (full, lenc[1], ks), self.st))
                else:
                    self.how[full] = "by index %s with len = %d established" % (ks, lenc[1])
            else:
                self.assumed.append((full, "elements %s by index; that the list has no further element is the type "
                                           "checker's arity check" % ks))
                self.how[full] = "by index %s (arity from the type checker)" % ks
            return
        if not loops:
            if not self.zero(P, tag, it, cons):
                self.issues.append(Issue("R1", full, "never", "the elements of %s are not generated on a path where "
                                                             "nothing establishes that the list is empty or needs no "
                                                             "code" % full, self.st))
            return
        modes = [ev[2] for (_i, ev) in loops]
        desc = self.loop_shape(modes)
        if desc is None:
            kind = "R2" if any(m and any(x[0] == "rev" for x in m) for m in modes) else "R1"
            self.issues.append(Issue(kind, full, "loop-shape:" + ";".join(self.modestr(m) for m in modes),
                                     "%s is generated by loop(s) %s, which is not one forward pass over the list"
                                     % (full, " then ".join(self.modestr(m) for m in modes)), self.st))
            return
        if desc[1]:
            self.assumed.append((full, desc[1]))
        self.how[full] = desc[0]
        for (_i, ev) in loops:
            for (trace, bcons) in ev[3]:
                bc = dict(bcons)
                sub_evs = list(enumerate(trace))
                # body events are checked in the body's own context (assumptions of that iteration)
                saved = self.cons
                self.cons = bc
                try:
                    self.check_items(P, tag, it.subs, sub_evs, bc)
                finally:
                    self.cons = saved

    def modestr(self, m):
        out = []
        for x in m:
            if x[0] in ("take", "skip"):
                out.append("%s(%s)" % (x[0], x[1][1] if x[1][0] == "int" else "n"))
            else:
                out.append(x[0])
        return ".".join(out)

    def loop_shape(self, modes):
        """→ (description, assumption|None) if the loops together are one forward pass, else None"""
        if len(modes) == 1:
            m = modes[0]
            if m == (("all",),):
                return ("one forward loop over the list", None)
            if len(m) == 1 and m[0][0] == "take" and m[0][1][0] != "int":
                return ("one forward loop over a computed prefix `.take(n)`",
                        "`.take(n)` with a computed n: that n covers the whole list is the type checker's arity check")
            if len(m) == 1 and m[0][0] == "skip" and m[0][1] == ("int", 0):
                return ("one forward loop over the list (`.skip(0)`)", None)
            return None
        if len(modes) == 2:
            a, b = modes
            if len(a) == 1 and len(b) == 1 and a[0][0] == "take" and b[0][0] == "skip" and a[0][1] == b[0][1] \
                    and a[0][1][0] != "unk":
                return ("a forward loop over `.take(n)` followed by a forward loop over `.skip(n)` with the same n", None)
            return None
        return None

    def subst(self, item, n, mark):
        if isinstance(item, Single):
            return Single(item.acc[:n] + (mark,) + item.acc[n + 1:], item.kind)
        return ListItem(item.acc[:n] + (mark,) + item.acc[n + 1:], [self.subst(s, n, mark) for s in item.subs])


def describe_path(st):
    return "; ".join(st.notes) if st.notes else "(no assumptions)"


# ---------------------------------------------------------------------------------------------------------------------
def rules_r1_r2(chk, A, R):
    m = A.model
    r1 = chk.rule("C01.R1", "every id-carrying payload position of every expression/statement variant is generated "
                            "exactly once on every non-panicking path through its handler (or provably has nothing to "
                            "evaluate on that path)")
    r2 = chk.rule("C01.R2", "on every path the payload positions are generated in source order and list positions by "
                            "one forward pass")
    for r in (r1, r2):
        r.anchor(R.expr_dispatch, True)
        r.anchor(R.stmt_dispatch, True)
    place, place_fn = A.place_variants
    r1.anchor("checker dispatch that rejects variants of a child (infeasible generator paths), e.g. assignment targets",
              place)
    variants_with_paths = 0
    slots_seen = 0
    paths_total = 0
    pairs = 0
    lists = 0
    accepted = {}
    assumed = {}
    undecided = {}
    dropped_place = 0
    for enum in (R.E, R.S):
        short = m.short(enum)
        for v in R.adts[enum]["variants"]:
            tag = "%s::%s" % (short, v["name"])
            items = m.items(enum, v["name"])
            sts = A.paths.get(tag, [])
            handler = A.handlers.get(tag, R.expr_dispatch if enum == R.E else R.stmt_dispatch)
            if not sts:
                if items and tag not in A.unint:
                    r1.observe("%s: every path of the dispatcher arm panics (variant never reaches the generator); "
                               "%d payload positions not checked" % (tag, len(list(S.flat_slots(items)))))
                continue
            variants_with_paths += 1
            issues = {}
            hows = {}
            checked_paths = 0
            for st in sts:
                # generator paths the checker excludes: a child of a variant it rejects at that position
                bad = False
                for k, cv in st.cons.items():
                    if k[0] == "var" and len(k[1]) == 1 and k[1][0][0] == tag:
                        allowed = place.get((tag, k[1][0][-1]))
                        if allowed and ((cv[0] == "is" and cv[1] not in allowed) or
                                        (cv[0] == "not" and allowed <= set(cv[1]))):
                            bad = True
                if bad:
                    dropped_place += 1
                    continue
                ck = Checker(m, st, tag)
                try:
                    evs = list(enumerate(expand_uloops(st.trace)))
                    ck.check_items((), tag, ck.ordered(tag, items), evs)
                except Unint as e:
                    r1.violation("ANALYSIS:%s:%s:trace-not-attributable" % (handler, tag),
                                 "a path through the handler of %s produces a trace that cannot be attributed to "
                                 "payload positions (%s) — path: %s" % (tag, e, describe_path(st)))
                    continue
                checked_paths += 1
                for iss in ck.issues:
                    issues.setdefault((iss.rule, iss.slot, iss.kind), iss)
                for (slot, reason, cond) in ck.accepted:
                    accepted.setdefault((slot, reason), describe_path(st))
                for (slot, what) in ck.assumed:
                    assumed.setdefault((slot, what), handler)
                for (slot, why) in ck.undecided:
                    undecided.setdefault((slot, why), handler)
                for slot, how in ck.how.items():
                    hows.setdefault(slot, set()).add(how)
            paths_total += checked_paths
            flat = list(S.flat_slots(items))
            for s in flat:
                name = "%s.%s" % (tag, Checker(m, sts[0], tag).slotname(tag, s.acc))
                slots_seen += 1
                r1.instance(name, nontrivial=True,
                            sample={"position": name, "handler": handler, "paths": checked_paths,
                                    "generated": sorted(set(h for k, hs in hows.items() if k.startswith(name)
                                                            for h in hs))[:4]})
            ordered = Checker(m, sts[0], tag).ordered(tag, items)
            for a, b in zip(ordered, ordered[1:]):
                na = Checker(m, sts[0], tag).slotname(tag, a.acc)
                nb = Checker(m, sts[0], tag).slotname(tag, b.acc)
                pairs += 1
                r2.instance("%s:%s<%s" % (tag, na, nb), nontrivial=True,
                            sample={"variant": tag, "first": na, "then": nb, "paths": checked_paths})
            for it in all_lists(items):
                lists += 1
                lname = Checker(m, sts[0], tag).slotname(tag, it.acc)
                r2.instance("%s:%s forward" % (tag, lname), nontrivial=True,
                            sample={"variant": tag, "list": lname, "paths": checked_paths,
                                    "generated": sorted(set(h for k, hs in hows.items()
                                                            if k == "%s.%s" % (tag, lname) for h in hs))[:3]})
                for a, b in zip(it.subs, it.subs[1:]):
                    pairs += 1
                    r2.instance("%s:%s<%s" % (tag, Checker(m, sts[0], tag).slotname(tag, a.acc),
                                             Checker(m, sts[0], tag).slotname(tag, b.acc)), nontrivial=True)
            for (rule, slot, kind), iss in sorted(issues.items()):
                r = r1 if rule == "R1" else r2
                r.violation("%s:%s:%s" % (handler, slot, kind),
                            "%s — path: %s" % (iss.text, describe_path(iss.st)),
                            "%s:%s" % (A.c.hir[handler]["file"], A.c.hir[handler]["line"]) if handler in A.c.hir else None)
    r1.floor("variants with at least one complete path through their handler", variants_with_paths, 29)
    r1.floor("payload positions checked", slots_seen, 38)
    r1.floor("non-panicking handler paths checked", paths_total, 1500)
    r2.floor("adjacent position pairs checked for order", pairs, 17)
    r2.floor("list positions checked for a forward pass", lists, 7)
    r1.floor("generator functions inlined by the path enumeration", len(A.interp.inlined), 100)
    for (slot, why), handler in sorted(undecided.items()):
        r1.observe("NOT DECIDED: %s — %s" % (slot, why))
    acc2 = {}
    for (slot, reason), path in sorted(accepted.items()):
        base = slot.split(" (through")[0]
        e = acc2.setdefault((base, reason), [path, False])
        if slot != base:
            e[1] = True
    for (slot, reason), (path, nested) in sorted(acc2.items()):
        r1.observe("accepted zero-generation: %s — %s%s [e.g. path: %s]" % (
            slot, reason, " (also below parentheses / field chains the handler looks through)" if nested else "",
            path[:260]))
    seen_as = set()
    for (slot, what), handler in sorted(assumed.items()):
        k = (slot.split(" → ")[-1], what)
        if k not in seen_as:
            seen_as.add(k)
            r1.observe("arity assumption: %s — %s" % k)
    for key, allowed in sorted(place.items()):
        r1.observe("paths dropped as infeasible: %s.%s of a variant the checker rejects in %s (accepted: %s); %d paths "
                   "dropped in total" % (key[0], key[1], place_fn[key], ", ".join(sorted(allowed)), dropped_place))
    for (kind, site), n in sorted(A.interp.pruned.items()):
        r1.observe("bound: %s %s — %d paths beyond the unrolling bound dropped" % (
            "recursion of" if kind == "rec" else "loop in", site, n))
    for (what, why) in m.uninterpreted:
        r1.violation("ANALYSIS:payload:%s" % what, "payload position not decomposed: %s" % why)
    chk.extra["c01_accepted_zero_generation"] = ["%s — %s" % k for k in sorted(accepted)]
    chk.extra["c01_not_decided"] = ["%s — %s" % k for k in sorted(undecided)]
    chk.extra["c01_arity_assumptions"] = ["%s — %s" % k for k in sorted(assumed)]


def all_lists(items):
    for it in items:
        if isinstance(it, ListItem):
            yield it
            for x in all_lists(it.subs):
                yield x


def expand_uloops(trace):
    """events inside loops over computed values are only acceptable when they address positions through a computed
    index (classified by the checker); they are lifted to the top level keeping their order"""
    out = []
    for ev in trace:
        if ev[0] == "uloop":
            for (tr, _c) in sorted(ev[3], key=lambda x: repr(x[0])):
                for e2 in expand_uloops(tr):
                    if e2[0] == "gen" and not any(isinstance(x, tuple) and x[0] == "#" and x[1] == "?"
                                                  for step in e2[1] for x in step):
                        raise Unint("generation of %s inside a loop over computed values" % pathstr(e2[1]))
                    out.append(e2)
        elif ev[0] == "loop" and ev[2] and ev[2][0][0] in ("partial", "last"):
            raise Unint("a loop over %s is left early after generating code" % accstr(ev[1][1]))
        else:
            out.append(ev)
    return out


# ---------------------------------------------------------------------------------------------------------------------
def rule_r4(chk, F, c, R, A):
    """declaration order of the payload fields = order of the child positions the lowering reads them from"""
    r3 = chk.rule("C01.R4", "the declaration order of id-carrying payload fields (used as source order by R2) agrees "
                            "with the positions of the syntax-tree children they are lowered from")
    try:
        p = F.crate("dora_parser")
    except Exception as e:      # noqa
        r3.anchor("dora_parser facts", False)
        return
    # child accessors of the syntax tree: fn(&AstX) -> AstY / Option<AstY> / iterator, implemented as
    #   children().find_map(cast) (position 0) | children().filter_map(cast).nth(k) (position k)
    pos = {}
    for path, b in p.hir.items():
        if "::ast::" not in path:
            continue
        body = hirq.strip(b["body"])
        k = accessor_position(body)
        if k is not None:
            pos[path] = k
    if not r3.anchor("syntax-tree child accessors with a derivable child position (find_map / filter_map.nth)",
                     len(pos) >= 20):
        return
    # the lowering: function with a match over the syntax-tree expression enum constructing E's variants
    lower = None
    for path, b in c.hir.items():
        if not path.startswith(R.scope):
            continue
        n = sum(1 for x in hirq.walk(b["body"]) if x[0] == "call" and hirq.is_node(x[2]) and x[2][0] == "def"
                and x[2][1] == "ctor" and x[2][2].rsplit("::", 1)[0] == R.E)
        if n >= 0.7 * len(R.adts[R.E]["variants"]) - 6 and (lower is None or n > lower[1]):
            lower = (path, n)
    if not r3.anchor("lowering function constructing the expression variants from syntax-tree nodes", lower):
        return
    lower_fn = lower[0]
    body = c.hir[lower_fn]["body"]
    checked = 0
    for x in hirq.walk(body):
        if not (x[0] == "call" and hirq.is_node(x[2]) and x[2][0] == "def" and x[2][1] == "ctor"
                and x[2][2].rsplit("::", 1)[0] == R.E and x[3]):
            continue
        vname = hirq.last(x[2][2])
        arg = hirq.strip(x[3][0])
        if not (hirq.is_node(arg) and arg[0] == "struct"):
            continue
        spath = hirq.def_path(arg[1])
        decl = [f["name"] for f in R.adts.get(spath, {"variants": [{"fields": []}]})["variants"][0]["fields"]]
        # for each field: the accessor(s) with a known position used in its initialiser
        fpos = {}
        for fname, init in arg[2]:
            for cs in hirq.calls(init):
                if cs.callee in pos and cs.is_method:
                    fpos.setdefault(fname, (cs.callee, pos[cs.callee]))
        # local variables initialised before the struct literal are not followed (fields then have no position)
        same_class = {}
        for fname, (acc, k) in fpos.items():
            ret = next((f["output"] for f in p.items["fns"] if f["path"] == acc), "")
            same_class.setdefault(ret.replace("core::option::Option<", "").rstrip(">"), []).append((k, fname))
        for cls, lst in same_class.items():
            if len(lst) < 2:
                continue
            lst.sort()
            names = [f for _k, f in lst]
            declared = [f for f in decl if f in names]
            checked += 1
            key = "%s:%s" % (vname, "<".join(declared))
            r3.instance(key, nontrivial=True, sample={"variant": vname, "declared": declared,
                                                       "child positions": [(f, k) for k, f in lst]})
            if names != declared:
                r3.violation("%s:%s:declaration-order" % (spath, vname),
                             "fields %s are declared in the order %s but lowered from syntax children at positions %s: "
                             "R2's source order would be wrong for this variant" % (names, declared, lst),
                             "%s:%s" % (c.hir[lower_fn]["file"], c.hir[lower_fn]["line"]))
    r3.floor("variants whose same-class children have derivable positions", checked, 3)
    r3.observe("cross-class order (callee/object before the argument list, scrutinee before arms, `for` pattern before "
               "the iterated expression, `let` pattern before the initialiser) is not derivable from the accessors; "
               "R2 uses declaration order with the two reasoned overrides %s" % sorted(ORDER_OVERRIDE))


def accessor_position(body):
    """self.syntax_node().children().find_map(cast)[.unwrap()] → 0;  ….filter_map(cast).nth(k)[.unwrap()] → k"""
    e = body
    while hirq.is_node(e) and e[0] == "mcall" and e[3] in ("unwrap", "expect"):
        e = hirq.strip(e[4])
    if not (hirq.is_node(e) and e[0] == "mcall"):
        return None
    if e[3] == "find_map":
        base = hirq.strip(e[4])
        if hirq.is_node(base) and base[0] == "mcall" and base[3] == "children":
            return 0
        return None
    if e[3] == "nth":
        k = hirq.lit_int(e[5][0]) if e[5] else None
        base = hirq.strip(e[4])
        if k is not None and hirq.is_node(base) and base[0] == "mcall" and base[3] == "filter_map":
            b2 = hirq.strip(base[4])
            if hirq.is_node(b2) and b2[0] == "mcall" and b2[3] == "children":
                return k
    return None

"""C03 — garbage collection is invisible and reclaims garbage.

Decided clauses of "no reachable object is moved without every reference being updated":
  R1  every reclaiming collector visits every root source (call-graph must-reach + MIR must-call)
  R2  no direct pointer to a managed object is live in mutator-context native code across a call
      that may collect (MIR liveness × whole-workspace may-collect call graph)
  R3  the baseline compiler's sibling store routines carry the generational write barrier for every
      reference-carrying arm, and agree with each other; the barrier slow path cannot collect
  R4  ABI mirror instances the collector relies on (TLAB offsets, header sizes, shape record)
Correctness of the copying/marking algorithms themselves is NOT decided.
"""
import re

import cfg
import hirq
from callgraph import CallGraph

RT = "dora_runtime::"
SEEDS = [RT + "gc::Gc::alloc", RT + "gc::Gc::collect_garbage", RT + "safepoint::stop_the_world",
         RT + "threads::DoraThread::park", RT + "threads::parked_scope"]


def last(p):
    return p.rsplit("::", 1)[-1]


def native_entries(c):
    return [f["path"] for f in c.items["fns"] if f.get("symbol") and f.get("has_body")]


# --------------------------------------------------------------------------- R1
def rule_r1(chk, F, c, cg):
    r = chk.rule("C03.R1", "iterate_strong_roots reaches every iterate_roots_from_* source for every thread; every "
                           "reclaiming collector reaches strong and weak roots; Gc::collect_garbage makes TLABs "
                           "iterable before collecting")
    isr = RT + "gc::root::iterate_strong_roots"
    if not r.anchor(isr, isr in cg.bodies):
        return
    sources = sorted(p for p in cg.bodies if p.startswith(RT + "gc::root::iterate_roots_from_") and "{closure" not in p)
    r.floor("root source functions", len(sources), 4)
    reach = cg.reachable_from([isr])
    for s in sources:
        r.instance("strong-roots→%s" % last(s), sample={"source": s, "reached": s in reach})
        if s not in reach:
            r.violation("%s:unreached-root-source" % s,
                        "%s is defined but iterate_strong_roots never reaches it: objects referenced only from that "
                        "source are reclaimed or left with stale addresses after a moving collection" % last(s), s)
    B = cg.body(isr)
    direct = {}
    for x in B.calls:
        if x.name and x.name.startswith(RT + "gc::root::iterate_roots_from_"):
            direct.setdefault(x.name, x)
    need_direct = [RT + "gc::root::iterate_roots_from_stack", RT + "gc::root::iterate_roots_from_handles",
                   RT + "gc::root::iterate_roots_from_globals", RT + "gc::root::iterate_roots_from_wait_list"]
    loops = B.natural_loops()
    for nd in need_direct:
        x = direct.get(nd)
        r.instance("iterate_strong_roots:calls:%s" % last(nd))
        if x is None:
            r.violation("%s:not-called:%s" % (isr, last(nd)), "root source %s is not visited" % last(nd), isr)
            continue
        inloop = [(h, body) for (h, body) in loops if x.block in body]
        if inloop:
            # every iteration that continues passes the call
            for (h, body) in inloop:
                tails = [t for t in body if h in B.succ[t]]
                if not all(B.dominates(x.block, t) for t in tails):
                    r.violation("%s:skippable-in-loop:%s" % (isr, last(nd)),
                                "an iteration of the per-thread loop can skip %s" % last(nd), x.where())
        else:
            if not B.postdominates(x.block, 0):
                r.violation("%s:skippable:%s" % (isr, last(nd)),
                            "iterate_strong_roots can return without visiting %s" % last(nd), x.where())
    # the per-thread loop runs over the whole `threads` parameter
    defs = cfg.simple_defs(B)
    whole = False
    for x in B.calls:
        if x.name and x.name.endswith("IntoIterator>::into_iter") or (x.decl or "").endswith("IntoIterator::into_iter"):
            o = cfg.origin(B, x.args[0], defs)
            if o[0] == "param" and o[1] == 2 and not [p for p in o[2] if p not in ("*", "&")]:
                whole = True
    r.instance("iterate_strong_roots:loops-over-all-threads")
    if not whole:
        r.violation(isr + ":not-all-threads", "the per-thread root loop does not iterate the whole `threads` slice", isr)
    # collectors
    impls = cg.trait_impls.get((RT + "gc::Collector", "collect_garbage"), [])
    r.floor("Collector::collect_garbage impls", len(impls), 4)
    strong = {isr, RT + "gc::root::determine_strong_roots"}
    weak = RT + "gc::root::iterate_weak_roots"
    reclaiming = 0
    for ip in sorted(impls):
        b = cg.body(ip)
        if b is None:
            continue
        if not b.calls:
            r.observe("%s has an empty body (no reclamation) — exempt" % ip)
            continue
        reclaiming += 1
        rr = cg.reachable_from([ip])
        r.instance("%s:reaches-roots" % ip, sample={"collector": ip, "strong": bool(rr & strong), "weak": weak in rr})
        if not (rr & strong):
            r.violation(ip + ":no-strong-roots", "collector never visits the strong roots", ip)
        if weak not in rr:
            r.violation(ip + ":no-weak-roots",
                        "collector never updates the weak roots (finalizer table keeps stale addresses of moved or "
                        "dead objects)", ip)
    r.floor("reclaiming collectors", reclaiming, 3)
    for sub in ("gc::swiper::Swiper::minor_collect", "gc::swiper::Swiper::full_collect"):
        p = RT + sub
        if r.anchor(p, p in cg.bodies):
            rr = cg.reachable_from([p])
            r.instance(p + ":weak+strong")
            if weak not in rr:
                r.violation(p + ":no-weak-roots", "%s never updates weak roots" % last(p), p)
    # Gc::collect_garbage closure
    clos = [p for p in cg.bodies if p.startswith(RT + "gc::Gc::collect_garbage::{closure")]
    if r.anchor("closure in Gc::collect_garbage", clos):
        B = cg.body(clos[0])
        mi = B.calls_to("gc::tlab::make_iterable_all")
        cgc = [x for x in B.calls if (x.decl or "").endswith("gc::Collector::collect_garbage")]
        ep = [x for x in B.calls if x.name and x.name.startswith("core::sync::atomic::Atomic") and
              last(x.name) == "fetch_add"]
        r.instance("Gc::collect_garbage:make_iterable-before-collect")
        if not (cgc and mi and all(any(B.dominates(m.block, g.block) for m in mi) for g in cgc)):
            r.violation(RT + "gc::Gc::collect_garbage:tlab-not-iterable",
                        "the collector is invoked without tlab::make_iterable_all first: heap walks run into "
                        "unformatted TLAB tails", clos[0])
        if not (ep and cgc and all(any(B.dominates(e.block, g.block) for e in ep) for g in cgc)):
            r.violation(RT + "gc::Gc::collect_garbage:epoch-not-bumped",
                        "the GC epoch is not incremented before collecting: address-keyed tables are not re-hashed "
                        "and concurrent requesters collect twice", clos[0])
    wl = RT + "runtime::waitlists::WaitLists::visit_roots"
    r.instance("strong-roots→WaitLists::visit_roots")
    if wl not in reach:
        r.violation(isr + ":waitlists-unreached", "wait-list keys (mutex/condition objects) are not roots", isr)


# --------------------------------------------------------------------------- R2
def managed_types(c):
    out = set()
    for a in c.items["adts"]:
        if a["kind"] != "struct" or not a["variants"]:
            continue
        fs = a["variants"][0]["fields"]
        if fs and fs[0]["name"] == "header" and fs[0]["ty"] == RT + "mirror::Header":
            out.add(a["path"])
    out.add(RT + "mirror::Header")
    return out


def make_gc_type_pred(managed):
    alts = "|".join(re.escape(m) for m in sorted(managed, key=len, reverse=True))
    ptr_re = re.compile(r"^(?:&(?:'\w+ )?(?:mut )?|\*const |\*mut )(?:%s)(?:<.*>)?$" % alts)
    ref_re = re.compile(r"^" + re.escape(RT + "mirror::Ref<"))
    opt_re = re.compile(r"^core::option::Option<(.*)>$")

    def pred(ty):
        m = opt_re.match(ty)
        if m:
            ty = m.group(1)
        return bool(ptr_re.match(ty) or ref_re.match(ty))
    return pred


_PTR_RE = re.compile(r"^(?:&(?:'\w+ )?(?:mut )?|\*const |\*mut )(.*)$")
MANAGED = set()


def _base_local(B, op, defs):
    from rules.c04 import base_local
    return base_local(B, op, defs)


def is_ptrlike(ty):
    """could a value of this type point into the managed heap when derived from a GC pointer?"""
    if ty == RT + "gc::Address" or ty.startswith(RT + "mirror::Ref<"):
        return True
    m = _PTR_RE.match(ty)
    if not m:
        return False
    pointee = m.group(1)
    base = pointee.split("<")[0]
    if base in MANAGED:
        return True
    # a reference to a named native (non-managed) type, e.g. &DoraThread reached through a managed object's raw
    # pointer field, does not point into the managed heap
    if base.startswith(("dora_runtime::", "dora_compiler::", "std::", "alloc::", "core::sync", "parking_lot::")) \
            and not pointee.startswith("["):
        return False
    return True


def rule_r2(chk, F, c, cg, rid="C03.R2"):
    r = chk.rule(rid, "no direct pointer to a managed object (Ref<T>, &T/*T of a #[dora_object]/mirror type, or "
                           "a pointer derived from one) is live across a call that may collect, in native code "
                           "reachable from a native entry point (handles are the only safe way to hold objects)")
    for s in SEEDS:
        r.anchor(s, s in cg.bodies)
    may = cg.callers_closure(SEEDS)
    managed = managed_types(c)
    MANAGED.clear()
    MANAGED.update(managed)
    r.floor("managed mirror types", len(managed), 8)
    gc_ty = make_gc_type_pred(managed)
    entries = native_entries(c)
    r.floor("native entry points", len(entries), 40)
    scope = cg.reachable_from(entries)
    excl = (RT + "gc::", RT + "snapshot")
    nfun = ncalls = 0
    hazards = []
    into = []
    for p in sorted(scope):
        if not p.startswith(RT) or p.startswith(excl):
            continue
        B = cg.body(p)
        if B is None:
            continue
        nfun += 1
        gcl = {i for i, (ty, _n) in enumerate(B.locals) if gc_ty(ty)}
        # derived pointers: result of a call taking a GC pointer and returning something pointer-like
        changed = True
        derived = set()
        defs = None
        bl_defs = None
        while changed:
            changed = False
            for x in B.calls:
                d = x.dest[0]
                if x.dest[1] or d in gcl or d in derived:
                    continue
                if not is_ptrlike(B.local_ty(d)):
                    continue
                for a in x.args:
                    if a[0] not in ("c", "m"):
                        continue
                    if a[1][0] in gcl or a[1][0] in derived:
                        derived.add(d)
                        changed = True
                        break
                    # `&addr` passed as &self: a borrow of a local that itself holds a tainted pointer value
                    if bl_defs is None:
                        bl_defs = cfg.simple_defs(B)
                    bl = _base_local(B, a, bl_defs)
                    if bl in gcl or bl in derived:
                        derived.add(d)
                        changed = True
                        break
            # copies / reborrows of tainted locals
            for blk in B.blocks:
                for s in blk["s"]:
                    if s[0] == "a" and not s[1][1] and s[1][0] not in gcl and s[1][0] not in derived:
                        rv = s[2]
                        src = None
                        if rv[0] == "use" and rv[1][0] in ("c", "m"):
                            src = rv[1][1]
                        elif rv[0] == "ref":
                            src = rv[2]
                        elif rv[0] == "rawptr":
                            src = rv[1]
                        elif rv[0] == "cast" and rv[2][0] in ("c", "m"):
                            src = rv[2][1]
                        if src is not None and (src[0] in gcl or src[0] in derived) and is_ptrlike(
                                B.local_ty(s[1][0])):
                            # a borrow of the *local itself* (&local) points to the stack, not the heap
                            if rv[0] in ("ref", "rawptr") and "*" not in src[1]:
                                continue
                            derived.add(s[1][0])
                            changed = True
        tainted = gcl | derived
        if not tainted:
            continue
        defs = None
        live_in, live_out = B.liveness()
        for x in B.calls:
            tg = [t for (t, k) in cg.targets(x.fn)] if x.fn else []
            hit = [t for t in tg if t in may]
            if not hit:
                continue
            ncalls += 1
            # (b) a tainted pointer handed INTO the call that may collect — directly or captured by a closure
            # argument: the callee (e.g. the body of a parked_scope closure) uses it while/after a collection
            if defs is None:
                defs = cfg.simple_defs(B)
            for a in x.args:
                if a[0] not in ("c", "m"):
                    continue
                passed = []
                if a[1][0] in tainted and not a[1][1]:
                    passed.append(a[1][0])
                o = cfg.origin(B, a, defs)
                if o[0] == "agg" and o[1][0] == "closure":
                    from rules.c04 import base_local
                    for cap in o[2]:
                        if cap[0] in ("c", "m"):
                            # captured by move, by reborrow, or by borrowing the variable that holds the pointer
                            bl = base_local(B, cap, defs)
                            if cap[1][0] in tainted:
                                passed.append(cap[1][0])
                            elif bl in tainted:
                                passed.append(bl)
                for l in passed:
                    into.append((p, B, x, l, hit[0]))
            lo = live_out[x.block]
            bad = [l for l in tainted if l in lo and l != x.dest[0]]
            # a pointer that is itself an argument moved into the callee is the callee's business
            for l in bad:
                hazards.append((p, B, x, l, hit[0], l in derived))
            r.instance("%s@%s" % (p, last(hit[0])), nontrivial=bool(tainted),
                       sample={"fn": p, "call": hit[0], "at": x.where(), "gc_pointer_locals": len(tainted)})
    r.floor("functions in scope", nfun, 150)
    r.floor("may-collect call sites examined", ncalls, 25)
    seen = set()
    for (p, B, x, l, callee, is_derived) in hazards:
        nm = B.local_name(l) or "_%d" % l
        key = "%s:%s-live-across-%s" % (p, nm, last(callee))
        if key in seen:
            continue
        seen.add(key)
        path = cg.path(callee, set(SEEDS)) or [callee]
        r.violation(key,
                    "`%s: %s`%s is live across the call to %s, which may collect (%s): after a moving collection it "
                    "points to the object's old location — use-after-move" %
                    (nm, B.local_ty(l), " (derived pointer)" if is_derived else "", callee,
                     " → ".join(last(q) for q in path)), x.where())
    for (p, B, x, l, callee) in into:
        nm = B.local_name(l) or "_%d" % l
        key = "%s:%s-passed-into-%s" % (p, nm, last(callee))
        if key in seen:
            continue
        seen.add(key)
        r.violation(key,
                    "`%s: %s` (a direct pointer into the managed heap) is handed to %s, which may collect or runs "
                    "while the thread is parked: a collection started by another thread moves the object and the "
                    "callee reads/writes the old location (heap corruption, or data delivered to a dead copy)" % (
                        nm, B.local_ty(l), callee), x.where())
    r.observe("may-collect functions: %d; scope functions: %d" % (len(may), nfun))


# --------------------------------------------------------------------------- R3
def rule_r3(chk, F, cg):
    r = chk.rule("C03.R3", "store_field/store_array/store_value_through_ref emit the write barrier in every "
                           "reference-carrying arm and agree arm by arm; the barrier slow path cannot collect")
    cc = F.crate("dora_cannon_compiler")
    sibs = {}
    for nm in ("store_field", "store_array", "store_value_through_ref"):
        b = None
        for p, hb in cc.hir.items():
            if p.endswith("BaselineAssembler::<'a>::" + nm):
                b = hb
        if not r.anchor("BaselineAssembler::" + nm, b):
            continue
        m = None
        for n in hirq.walk(b["body"]):
            if n[0] == "match":
                m = n
                break
        if not r.anchor(nm + ": match on BytecodeType", m):
            continue
        table = {}
        for (pat, guard, arm) in hirq.match_arms(m):
            variants = [last(d) for d in hirq.pat_paths(pat) if "BytecodeType::" in d]
            calls = list(hirq.calls(arm))
            barrier = any(cs.name and cs.name.startswith("emit_write_barrier") for cs in calls)
            guarded = any(cs.name == "needs_write_barrier" for cs in calls)
            stores = any(cs.name in ("store_mem",) for cs in calls)
            usesptr = any(n[0] == "def" and n[2].endswith("MachineMode::Ptr") for n in hirq.walk(arm))
            recurses = any(cs.name == nm for cs in calls)
            for v in variants:
                table[v] = (barrier, guarded, stores, usesptr, recurses)
        sibs[nm] = (table, b)
    for nm, (table, b) in sibs.items():
        for v, (barrier, guarded, stores, usesptr, recurses) in sorted(table.items()):
            key = "%s:%s" % (nm, v)
            r.instance(key, nontrivial=stores, sample={"routine": nm, "variant": v, "barrier": barrier,
                                                       "stores_ptr": usesptr})
            if stores and usesptr and not barrier:
                r.violation(key + ":pointer-store-without-barrier",
                            "%s stores a pointer-mode value for BytecodeType::%s without emit_write_barrier: an "
                            "old→young reference is not remembered and the young object is reclaimed or moved "
                            "without the field being updated" % (nm, v), b["file"])
            if barrier and not guarded:
                r.observe("%s:%s emits the barrier unconditionally" % (nm, v))
        for must in ("Class", "TraitObject", "Address", "Enum"):
            if must not in table:
                r.violation("%s:%s:arm-missing" % (nm, must), "no arm for reference-carrying type %s" % must, b["file"])
    names = sorted(sibs)
    for i in range(len(names)):
        for j in range(i + 1, len(names)):
            a, bb = sibs[names[i]][0], sibs[names[j]][0]
            for v in sorted(set(a) & set(bb)):
                if not (a[v][2] and bb[v][2]):
                    continue      # one side does not store at all (e.g. unreachable!() arm)
                r.instance("siblings:%s/%s:%s" % (names[i], names[j], v), nontrivial=a[v][0] or bb[v][0])
                if a[v][0] != bb[v][0]:
                    r.violation("siblings:%s-vs-%s:%s" % (names[i], names[j], v),
                                "BytecodeType::%s gets a write barrier in %s but not in %s" % (
                                    v, names[i] if a[v][0] else names[j], names[j] if a[v][0] else names[i]),
                                "dora-cannon-compiler/src/asm.rs")
    r.floor("store siblings", len(sibs), 3)
    # the slow path target
    c = F.crate("dora_runtime")
    slow = [f["path"] for f in c.items["fns"] if f.get("symbol") == "dora_aot_write_barrier_slow_path"]
    if r.anchor("native target of WriteBarrierSlowPath (symbol dora_aot_write_barrier_slow_path)", slow):
        may = cg.callers_closure(SEEDS)
        r.instance(slow[0] + ":non-collecting")
        if slow[0] in may:
            path = cg.path(slow[0], set(SEEDS))
            r.violation(slow[0] + ":may-collect",
                        "the write-barrier slow path is called from compiled code without a stack map, so it must "
                        "never reach a collection; it reaches %s" % " → ".join(path or []), slow[0])


# --------------------------------------------------------------------------- R4
def rule_r4(chk, F):
    r = chk.rule("C03.R4", "layout constants the collector and the compiled allocation/barrier fast paths share agree "
                           "across dora-compiler ABI, dora-runtime and boots (TLAB, header, remembered bit, shape)")
    import doraq
    dc = F.crate("dora_compiler")
    rt = F.crate("dora_runtime")
    a = dc.adt("abi::ThreadLocalDataLayout")
    b = rt.adt("threads::ThreadLocalData")
    consts = doraq.consts(F.dora()["pkgs/boots/interface.dora"])
    if r.anchor("ThreadLocalDataLayout/ThreadLocalData", a and b):
        fa = a["variants"][0]["fields"]
        fb = b["variants"][0]["fields"]
        r.instance("TLD:field-count", sample={"abi": len(fa), "runtime": len(fb)})
        if len(fa) != len(fb):
            r.violation("ThreadLocalData:field-count", "ABI mirror has %d fields, runtime %d" % (len(fa), len(fb)),
                        b["file"])
        alias = {"MARKING": "concurrent_marking"}
        for x, y in zip(fa, fb):
            key = "ThreadLocalData.%s" % y["name"]
            r.instance(key, sample={"abi": (x["name"], x.get("offset"), x.get("size")),
                                    "runtime": (y["name"], y.get("offset"), y.get("size"))})
            if x.get("offset") != y.get("offset") or x.get("size") != y.get("size"):
                r.violation(key + ":offset", "ABI %s@%s/%s vs runtime %s@%s/%s" % (
                    x["name"], x.get("offset"), x.get("size"), y["name"], y.get("offset"), y.get("size")), b["file"])
            if x["name"] != y["name"]:
                r.violation(key + ":name", "field order differs: ABI `%s` vs runtime `%s`" % (x["name"], y["name"]),
                            b["file"])
        offs = {f["name"]: f.get("offset") for f in fb}
        for cname, fld in (("THREAD_LOCAL_DATA_TLAB_TOP_OFFSET", "tlab_top"),
                           ("THREAD_LOCAL_DATA_TLAB_END_OFFSET", "tlab_end"),
                           ("THREAD_LOCAL_DATA_MARKING_OFFSET", "concurrent_marking"),
                           ("THREAD_LOCAL_DATA_MANAGED_THREAD_HANDLE_OFFSET", "managed_thread_handle"),
                           ("THREAD_LOCAL_DATA_SHAPE_BASE_OFFSET", "shape_base")):
            if cname in consts:
                r.instance("interface.dora:" + cname, sample={"dora": consts[cname], "rust": offs.get(fld)})
                if consts[cname] != offs.get(fld):
                    r.violation("interface.dora:" + cname, "Dora constant %s != offset of %s (%s)" % (
                        consts[cname], fld, offs.get(fld)), "pkgs/boots/interface.dora")
    # header / array header
    hdr = rt.adt("mirror::Header")
    arr = rt.adt("mirror::Array")
    if r.anchor("mirror::Header", hdr):
        r.instance("Header.size", sample={"size": hdr.get("size")})
        for cname, want in (("OBJECT_HEADER_LENGTH", hdr.get("size")),):
            if cname in consts:
                r.instance("interface.dora:" + cname, sample={"dora": consts[cname], "rust": want})
                if consts[cname] != want:
                    r.violation("interface.dora:" + cname, "%s != size_of::<Header>() (%s)" % (consts[cname], want),
                                "pkgs/boots/interface.dora")
    sh_rt = rt.adt("shape::Shape")
    sh_abi = dc.adt("abi::ShapeLayout")
    if r.anchor("shape::Shape / abi::ShapeLayout", sh_rt and sh_abi):
        fa = sh_abi["variants"][0]["fields"]
        fb = sh_rt["variants"][0]["fields"]
        r.instance("Shape:field-count", sample={"abi": [f["name"] for f in fa], "runtime": [f["name"] for f in fb]})
        # the runtime struct may have a trailing zero-sized vtable marker; compare the common prefix by offset/size
        for x, y in zip(fa, fb):
            key = "Shape.%s" % y["name"]
            r.instance(key, sample={"abi": (x["name"], x.get("offset"), x.get("size")),
                                    "runtime": (y["name"], y.get("offset"), y.get("size"))})
            if x.get("offset") != y.get("offset") or x.get("size") != y.get("size"):
                r.violation(key + ":offset", "ABI %s@%s/%s vs runtime %s@%s/%s" % (
                    x["name"], x.get("offset"), x.get("size"), y["name"], y.get("offset"), y.get("size")),
                            sh_rt["file"])
        if len(fa) > len(fb):
            r.violation("Shape:abi-has-more-fields", "ShapeLayout has fields the runtime Shape lacks", sh_rt["file"])


def call_slice(B, op, seen=None):
    """names of the calls whose results flow (through copies/arithmetic/calls) into an operand"""
    out = set()
    seen = seen if seen is not None else set()
    if op[0] == "k":
        return out
    local = op[1][0]
    if local in seen:
        return out
    seen.add(local)
    for blk in B.blocks:
        for st in blk["s"]:
            if st[0] == "a" and st[1][0] == local:
                rv = st[2]
                ops = []
                if rv[0] in ("use", "repeat"):
                    ops = [rv[1]]
                elif rv[0] == "cast":
                    ops = [rv[2]]
                elif rv[0] == "bin":
                    ops = [rv[2], rv[3]]
                elif rv[0] == "un":
                    ops = [rv[2]]
                elif rv[0] == "agg":
                    ops = rv[2]
                elif rv[0] == "ref":
                    ops = [["c", rv[2]]]
                elif rv[0] in ("discr", "rawptr"):
                    ops = [["c", rv[1]]]
                for o in ops:
                    out |= call_slice(B, o, seen)
        t = blk["t"]
        if t[0] == "call" and t[1]["d"][0] == local:
            nm = cfg.callee_name(cfg.callee_of(t[1]["f"])) or "?"
            out.add(nm)
            for a in t[1]["a"]:
                out |= call_slice(B, a, seen)
    return out


def rule_r6(chk, F, c, cg):
    r = chk.rule("C03.R6", "minor collection: whether a promoted object is entered into the remembered set is decided "
                           "on the child's address AFTER evacuation (promotion of the child can fail and leave it "
                           "young), and the slot is relocated to that same address")
    tp = [p for p in cg.bodies if p.startswith(RT + "gc::swiper::minor::CopyTask::<'a>::trace_promoted_object")]
    if not r.anchor("CopyTask::trace_promoted_object", tp):
        return
    ev = RT + "gc::swiper::minor::CopyTask::<'a>::evacuate_object"
    found_flag = found_reloc = False
    for p in sorted(tp):
        B = cg.body(p)
        # stores of `true` through a captured flag / into a local bool that later guards set_remembered
        for bi, blk in enumerate(B.blocks):
            if blk["c"] or bi not in B.reachable(0):
                continue
            for s in blk["s"]:
                if s[0] == "a" and s[2][0] == "use" and s[2][1][0] == "k" and s[2][1][1].get("ty") == "bool" \
                        and s[2][1][1].get("v") == 1 and (s[1][1] or B.local_ty(s[1][0]) == "bool") and s[1][0] != 0:
                    # controlling conditions
                    deps = set()
                    for sb in range(B.n):
                        t = B.blocks[sb]["t"]
                        if t[0] != "switch" or sb == bi or not B.dominates(sb, bi):
                            continue
                        succs = B.succ[sb]
                        reach = [bi == x or bi in B.reachable(x, avoid={sb}) for x in succs]
                        if any(reach) and not all(reach):
                            deps |= call_slice(B, t[1])
                    if not any(last(d) == "is_young" for d in deps):
                        continue
                    found_flag = True
                    r.instance("%s:remembered-flag" % p, sample={"fn": p, "depends_on": sorted(last(d) for d in deps)})
                    if ev not in deps:
                        r.violation(RT + "gc::swiper::minor::CopyTask::trace_promoted_object:remembered-decision-on-pre-copy-address",
                                    "the old→young bookkeeping is decided without looking at the address returned by "
                                    "evacuate_object: when promoting the child fails (old generation full) it stays "
                                    "young, the promoted parent is not remembered, and the next minor collection "
                                    "drops the child", "%s (bb%d)" % (B.file, bi))
        for x in B.calls:
            if x.name and last(x.name) == "relocate" and len(x.args) > 1:
                found_reloc = True
                sl = call_slice(B, x.args[1])
                r.instance("%s:relocate" % p, sample={"fn": p, "address_from": sorted(last(d) for d in sl)})
                if ev not in sl:
                    r.violation("%s:slot-relocated-to-pre-copy-address" % p,
                                "a slot is relocated to an address that does not come from evacuate_object", x.where())
    r.anchor("trace_promoted_object: remembered-set flag", found_flag)
    r.anchor("trace_promoted_object: slot.relocate", found_reloc)


def run(chk, F):
    c = F.crate("dora_runtime")
    cg = CallGraph(F)
    rule_r1(chk, F, c, cg)
    rule_r2(chk, F, c, cg)
    rule_r3(chk, F, cg)
    rule_r4(chk, F)
    rule_r6(chk, F, c, cg)
    rule_r7(chk, F, c)
    # clause (d): address-keyed tables re-hash before use after a collection — same engine as C09.R4
    from rules import c09
    c09.rule_r4(chk, c, cg, rid="C03.R5")
    chk.assumptions += [
        "decides root-source completeness, rooting discipline of mutator-context native code, barrier parity and "
        "shared layout constants; the copying/marking algorithms themselves and OOM behaviour are not decided",
        "call graph is conservative: dyn/trait calls expand to all workspace impls; closure creation counts as a call",
        "GC-internal modules (gc/**, snapshot) run with the world stopped and are out of scope of R2",
    ]


def rule_r7(chk, F, c):
    """C03.R7: the minor collector's copy path allocates an object's new location either from the worker's local
    allocation buffer (small objects) or directly from the generation (mid-sized ones), decided by a size threshold;
    when the worker loses the race for the forwarding pointer it *undoes* the allocation — by rewinding the buffer's top
    or by overwriting the copy with a filler.  Rewinding the buffer for an object that was never taken from it moves
    `top` below objects already copied in this collection (they are overwritten by later copies).  So every branch that
    leads to the buffer rewind must be taken under the same threshold as the branch that leads to the buffer
    allocation.  The buffer type, its allocate/rewind methods and the thresholds are derived."""
    r = chk.rule("C03.R7", "minor collection: the branch that rewinds a worker's allocation buffer (undo of a lost copy) "
                           "is taken under the same size threshold as the branch that allocates from that buffer")
    mod = "dora_runtime::gc::swiper::minor::"
    fns = {p: b for p, b in c.hir.items() if p.startswith(mod)}
    if not r.anchor("gc/swiper/minor.rs functions", fns):
        return
    # the buffer: the type with a method that subtracts from its own `top` field (rewind) and one that adds (bump)
    rewind, bump = None, None
    for p, b in fns.items():
        for n in hirq.walk(b["body"]):
            if n[0] == "assign" and hirq.is_node(n[1]) and n[1][0] == "field" and n[1][2] == "top":
                txt = hirq.render(n[2])
                if " Sub " in txt and rewind is None and "size" in txt:
                    rewind = p
        if last(p) == "allocate" and "Lab" in p:
            bump = p
    if not (r.anchor("buffer rewind method (assigns top - size)", rewind) and
            r.anchor("buffer allocation method (Lab::allocate)", bump)):
        return

    def reaches(body, target, depth=0, seen=None):
        seen = seen if seen is not None else set()
        for n in hirq.walk(body):
            callee = None
            if n[0] == "mcall" and n[2]:
                callee = n[2]
            elif n[0] == "call" and hirq.is_node(n[2]) and n[2][:2] == ["def", "fn"]:
                callee = n[2][2]
            if callee is None:
                continue
            if callee == target:
                return True
            if callee in fns and callee not in seen and depth < 3:
                seen.add(callee)
                if reaches(fns[callee]["body"], target, depth + 1, seen):
                    return True
        return False

    th = {"alloc": {}, "undo": {}}

    def bound_of(cond, truth):
        """upper bound on the size implied by `cond == truth`: (constant name, offset) meaning size <= C + offset"""
        cond = hirq.strip(cond)
        if hirq.is_node(cond) and cond[0] == "un" and cond[1] == "Not":
            return bound_of(cond[2], not truth)
        if not (hirq.is_node(cond) and cond[0] == "bin" and cond[1] in ("Lt", "Le", "Gt", "Ge")):
            return None
        rhs = hirq.strip(cond[3])
        if not (hirq.is_node(rhs) and rhs[0] == "def" and rhs[1] == "const"):
            return None
        op = cond[1]
        if not truth:
            op = {"Lt": "Ge", "Le": "Gt", "Gt": "Le", "Ge": "Lt"}[op]
        if op == "Lt":
            return (last(rhs[2]), -1)
        if op == "Le":
            return (last(rhs[2]), 0)
        return None                                   # a lower bound says nothing about which objects use the buffer

    def diverges(e):
        return any(hirq.is_node(n) and n[0] in ("ret", "break", "continue") for n in hirq.walk(e))

    def scan(p, stmts_or_expr, conds):
        """walk a body keeping the conditions that hold; record the bounds under which each target is reached"""
        e = stmts_or_expr
        if not hirq.is_node(e):
            return
        if e[0] == "block":
            held = list(conds)
            for st in list(e[1]) + ([e[2]] if e[2] is not None else []):
                scan(p, st, held)
                st_ = hirq.strip(st)
                if hirq.is_node(st_) and st_[0] == "if" and st_[1][0] != "letx" and st_[3] is None and diverges(st_[2]):
                    held = held + [(st_[1], False)]          # `if c { …; return }` — afterwards c is false
            return
        if e[0] == "if" and e[1][0] != "letx":
            scan(p, e[2], conds + [(e[1], True)])
            if e[3] is not None:
                scan(p, e[3], conds + [(e[1], False)])
            return
        callee = None
        if e[0] == "mcall" and e[2]:
            callee = e[2]
        elif e[0] == "call" and hirq.is_node(e[2]) and e[2][:2] == ["def", "fn"]:
            callee = e[2][2]
        if callee is not None:
            for kind, target in (("alloc", bump), ("undo", rewind)):
                hit = callee == target or (callee in fns and reaches(fns[callee]["body"], target))
                if hit:
                    for (c_, t_) in conds:
                        b_ = bound_of(c_, t_)
                        if b_ is not None:
                            th[kind].setdefault(b_, []).append(p)
        for x in e[1:]:
            if isinstance(x, list):
                if x and isinstance(x[0], str):
                    scan(p, x, conds)
                else:
                    for y in x:
                        if isinstance(y, list) and y and isinstance(y[0], str):
                            scan(p, y, conds)
                        elif isinstance(y, list):
                            for z in y:
                                if isinstance(z, list) and z and isinstance(z[0], str):
                                    scan(p, z, conds)

    for p, b in sorted(fns.items()):
        scan(p, b["body"], [])
    for kind in ("alloc", "undo"):
        for k, ps in sorted(th[kind].items()):
            for p in ps:
                r.instance("%s:%s:%s%+d" % (kind, p, k[0], k[1]),
                           sample={"branch_to": kind, "function": last(p), "size_at_most": "%s%+d" % k})
    r.floor("threshold branches leading to the buffer allocation", sum(len(v) for v in th["alloc"].values()), 2)
    r.floor("threshold branches leading to the buffer rewind", sum(len(v) for v in th["undo"].values()), 1)
    a, u = set(th["alloc"]), set(th["undo"])
    if a and u and a != u:
        for k in sorted(u - a):
            for p in th["undo"][k]:
                r.violation("%s:rewind-under:%s%+d:allocation-under:%s" % (
                                p, k[0], k[1], "|".join("%s%+d" % x for x in sorted(a))),
                            "%s rewinds the worker's allocation buffer for objects of size up to %s, but the buffer is "
                            "only used for objects up to %s: a mid-sized object that lost the forwarding race was allocated "
                            "directly from the generation, and rewinding the buffer by its size moves `top` below "
                            "objects already copied in this collection (later copies overwrite them; with no buffer "
                            "yet, `top` underflows)" % (last(p), "%s%+d" % k, "/".join("%s%+d" % x for x in sorted(a))),
                            "%s:%d" % (fns[p]["file"], fns[p]["line"]))

"""C04 — no managed thread runs while the world is stopped.

Decides the *shape* of the stop-the-world protocol in dora-runtime (safepoint.rs / threads.rs):
ordering and pairing (MIR dominators/post-dominators), the legal set of atomic transitions of the
per-thread state byte and their follow-ups (typestate table), blocking only while parked (effect
analysis over the call graph), no lock guard held across a park, condition waits in re-checking
loops, and the compiled poll.  Sufficiency over all interleavings is NOT decided (model checking).
"""
import cfg
import hirq
from callgraph import CallGraph

RT = "dora_runtime::"
LOCK = "lock_api::mutex::Mutex::<R, T>::lock"
CV_WAIT = ("parking_lot::condvar::Condvar::wait", "parking_lot::condvar::Condvar::wait_for",
           "parking_lot::condvar::Condvar::wait_until", "parking_lot::condvar::Condvar::wait_while")
ATOMIC_WRITES = {"store", "swap", "fetch_or", "fetch_and", "fetch_xor", "fetch_add", "fetch_sub", "fetch_nand",
                 "fetch_max", "fetch_min", "fetch_update", "compare_exchange", "compare_exchange_weak",
                 "compare_and_swap", "get_mut", "as_ptr"}


def one(r, what, xs):
    r.anchor(what, len(xs) >= 1)
    return xs[0] if xs else None


def last(p):
    return p.rsplit("::", 1)[-1]


def is_thread_list_guard(ty):
    return "MutexGuard<" in ty and "Vec<alloc::sync::Arc<dora_runtime::threads::DoraThread" in ty


# --------------------------------------------------------------------------- R1
def rule_r1(chk, c):
    r = chk.rule("C04.R1", "stop_the_world: thread-list lock → stop_threads → operation → resume_threads, guard held "
                           "throughout, all inside parked_scope; invoke_safepoint_operation brackets the operation "
                           "with set_state(Safepoint)/set_state(Running)")
    stw = c.mir_fn("safepoint::stop_the_world")
    if not r.anchor("dora_runtime::safepoint::stop_the_world", stw):
        return
    B = cfg.Body(stw)
    ps = B.calls_to("threads::parked_scope")
    r.anchor("stop_the_world calls parked_scope", ps)
    # nothing protocol-relevant happens outside the closure
    for call in B.calls:
        if call.name and last(call.name) in ("stop_threads", "resume_threads", "invoke_safepoint_operation"):
            r.violation("dora_runtime::safepoint::stop_the_world:%s-outside-parked_scope" % last(call.name),
                        "%s is called outside the parked_scope closure: the initiating thread would still count as "
                        "Running while it waits for the others" % last(call.name), call.where())
    closures = [p for p in c.mir if p.startswith("dora_runtime::safepoint::stop_the_world::{closure")]
    body = None
    for p in closures:
        b2 = cfg.Body(c.mir[p])
        if b2.calls_to("safepoint::stop_threads"):
            body = b2
    if not r.anchor("closure of stop_the_world calling stop_threads", body):
        return
    # the closure is the one handed to parked_scope
    defs = cfg.simple_defs(B)
    passed = False
    for call in ps:
        for a in call.args:
            o = cfg.origin(B, a, defs)
            if o[0] == "agg" and o[1][0] == "closure" and o[1][1] == body.path:
                passed = True
    r.instance("stop_the_world:closure-passed-to-parked_scope")
    if not passed:
        r.violation("dora_runtime::safepoint::stop_the_world:closure-not-passed-to-parked_scope",
                    "the closure that stops the threads is not the argument of parked_scope", B.file)
    L = [x for x in body.calls if x.name == LOCK and is_thread_list_guard(body.local_ty(x.dest[0]))]
    S = body.calls_to("safepoint::stop_threads")
    R = body.calls_to("safepoint::resume_threads")
    I = body.calls_to("safepoint::invoke_safepoint_operation")
    key = body.path
    if not (r.anchor("threads.lock() in closure", L) and r.anchor("stop_threads call", S)
            and r.anchor("resume_threads call", R) and r.anchor("invoke_safepoint_operation call", I)):
        return
    lock, s, res = L[0], S[0], R[0]
    r.instance(key + ":lock-dom-stop", sample={"fn": key, "lock": lock.where(), "stop": s.where(), "resume": res.where()})
    if not body.dominates(lock.block, s.block):
        r.violation(key + ":lock-does-not-dominate-stop_threads",
                    "stop_threads can be reached without holding the thread-list lock: a thread can register or "
                    "deregister during the operation and is left out", s.where())
    multi = [i for i in I if body.dominates(s.block, i.block)]
    single = [i for i in I if not body.dominates(s.block, i.block)]
    r.instance(key + ":operation-between-stop-and-resume")
    if not multi:
        r.violation(key + ":operation-not-after-stop_threads",
                    "no invoke_safepoint_operation call is dominated by stop_threads", s.where())
    for i in multi:
        rets = set(body.exits())
        esc = body.reachable_from_succ(i.block, avoid={res.block}) & rets
        if esc or not body.dominates(i.block, res.block):
            r.violation(key + ":resume_threads-not-after-operation",
                        "a path from the safepoint operation to the return skips resume_threads (threads stay "
                        "stopped forever) or resume precedes the operation", res.where())
    for i in single:
        # the single-thread shortcut must be guarded by len()==1 under the lock
        lens = [x for x in body.calls if x.name and x.name.endswith("Vec::<T, A>::len") and
                body.dominates(x.block, i.block) and body.dominates(lock.block, x.block)]
        r.instance(key + ":single-thread-shortcut")
        ok = False
        for x in lens:
            for blk in body.blocks:
                for st in blk["s"]:
                    if st[0] == "a" and st[2][0] == "bin" and st[2][1] == "Eq":
                        ops = st[2][2:4]
                        consts = [o for o in ops if o[0] == "k" and o[1].get("v") == 1]
                        locs = [o for o in ops if o[0] in ("c", "m") and o[1][0] == x.dest[0]]
                        if consts and locs:
                            ok = True
        if not ok:
            r.violation(key + ":unstopped-operation",
                        "invoke_safepoint_operation is reachable without stop_threads and without the "
                        "`threads.len() == 1` test under the lock", i.where())
    # guard must stay alive until resume_threads returned
    g = lock.dest[0]
    r.instance(key + ":guard-held-until-resume")
    for bi, blk in enumerate(body.blocks):
        t = blk["t"]
        dropped = t[0] == "drop" and t[1][0] == g and not t[1][1]
        moved = t[0] == "call" and any(
            a[0] == "m" and not a[1][1] and body.local_ty(a[1][0]).startswith("lock_api::mutex::MutexGuard<")
            and base_local(body, a) == g for a in t[1]["a"])
        if (dropped or moved) and not blk["c"]:
            if bi in body.reachable_from_succ(s.block, avoid={res.block}) or bi == s.block:
                r.violation(key + ":thread-list-guard-released-before-resume",
                            "the thread-list MutexGuard is dropped between stop_threads and resume_threads: threads "
                            "can start or exit while the world is stopped", "%s (bb%d)" % (body.file, bi))
    # invoke_safepoint_operation
    iso = c.mir_fn("safepoint::invoke_safepoint_operation")
    if not r.anchor("dora_runtime::safepoint::invoke_safepoint_operation", iso):
        return
    IB = cfg.Body(iso)
    sets = IB.calls_to("runtime::Runtime::set_state")
    ops = [x for x in IB.calls if x.fn and x.fn.get("tr", "").startswith("core::ops::function::Fn")]
    r.anchor("operation(threads) call", ops)
    defs = cfg.simple_defs(IB)

    def state_arg(call):
        o = cfg.origin(IB, call.args[1], defs)
        if o[0] == "agg" and o[1][0] == "adt":
            return o[1][2]
        return None
    sp = [x for x in sets if state_arg(x) == "Safepoint"]
    ru = [x for x in sets if state_arg(x) == "Running"]
    r.instance(IB.path + ":set_state-brackets-operation")
    if not ops:
        return
    op = ops[0]
    if not sp or not IB.dominates(sp[0].block, op.block):
        r.violation(IB.path + ":set_state(Safepoint)-does-not-dominate-operation",
                    "the operation can run without the runtime state being Safepoint", op.where())
    if not ru or not IB.postdominates(ru[0].block, op.block) or not IB.dominates(op.block, ru[0].block):
        r.violation(IB.path + ":set_state(Running)-does-not-follow-operation",
                    "the runtime state is not reset to Running on every path after the operation", op.where())


# --------------------------------------------------------------------------- R2
def recv_is_tld_state(B, call, defs):
    if not call.args:
        return False
    o = cfg.origin(B, call.args[0], defs)
    proj = o[-1] if isinstance(o[-1], list) else []
    names = [p for p in proj if p.startswith(".")]
    return ".state" in names and (".tld" in names or "ThreadLocalData" in B.local_ty(o[1]) if o[0] in (
        "param", "local") else ".tld" in names)


def atomic_calls(B, method):
    defs = cfg.simple_defs(B)
    out = []
    for x in B.calls:
        if x.name and x.name.startswith("core::sync::atomic::Atomic") and last(x.name) == method \
                and recv_is_tld_state(B, x, defs):
            out.append(x)
    return out


def rule_r2(chk, c):
    r = chk.rule("C04.R2", "stop_threads arms the barrier before requesting any safepoint and waits afterwards; "
                           "resume_threads resets every state before disarming; safepoint_slow: swap(Safepoint) → "
                           "wait_in_safepoint → unpark")
    st = c.mir_fn("safepoint::stop_threads")
    if r.anchor("dora_runtime::safepoint::stop_threads", st):
        B = cfg.Body(st)
        arm = B.calls_to("threads::Barrier::arm")
        fo = atomic_calls(B, "fetch_or")
        wait = B.calls_to("threads::Barrier::wait_until_threads_stopped")
        r.anchor("stop_threads: Barrier::arm", arm)
        r.anchor("stop_threads: fetch_or on tld.state", fo)
        r.anchor("stop_threads: wait_until_threads_stopped", wait)
        if arm and fo and wait:
            for f in fo:
                r.instance(B.path + ":arm-dom-fetch_or", sample={"arm": arm[0].where(), "fetch_or": f.where()})
                if not B.dominates(arm[0].block, f.block):
                    r.violation(B.path + ":fetch_or-before-arm",
                                "a thread's state is set to SafepointRequested before the barrier is armed: a thread "
                                "that polls immediately asserts/blocks on an unarmed barrier, or the stop count is "
                                "reset after it was counted", f.where())
                if f.block in B.reachable_from_succ(wait[0].block):
                    r.violation(B.path + ":fetch_or-after-wait", "safepoint requested after waiting for the threads",
                                f.where())
            r.instance(B.path + ":wait-postdominates")
            if not B.postdominates(wait[0].block, 0):
                r.violation(B.path + ":wait_until_threads_stopped-skippable",
                            "stop_threads can return without waiting for the requested threads", wait[0].where())
            # the running counter is incremented exactly for threads observed Running
            running_cmp = False
            for blk in B.blocks:
                for s in blk["s"]:
                    if s[0] == "a" and s[2][0] == "bin" and s[2][1] == "Eq":
                        for o in s[2][2:4]:
                            if o[0] in ("c", "m"):
                                oo = cfg.origin(B, o)
                                if oo[0] == "const" and "ThreadState::Running" in (oo[1].get("const") or ""):
                                    running_cmp = True
                                if oo[0] == "bin" and any(
                                        x[0] == "k" and "ThreadState::Running" in (x[1].get("const") or "")
                                        for x in oo[2:4]):
                                    running_cmp = True
            r.instance(B.path + ":counts-Running")
            if not running_cmp:
                r.violation(B.path + ":running-count-not-compared-with-Running",
                            "the number of threads to wait for is not derived from `previous state == Running`",
                            B.file)
    rs = c.mir_fn("safepoint::resume_threads")
    if r.anchor("dora_runtime::safepoint::resume_threads", rs):
        B = cfg.Body(rs)
        sw = atomic_calls(B, "swap")
        dis = B.calls_to("threads::Barrier::disarm")
        r.anchor("resume_threads: swap on tld.state", sw)
        r.anchor("resume_threads: Barrier::disarm", dis)
        if sw and dis:
            for s in sw:
                r.instance(B.path + ":swap-before-disarm", sample={"swap": s.where(), "disarm": dis[0].where()})
                if s.block in B.reachable_from_succ(dis[0].block) or not B.dominates(s.block, dis[0].block) and \
                        not (dis[0].block in B.reachable_from_succ(s.block)):
                    r.violation(B.path + ":disarm-before-state-reset",
                                "the barrier is disarmed before every thread's state was reset: a woken thread sees "
                                "a stale SafepointRequested/Safepoint state", dis[0].where())
            if not B.postdominates(dis[0].block, 0):
                r.violation(B.path + ":disarm-skippable", "resume_threads can return without disarming", dis[0].where())
    sl = c.mir_fn("safepoint::safepoint_slow")
    if r.anchor("dora_runtime::safepoint::safepoint_slow", sl):
        B = cfg.Body(sl)
        sw = atomic_calls(B, "swap")
        w = B.calls_to("threads::Barrier::wait_in_safepoint")
        u = B.calls_to("threads::DoraThread::unpark")
        r.anchor("safepoint_slow: swap", sw)
        r.anchor("safepoint_slow: wait_in_safepoint", w)
        r.anchor("safepoint_slow: unpark", u)
        if sw and w and u:
            r.instance(B.path + ":swap→wait→unpark")
            if not (B.dominates(sw[0].block, w[0].block) and B.dominates(w[0].block, u[0].block)
                    and B.postdominates(u[0].block, w[0].block)):
                r.violation(B.path + ":order",
                            "safepoint_slow must publish Safepoint, then wait in the barrier, then unpark", B.file)


# --------------------------------------------------------------------------- R3
ALLOWED = {
    # (method, constants) — the transition relation of the thread-state protocol
    ("compare_exchange", ("Running", "Parked")): "enter native/blocked: park fast path",
    ("compare_exchange", ("SafepointRequested", "ParkedSafepointRequested")): "park while a stop is pending",
    ("compare_exchange", ("Parked", "Running")): "leave native: unpark (fails while a stop is pending)",
    ("fetch_or", ("SafepointRequested",)): "initiator requests a safepoint",
    ("swap", ("Parked",)): "initiator resets every thread after the operation",
    ("swap", ("Safepoint",)): "thread acknowledges the request at a poll",
}


def state_sites(F):
    """every atomic write on ThreadLocalData::state in the workspace (HIR, typed receiver)"""
    sites = []
    for crate in F.all_crates():
        for p, b in crate.hir.items():
            for cs in hirq.calls(b["body"]):
                if not cs.is_method or cs.name not in ATOMIC_WRITES:
                    continue
                rc = hirq.strip(cs.recv)
                if not (hirq.is_node(rc) and rc[0] == "field" and rc[2] == "state" and len(rc) > 3
                        and rc[3].endswith("threads::ThreadLocalData")):
                    continue
                consts = []
                for a in cs.args:
                    d = hirq.def_path(a)
                    if d and "::ThreadState::" in d:
                        consts.append(last(d))
                sites.append((p, cs, tuple(consts), b))
    return sites


def rule_r3(chk, F, c):
    r = chk.rule("C04.R3", "every atomic write on ThreadLocalData::state is one of the six protocol transitions, with "
                           "its required follow-up; bit algebra of the state enum")
    abi = F.crate("dora_compiler")
    ts = abi.adt("abi::ThreadState")
    if r.anchor("dora_compiler::abi::ThreadState", ts):
        d = {v["name"]: v["discr"] for v in ts["variants"]}
        r.instance("ThreadState:bit-algebra", sample=d)
        need = ["Running", "Parked", "SafepointRequested", "ParkedSafepointRequested", "Safepoint"]
        if not all(n in d for n in need):
            r.violation("ThreadState:variants", "expected variants %s" % need, ts["file"])
        else:
            if d["Running"] != 0:
                r.violation("ThreadState:Running!=0", "the compiled poll compares the state byte with 0 (Running)",
                            ts["file"])
            if (d["Running"] | d["SafepointRequested"]) != d["SafepointRequested"] or \
                    (d["Parked"] | d["SafepointRequested"]) != d["ParkedSafepointRequested"]:
                r.violation("ThreadState:fetch_or-algebra",
                            "fetch_or(SafepointRequested) must map Running→SafepointRequested and "
                            "Parked→ParkedSafepointRequested", ts["file"])
            if len(set(d.values())) != len(d):
                r.violation("ThreadState:duplicate-discriminants", "two states share a value", ts["file"])
    sites = state_sites(F)
    r.floor("atomic writes on tld.state", len(sites), 7)
    for (p, cs, consts, b) in sites:
        key = "%s:%s(%s)" % (p, cs.name, ",".join(consts))
        r.instance(key, sample={"fn": p, "op": cs.name, "states": list(consts), "line": cs.line})
        if (cs.name, consts) not in ALLOWED:
            r.violation(key, "`%s(%s)` on the thread state is not a transition of the stop-the-world protocol "
                             "(allowed: %s)" % (cs.name, ", ".join(consts),
                                                "; ".join("%s(%s)" % (m, ",".join(k)) for (m, k) in ALLOWED)),
                        "%s:%d" % (b["file"], cs.line))
            continue
        mb = c.mir.get(p)
        if mb is None:
            continue
        B = cfg.Body(mb)
        at = [x for x in atomic_calls(B, cs.name) if x.line == cs.line] or atomic_calls(B, cs.name)
        if not at:
            continue
        a = at[0]

        def followed_by(name, a=a, B=B):
            t = B.calls_to(name)
            return any(x.block in B.reachable_from_succ(a.block) for x in t)
        if (cs.name, consts) == ("compare_exchange", ("SafepointRequested", "ParkedSafepointRequested")):
            if not followed_by("threads::Barrier::notify_park"):
                r.violation(p + ":park-without-notify",
                            "parking while a stop is pending must notify the barrier, or the initiator waits forever",
                            a.where())
        if (cs.name, consts) == ("compare_exchange", ("Parked", "Running")):
            # failure must be handled: a slow path that waits in the barrier
            slow = followed_by("threads::DoraThread::unpark_slow") or followed_by("threads::Barrier::wait_in_unpark")
            if not slow:
                r.violation(p + ":unpark-ignores-failure",
                            "a failed Parked→Running exchange (stop pending) must wait in the barrier before retrying",
                            a.where())
        if (cs.name, consts) == ("swap", ("Safepoint",)):
            if not followed_by("threads::Barrier::wait_in_safepoint"):
                r.violation(p + ":ack-without-wait", "acknowledging a safepoint must be followed by waiting in the "
                                                     "barrier", a.where())
    # unpark_slow: tolerated failure value
    us = c.hir_fn("threads::DoraThread::unpark_slow")
    if r.anchor("dora_runtime::threads::DoraThread::unpark_slow", us):
        txt = repr(us["body"])
        r.instance("unpark_slow:tolerates-only-PSR")
        if "ThreadState::ParkedSafepointRequested" not in txt or "wait_in_unpark" not in txt:
            r.violation("dora_runtime::threads::DoraThread::unpark_slow:failure-handling",
                        "the retry loop must assert the observed state is ParkedSafepointRequested and wait_in_unpark",
                        us["file"])
        loops = [n for n in hirq.walk(us["body"]) if n[0] == "loop"]
        if not loops:
            r.violation("dora_runtime::threads::DoraThread::unpark_slow:no-retry-loop",
                        "unpark_slow must retry the exchange after waiting", us["file"])


# --------------------------------------------------------------------------- R4/R5 context
class Ctx:
    """parked-context analysis: is a call site executed while the current thread counts as stopped?"""
    WRAPPERS = ("dora_runtime::threads::parked_scope", "dora_runtime::safepoint::stop_the_world")
    UNREGISTERED = ("scoped_threadpool::Scope::<'pool, 'scope>::execute",)   # GC pool workers are never registered

    def __init__(self, cg):
        self.cg = cg
        self.memo = {}
        self.bodies = {}
        self.closure_ctx = {}      # closure path -> ('wrapper'|'unregistered'|('site', g, block))
        for p in cg.bodies:
            if not p.startswith(RT):
                continue
            B = self.body(p)
            defs = None
            for bi, blk in enumerate(B.blocks):
                for s in blk["s"]:
                    if s[0] == "a" and s[2][0] == "agg" and s[2][1][0] == "closure":
                        self.closure_ctx.setdefault(s[2][1][1], ("site", p, bi))
            for call in B.calls:
                for a in call.args:
                    if a[0] == "k":
                        continue
                    if defs is None:
                        defs = cfg.simple_defs(B)
                    o = cfg.origin(B, a, defs)
                    if o[0] == "agg" and o[1][0] == "closure":
                        if call.name in self.WRAPPERS:
                            self.closure_ctx[o[1][1]] = ("wrapper",)
                        elif call.name and any(call.name.startswith(u.split("<")[0]) for u in self.UNREGISTERED):
                            self.closure_ctx[o[1][1]] = ("unregistered",)

    def body(self, p):
        if p not in self.bodies:
            self.bodies[p] = self.cg.body(p)
        return self.bodies[p]

    def returns_parked(self, p, stack=()):
        """p leaves the current thread parked on every normal return (park … no unpark afterwards)"""
        if p == RT + "threads::DoraThread::park":
            return True
        key = ("rp", p)
        if key in self.memo:
            return self.memo[key]
        if p in stack or p not in self.cg.bodies or not p.startswith(RT):
            return False
        self.memo[key] = False
        B = self.body(p)
        exits = B.exits()
        res = False
        unparks = [x for x in B.calls if x.name == RT + "threads::DoraThread::unpark"]
        for x in B.calls:
            if x.name and x.name.startswith(RT) and x.name != p and self.returns_parked(x.name, stack + (p,)):
                if exits and all(B.dominates(x.block, e) for e in exits):
                    after = B.reachable_from_succ(x.block)
                    if not any(u.block in after for u in unparks):
                        res = True
        self.memo[key] = res
        return res

    def site_parked(self, p, block, stack=()):
        """must-analysis: on every path from the entry of p to `block` the thread was parked last
        (a call to a returns-parked function with no unpark after it)"""
        B = self.body(p)
        parks = {x.block for x in B.calls if x.name and x.name.startswith(RT) and self.returns_parked(x.name)}
        unparks = {x.block for x in B.calls if x.name == RT + "threads::DoraThread::unpark"}
        if parks:
            reach = B.reachable(0)
            state_in = {b: True for b in reach}
            state_in[0] = False
            changed = True
            order = [b for b in B._rpo(0)]
            while changed:
                changed = False
                for b in order:
                    if b != 0:
                        ps = [q for q in B.pred[b] if q in reach]
                        v = all((True if q in parks else (False if q in unparks else state_in[q])) for q in ps) \
                            if ps else False
                        if v != state_in[b]:
                            state_in[b] = v
                            changed = True
            if state_in.get(block, False):
                return True
        return self.fn_parked(p, stack)

    def fn_parked(self, p, stack=()):
        if p in self.memo:
            return self.memo[p]
        if p in stack:
            return False
        cc = self.closure_ctx.get(p)
        res = False
        if cc is not None:
            if cc[0] in ("wrapper", "unregistered"):
                res = True
            else:
                res = self.site_parked(cc[1], cc[2], stack + (p,))
        else:
            callers = [g for g in self.cg.redges.get(p, ()) if g in self.cg.bodies]
            sites = []
            for g in callers:
                G = self.body(g)
                for call in G.calls:
                    tg = [t for (t, k) in self.cg.targets(call.fn)] if call.fn else []
                    if p in tg:
                        sites.append((g, call.block))
                # address-taken references count as unknown context
                if self.cg.edge_kind.get((g, p)) == "ref" and not any(s[0] == g for s in sites):
                    sites.append((g, None))
            if sites:
                res = all(b is not None and self.site_parked(g, b, stack + (p,)) for (g, b) in sites)
        self.memo[p] = res
        return res


PROTOCOL_EXEMPT = {
    # the barrier's own mutex/condvars *are* the protocol objects; their use is decided by R1–R3 and R6
    "dora_runtime::threads::Barrier::": "barrier internals (protocol object itself)",
}
STARTUP_EXEMPT = {
    "dora_runtime::threads::Threads::add_main_thread": "runs at start-up before a second thread exists; asserts the "
                                                       "list is empty",
}


def rule_r4(chk, F, c, cg, ctx):
    r = chk.rule("C04.R4", "calls that can block for the duration of a stop-the-world (thread-list lock, condvar "
                           "waits, thread joins, file/socket I/O) are executed only while the thread is parked")
    sites = 0
    io_prefixes = ("std::fs::", "std::net::", "<std::fs::", "<std::net::", "std::io::stdio::Stdin",
                   "<std::io::stdio::Stdin")
    for p in sorted(cg.bodies):
        if not p.startswith(RT):
            continue
        B = ctx.body(p)
        for call in B.calls:
            n = call.name or ""
            kind = None
            if n == LOCK and is_thread_list_guard(B.local_ty(call.dest[0])):
                kind = "thread-list lock"
            elif n in CV_WAIT:
                kind = "condvar wait"
            elif "std::thread::JoinHandle" in n and last(n) == "join":
                kind = "thread join"
            elif p.startswith(RT + "stdlib::io::") and n.startswith(io_prefixes) and last(n) not in (
                    "new", "from_raw_fd", "into_raw_fd", "as_raw_fd", "fmt", "drop", "options", "append", "create",
                    "write", "read", "truncate") or (p.startswith(RT + "stdlib::io::") and n.startswith(
                    ("<std::fs::File as std::io::", "<std::net::tcp::TcpStream as std::io::",
                     "std::fs::OpenOptions::open", "std::fs::File::open", "std::fs::File::create"))):
                kind = "blocking I/O"
            if kind is None:
                continue
            sites += 1
            key = "%s:%s" % (p, kind)
            exempt = None
            for pre, why in PROTOCOL_EXEMPT.items():
                if p.startswith(pre):
                    exempt = why
            if p in STARTUP_EXEMPT:
                exempt = STARTUP_EXEMPT[p]
                # side condition: only reachable from runtime start-up, never from a native entry
            parked = exempt is not None or ctx.site_parked(p, call.block)
            r.instance(key, sample={"fn": p, "kind": kind, "callee": n, "at": call.where(),
                                    "parked_by": exempt or "park/parked_scope context"})
            if not parked:
                r.violation(key, "%s (%s) can execute while the thread is Running: a stop-the-world started by "
                                 "another thread then waits for a thread that is blocked and never polls — deadlock"
                            % (kind, last(n)), call.where())
    r.floor("blocking call sites", sites, 15)
    for p in STARTUP_EXEMPT:
        callers = sorted(g for g in cg.redges.get(p, ()))
        r.observe("%s exempt (%s); callers: %s" % (p, STARTUP_EXEMPT[p], callers))
        natives = native_entries(F)
        reach = cg.reachable_from(natives)
        if p in reach:
            r.violation(p + ":startup-exemption-broken",
                        "%s is reachable from a native entry point, so it can run while other threads exist" % p, p)


def rule_r9(chk, F, c, cg, ctx):
    """Dual of R4: while a thread counts as parked, a stop-the-world operation does not wait for it — so it must not
    touch the managed heap.  `park(); make_iterable_current()` (filling the TLAB *after* parking) lets a collection run
    between the read of the TLAB bounds and the write of the filler object, which then lands in re-used memory."""
    r = chk.rule("C04.R9", "between park and unpark (and inside parked_scope closures) the runtime calls nothing that "
                           "reads or writes managed-heap memory through a raw address")
    PARK = RT + "threads::DoraThread::park"
    UNPARK = RT + "threads::DoraThread::unpark"
    TO_PTR = RT + "gc::Address::to_"
    # raw heap accessors: functions that dereference a pointer obtained from Address::to_ptr / to_mut_ptr
    acc = set()
    for p in cg.bodies:
        if not p.startswith(RT):
            continue
        B = ctx.body(p)
        if not any(x.name and x.name.startswith(TO_PTR) for x in B.calls):
            continue
        defs = cfg.simple_defs(B)

        def from_addr(local):
            o = cfg.origin_place(B, local, [], defs)
            return o[0] == "call" and (cfg.callee_name(cfg.callee_of(o[1]["f"])) or "").startswith(TO_PTR)
        hit = False
        for blk in B.blocks:
            for st in blk["s"]:
                if st[0] != "a":
                    continue
                if st[1][1] and st[1][1][0] == "*" and from_addr(st[1][0]):
                    hit = True
                rv = st[2]
                if rv[0] == "use" and rv[1][0] in ("c", "m") and rv[1][1][1] and rv[1][1][1][0] == "*" and from_addr(rv[1][1][0]):
                    hit = True
        if hit:
            acc.add(p)
    r.floor("raw heap accessors (deref of Address::to_ptr/to_mut_ptr)", len(acc), 8)
    memo = {}

    def touches(f):
        if f not in memo:
            memo[f] = sorted(cg.reachable_from([f]) & acc)
        return memo[f]

    def parked_blocks(B):
        parks = {x.block for x in B.calls if x.name and x.name.startswith(RT) and ctx.returns_parked(x.name)}
        unparks = {x.block for x in B.calls if x.name == UNPARK}
        if not parks:
            return set()
        reach = B.reachable(0)
        st = {b: True for b in reach}
        st[0] = False
        changed = True
        order = list(B._rpo(0))
        while changed:
            changed = False
            for b in order:
                if b == 0:
                    continue
                ps = [q for q in B.pred[b] if q in reach]
                v = all((True if q in parks else (False if q in unparks else st[q])) for q in ps) if ps else False
                if v != st[b]:
                    st[b] = v
                    changed = True
        return {b for b, v in st.items() if v}
    nsites = 0
    # closures handed to parked_scope (not stop_the_world: its closure is the operation itself)
    pscope = set()
    for p in cg.bodies:
        if not p.startswith(RT):
            continue
        B = ctx.body(p)
        defs = None
        for call in B.calls:
            if call.name != RT + "threads::parked_scope":
                continue
            for a in call.args:
                if a[0] == "k":
                    continue
                defs = defs or cfg.simple_defs(B)
                o = cfg.origin(B, a, defs)
                if o[0] == "agg" and o[1][0] == "closure":
                    pscope.add(o[1][1])
    r.floor("closures handed to parked_scope", len(pscope), 8)
    for p in sorted(cg.bodies):
        if not p.startswith(RT):
            continue
        B = ctx.body(p)
        pb = set(B.reachable(0)) if p in pscope else parked_blocks(B)
        if not pb:
            continue
        for x in B.calls:
            if not x.name or not x.name.startswith(RT) or x.name in (PARK, UNPARK) or x.block not in pb:
                continue
            nsites += 1
            t = touches(x.name)
            key = "%s:%s" % (p, last(x.name))
            r.instance(key + "@%d" % x.line, sample={"fn": p, "callee": x.name, "heap": t[:2]})
            if t:
                r.violation(key + ":heap-access-while-parked",
                            "`%s` is called while the thread counts as parked (%s) and reaches %s, which reads/writes "
                            "managed-heap memory through a raw address: a stop-the-world operation does not wait for a "
                            "parked thread, so a collection can run in the middle of this access (e.g. between reading "
                            "the TLAB bounds and writing the filler) and the write lands in memory that was reclaimed "
                            "and re-used" % (last(x.name), "inside a parked_scope closure" if p in pscope
                                             else "after park(), before any unpark", last(t[0])), x.where())
    r.floor("runtime calls made while parked", nsites, 5)


def native_entries(F):
    c = F.crate("dora_runtime")
    out = []
    for f in c.items["fns"]:
        if f.get("symbol") and f.get("has_body"):
            out.append(f["path"])
    return out


def rule_r5(chk, F, c, cg, ctx):
    r = chk.rule("C04.R5", "no parking_lot MutexGuard is live across a call that may park/block for a collection "
                           "(park, unpark, parked_scope, stop_the_world, Gc::alloc) in mutator-context code")
    seeds = [RT + "threads::DoraThread::park", RT + "threads::DoraThread::unpark", RT + "threads::parked_scope",
             RT + "safepoint::stop_the_world", RT + "gc::Gc::alloc"]
    for s in seeds:
        r.anchor(s, s in cg.bodies)
    may = cg.callers_closure(seeds)
    n = 0
    for p in sorted(cg.bodies):
        if not p.startswith(RT):
            continue
        B = ctx.body(p)
        guards = [i for i, (ty, _n) in enumerate(B.locals) if ty.startswith("lock_api::mutex::MutexGuard<")]
        if not guards:
            continue
        live_in, live_out = B.liveness()
        for call in B.calls:
            tg = [t for (t, k) in cg.targets(call.fn)] if call.fn else []
            hits = [t for t in tg if t in may]
            if not hits:
                continue
            n += 1
            lo = live_out[call.block]
            # inside a wrapper closure the thread is already parked: park/unpark there are no-ops for this rule
            for g in guards:
                if g in lo and g != call.dest[0]:
                    if ctx.site_parked(p, call.block):
                        continue
                    key = "%s:guard-across:%s" % (p, last(hits[0]))
                    r.violation(key, "MutexGuard `%s` (%s) is held across a call to %s, which may park the thread "
                                     "for a collection: the collector (or another mutator that must reach a "
                                     "safepoint) can block on the same mutex — deadlock"
                                % (B.local_name(g) or "_%d" % g, B.local_ty(g)[:80], hits[0]), call.where())
            r.instance("%s:%s@bb%d" % (p, last(hits[0]), call.block), nontrivial=True)
    r.floor("may-park call sites in functions holding guards", n, 1)
    r.observe("expected count on the real tree is zero; the positive fixture in fixtures/ exercises the rule")


def base_local(B, op, defs=None):
    """the local at the root of a chain of copies / borrows / reborrows"""
    if op[0] not in ("c", "m"):
        return None
    defs = defs or cfg.simple_defs(B)
    cur = op[1][0]
    for _ in range(16):
        ds = defs.get(cur, [])
        if len(ds) != 1 or ds[0][1][0] != "a":
            return cur
        rv = ds[0][1][2]
        if rv[0] == "use" and rv[1][0] in ("c", "m"):
            cur = rv[1][1][0]
        elif rv[0] == "ref":
            cur = rv[2][0]
        elif rv[0] == "rawptr":
            cur = rv[1][0]
        else:
            return cur
    return cur


# --------------------------------------------------------------------------- R6
def rule_r6(chk, F, c, cg):
    r = chk.rule("C04.R6", "every Condvar::wait in the runtime sits in a loop that re-reads the guarded state")
    n = 0
    for p in sorted(cg.bodies):
        if not p.startswith(RT):
            continue
        B = cg.body(p)
        waits = [x for x in B.calls if x.name in CV_WAIT]
        if not waits:
            continue
        loops = B.natural_loops()
        for w in waits:
            n += 1
            key = "%s:wait" % p
            inloops = [(h, body) for (h, body) in loops if w.block in body]
            ok = False
            for (h, body) in inloops:
                # the loop must contain a branch (exit test) and read through the guard
                has_exit = any(any(s not in body for s in B.succ[b]) for b in body)
                reads_guard = False
                gl = base_local(B, w.args[1]) if len(w.args) > 1 else None
                for b in body:
                    for s in B.blocks[b]["s"]:
                        if s[0] == "a":
                            us = cfg.rvalue_uses(s[2])
                            if gl is not None and gl in us:
                                reads_guard = True
                    t = B.blocks[b]["t"]
                    if t[0] == "call" and b != w.block:
                        for a in t[1]["a"]:
                            if a[0] in ("c", "m") and base_local(B, a) == gl:
                                reads_guard = True
                if has_exit and reads_guard:
                    ok = True
            r.instance(key, sample={"fn": p, "at": w.where(), "in_loop": bool(inloops)})
            if not ok:
                r.violation(key, "Condvar::wait is not inside a loop that re-checks the guarded condition: a spurious "
                                 "or stale wake-up lets the thread continue while the world is still stopped / before "
                                 "the awaited event", w.where())
    r.floor("Condvar::wait sites", n, 8)


# --------------------------------------------------------------------------- R7
def rule_r7(chk, F):
    r = chk.rule("C04.R7", "the compiled safepoint poll compares the thread's state byte with Running; function "
                           "entries and loop back-edges emit the poll")
    cc = F.crate("dora_cannon_compiler")
    sp = None
    for p, b in cc.hir.items():
        if p.endswith("MacroAssembler>::safepoint") or p.endswith("MacroAssembler::safepoint"):
            sp = b
    if r.anchor("MacroAssembler::safepoint (x64 masm)", sp):
        txt_calls = [cs for cs in hirq.calls(sp["body"])]
        off = [cs for cs in txt_calls if cs.callee and cs.callee.endswith("::state_offset")]
        running = [n for n in hirq.walk(sp["body"]) if n[0] == "def" and n[2].endswith("ThreadState::Running")]
        cmpb = [cs for cs in txt_calls if cs.is_method and cs.name.startswith("cmpb")]
        r.instance("masm::safepoint:compares-state-with-Running",
                   sample={"state_offset_uses": len(off), "cmpb": [x.name for x in cmpb]})
        if not off:
            r.violation("MacroAssembler::safepoint:not-state-offset",
                        "the poll does not address ThreadLocalData::state", sp["file"])
        if not cmpb:
            r.violation("MacroAssembler::safepoint:not-byte-compare",
                        "the state is one byte; the poll must use a byte compare", sp["file"])
        else:
            imm = None
            for x in cmpb:
                for a in x.args:
                    v = hirq.lit_int(a)
                    if v is not None:
                        imm = v
            # Immediate(0) — compare with the discriminant of Running
            ts = F.crate("dora_compiler").adt("abi::ThreadState")
            d = {v["name"]: v["discr"] for v in ts["variants"]} if ts else {}
            lits = [hirq.lit_int(n) for n in hirq.walk(sp["body"]) if n[0] == "lit" and n[1] == "int"]
            if d.get("Running") not in lits and not running:
                r.violation("MacroAssembler::safepoint:wrong-constant",
                            "the poll's immediate is not ThreadState::Running (%s)" % d.get("Running"), sp["file"])
    # state_offset() of the layout = offset_of!(state)
    dc = F.crate("dora_compiler")
    rt = F.crate("dora_runtime")
    tld_rt = rt.adt("threads::ThreadLocalData")
    tld_abi = dc.adt("abi::ThreadLocalDataLayout")
    if r.anchor("ThreadLocalData / ThreadLocalDataLayout", tld_rt and tld_abi):
        fr = {f["name"]: f.get("offset") for f in tld_rt["variants"][0]["fields"]}
        fa = {f["name"]: f.get("offset") for f in tld_abi["variants"][0]["fields"]}
        r.instance("tld.state offset mirror", sample={"runtime": fr.get("state"), "abi": fa.get("state")})
        if fr.get("state") is None or fr.get("state") != fa.get("state"):
            r.violation("ThreadLocalData.state:offset-mismatch",
                        "runtime offset %s vs compiler ABI offset %s" % (fr.get("state"), fa.get("state")),
                        tld_rt["file"])
        D = F.dora()
        import doraq
        consts = doraq.consts(D["pkgs/boots/interface.dora"])
        v = consts.get("THREAD_LOCAL_DATA_STATE_OFFSET")
        r.instance("boots THREAD_LOCAL_DATA_STATE_OFFSET", sample={"dora": v, "rust": fr.get("state")})
        if v != fr.get("state"):
            r.violation("interface.dora:THREAD_LOCAL_DATA_STATE_OFFSET",
                        "Dora constant %s != Rust layout offset %s" % (v, fr.get("state")),
                        "pkgs/boots/interface.dora")
    # who emits the poll
    cg = CallGraph(F, libs=["dora_cannon_compiler"], bins=[])
    spath = [p for p in cg.bodies if p.endswith("MacroAssembler>::safepoint") or p.endswith("MacroAssembler::safepoint")]
    for anchor in ("CannonCodeGen::<'a>::emit_function_entry", "CannonCodeGen::<'a>::emit_safepoint"):
        pass
    cgn = [p for p in cg.bodies if "CannonCodeGen" in p]
    entry = [p for p in cgn if p.endswith("::generate")]
    loopers = [p for p in cgn if p.endswith("visit_jump_loop") or p.endswith("emit_jump_loop")
               or p.endswith("visit_loop_start")]
    if r.anchor("x64 MacroAssembler::safepoint body", spath) and r.anchor("CannonCodeGen::generate", entry):
        reach = cg.reachable_from(entry)
        r.instance("generate→safepoint")
        if not set(spath) & reach:
            r.violation("CannonCodeGen::generate:no-safepoint-poll", "function code generation never emits a poll",
                        entry[0])
        lp = [p for p in loopers if set(spath) & cg.reachable_from([p])]
        r.instance("loop-backedge→safepoint", sample={"emitters": lp})
        if not lp:
            r.violation("CannonCodeGen:loop-without-poll",
                        "no loop back-edge handler (visit_jump_loop/emit_jump_loop/visit_loop_start) reaches the "
                        "safepoint poll: a long-running loop never stops for a collection", "codegen.rs")
    # boots
    D = F.dora()
    import doraq
    for f, cls in (("pkgs/boots/codegen/x64.dora", "x64"), ("pkgs/boots/codegen/arm64.dora", "arm64")):
        t = D.get(f)
        if not r.anchor(f, t):
            continue
        fns = doraq.functions(t, f)
        es = [x for x in fns if x.name == "emit_safepoint"]
        if not r.anchor("%s emit_safepoint" % cls, es):
            continue
        txt = doraq.text(es[0].body)
        r.instance("%s:emit_safepoint uses THREAD_LOCAL_DATA_STATE_OFFSET" % cls)
        if "THREAD_LOCAL_DATA_STATE_OFFSET" not in txt:
            r.violation("%s::emit_safepoint:not-state-offset" % f,
                        "the optimizing compiler's poll does not read THREAD_LOCAL_DATA_STATE_OFFSET", es[0].where())
    # boots: the graph builder plants a Safepoint instruction at function entry and on every loop back-edge,
    # the generic code generator dispatches it, and both targets compare the state byte with 0 (= Running)
    gb = D.get("pkgs/boots/bytecode_graph_builder.dora")
    if r.anchor("pkgs/boots/bytecode_graph_builder.dora", gb):
        fns = {f.name: f for f in doraq.functions(gb, "pkgs/boots/bytecode_graph_builder.dora") if f.body is not None}
        jl = fns.get("emit_jump_loop")
        if r.anchor("boots emit_jump_loop", jl):
            cs = [c for c in doraq.calls(jl.body)]
            sp = [c.line for c in cs if c.callee == "self.emit_safepoint"]
            go = [c.line for c in cs if c.callee == "graph::create_goto_inst"]
            r.instance("boots:emit_jump_loop:safepoint-before-backedge")
            if not sp or not go or sp[0] > go[0]:
                r.violation("pkgs/boots/bytecode_graph_builder.dora::emit_jump_loop:no-safepoint",
                            "a loop back-edge is built without a preceding Safepoint instruction: code compiled by the "
                            "optimizing compiler can spin in a loop that never polls, and a stop-the-world waits "
                            "forever", jl.where())
        es = fns.get("emit_safepoint")
        if r.anchor("boots graph builder emit_safepoint", es):
            txt = doraq.text(es.body)
            r.instance("boots:emit_safepoint:creates-and-appends")
            if "graph::create_safepoint_inst" not in txt or "append_inst" not in txt:
                r.violation("pkgs/boots/bytecode_graph_builder.dora::emit_safepoint:not-appended",
                            "the Safepoint instruction is not created/appended", es.where())
        entry = [f for f in fns.values() if any(c.callee == "self.emit_safepoint" and "entry" in (c.arg_text(0) or "")
                                               for c in doraq.calls(f.body))]
        r.instance("boots:function-entry-safepoint", sample={"in": [f.qual for f in entry]})
        if not entry:
            r.violation("pkgs/boots/bytecode_graph_builder.dora:no-entry-safepoint",
                        "no Safepoint is planted in the entry block", "pkgs/boots/bytecode_graph_builder.dora")
    cgd = D.get("pkgs/boots/codegen.dora")
    if r.anchor("pkgs/boots/codegen.dora", cgd):
        ok = False
        for m in doraq.walk(cgd):
            if m[0] == "MATCH_ARM":
                ns = doraq.nodes(m)
                if ns and doraq.text(ns[0]) == "Op::Safepoint" and "emit_safepoint" in doraq.text(ns[-1]):
                    ok = True
        r.instance("boots codegen dispatches Op::Safepoint")
        if not ok:
            r.violation("pkgs/boots/codegen.dora:Op::Safepoint:not-lowered",
                        "the generic code generator does not lower Op::Safepoint to emit_safepoint",
                        "pkgs/boots/codegen.dora")
    ts = F.crate("dora_compiler").adt("abi::ThreadState")
    running = {v["name"]: v["discr"] for v in ts["variants"]}.get("Running") if ts else None
    for f, cmp_insn, br in (("pkgs/boots/codegen/x64.dora", "self.asm.cmpb_ai", "self.asm.jcc"),
                            ("pkgs/boots/codegen/arm64.dora", "self.asm.ldrb_imm", "self.asm.cbnz")):
        t = D.get(f)
        if t is None:
            continue
        es = [x for x in doraq.functions(t, f) if x.name == "emit_safepoint" and x.body is not None]
        if not es:
            continue
        cs = list(doraq.calls(es[0].body))
        c1 = [c for c in cs if c.callee == cmp_insn]
        c2 = [c for c in cs if c.callee == br]
        r.instance("%s:emit_safepoint:byte-compare-with-Running" % f, sample={"compare": cmp_insn, "branch": br})
        if not c1 or not c2 or c1[0].line > c2[0].line:
            r.violation("%s::emit_safepoint:shape" % f,
                        "the poll must load/compare the state *byte* (%s) and branch to the slow path (%s)" % (
                            cmp_insn.split(".")[-1], br.split(".")[-1]), es[0].where())
        elif f.endswith("x64.dora"):
            args = " ".join(doraq.text(a) for a in c1[0].args)
            if "Immediate(%s)" % running not in args.replace("i32", "").replace("i64", ""):
                r.violation("%s::emit_safepoint:wrong-constant" % f,
                            "the poll compares the state byte with `%s`, not with Running (%s)" % (args, running),
                            es[0].where())
            if "Condition::NotEqual" not in " ".join(doraq.text(a) for a in c2[0].args):
                r.violation("%s::emit_safepoint:wrong-condition" % f, "slow path must be taken when state != Running",
                            es[0].where())


def run(chk, F):
    c = F.crate("dora_runtime")
    rule_r1(chk, c)
    rule_r2(chk, c)
    rule_r3(chk, F, c)
    cg = CallGraph(F)
    ctx = Ctx(cg)
    rule_r4(chk, F, c, cg, ctx)
    rule_r5(chk, F, c, cg, ctx)
    rule_r6(chk, F, c, cg)
    rule_r7(chk, F)
    # "no thread touches the managed heap during the operation": a parked thread must not hold or be handed a
    # direct pointer into the managed heap (same engine as C03.R2)
    from rules import c03
    c03.rule_r2(chk, F, c, cg, rid="C04.R8")
    rule_r9(chk, F, c, cg, ctx)
    chk.assumptions += [
        "decides the shape of the protocol (ordering, pairing, transition table, blocking discipline); that these "
        "orderings suffice in every interleaving is a model-checking question and is not decided",
        "unwind (panic) edges are ignored: a panic inside the runtime aborts the process",
    ]
    from rules import a64; a64.run_c04(chk, F)  # noqa: E702  arm64 siblings (aarch64 fact set)

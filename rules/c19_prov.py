"""C19 helper: backward string provenance over the MIR of one crate (used by C19.R4).

`Prov.of_operand(fn, operand)` answers "which string sources can this value come from" as a set of atoms:

    ('lit', text)                                   a string literal
    ('mangle', callee, site fn, line, cap, args)    the direct result of a dora_symbol function (cap = constant operand
                                                    dict of its second argument or None; args = atoms of the name)
    ('field', adt path, variant, field)             read from a record field (construction sites are checked separately)
    ('format', fn, line, inner atoms)               result of format!/alloc::fmt::format
    ('post', callee, fn, line, inner atoms)         result of a string operation that does not preserve its input
    ('param', fn, index)                            a parameter of a function nobody in the crate calls
    ('unknown', fn, what)

Flow-insensitive and context-insensitive: locals with several definitions contribute all of them, parameters contribute
the arguments of every call site in the crate, workspace callees contribute their return value's provenance, closure
captures are resolved to the captured operand.  std calls are either identity-preserving (clone, as_str, to_string,
Option/iterator/container access ...: a frozen list of *std* names) or reported as ('post', ...).
"""
import re

import cfg

PASS = {"clone", "to_string", "to_owned", "as_str", "deref", "deref_mut", "as_ref", "as_mut", "borrow", "borrow_mut",
        "into", "from", "as_deref", "cloned", "copied", "unwrap", "expect", "unwrap_or_default", "get", "get_mut",
        "next", "iter", "iter_mut", "into_iter", "index", "index_mut", "as_slice", "first", "last", "ok", "new_display",
        "new_debug", "new_upper_hex", "new_lower_hex", "new", "must_use", "enumerate", "zip", "rev", "peekable",
        "as_mut_slice", "into_boxed_str", "into_string", "unwrap_unchecked", "as_deref_mut", "insert", "entry",
        "or_insert", "or_insert_with", "collect", "extend", "push", "branch", "from_residual", "by_ref",
        "with_capacity", "default"}
STD = ("alloc::", "core::", "std::", "<")


def stringish(ty):
    return ty is not None and ("str" in ty or "String" in ty or "fmt::Arguments" in ty or "fmt::rt::Argument" in ty)


def strip_ref(ty):
    ty = (ty or "").strip()
    while ty.startswith("&"):
        ty = ty[1:].strip()
        ty = re.sub(r"^'\w+\s+", "", ty)
        if ty.startswith("mut "):
            ty = ty[4:].strip()
    return ty


class Prov:
    def __init__(self, crate, sym_prefix="dora_symbol::"):
        self.c = crate
        self.sym_prefix = sym_prefix
        self.adts = {a["path"]: a for a in crate.items["adts"]}
        self._B = {}
        self._defs = {}
        self._mutrefs = {}
        self.callers = {}
        self.closure_sites = {}       # closure path -> (parent fn, [operands])
        self.memo = {}
        self._round = set()
        self._changed = False
        for p, mb in crate.mir.items():
            B = self.body(p)
            for c in B.calls:
                if c.name:
                    self.callers.setdefault(c.name, []).append((p, c))
            for blk in B.blocks:
                for st in blk["s"]:
                    if st[0] == "a" and st[2][0] == "agg" and st[2][1][0] in ("closure", "coroutine"):
                        self.closure_sites[st[2][1][1]] = (p, st[2][2])

    def body(self, p):
        if p not in self._B:
            self._B[p] = cfg.Body(self.c.mir[p])
        return self._B[p]

    def all_defs(self, p):
        """local -> [('a', stmt) | ('callres', calldict) | ('part', stmt)]"""
        if p not in self._defs:
            B = self.body(p)
            d = {}
            for blk in B.blocks:
                if blk["c"]:
                    continue
                for st in blk["s"]:
                    if st[0] == "a":
                        d.setdefault(st[1][0], []).append(("a" if not st[1][1] else "part", st))
                t = blk["t"]
                if t[0] == "call":
                    d.setdefault(t[1]["d"][0], []).append(("callres", t[1]))
            self._defs[p] = d
            # locals that are `&mut L` (single definition)
            mr = {}
            for l, ds in d.items():
                if len(ds) == 1 and ds[0][0] == "a" and ds[0][1][2][0] == "ref" and ds[0][1][2][1]:
                    mr[l] = ds[0][1][2][2]
            self._mutrefs[p] = mr
        return self._defs[p]

    # ---- field atoms ------------------------------------------------------------------------------------------
    def field_atom(self, ty, proj):
        """walk a projection from a local of type ty; returns the last (adt, variant, field, field type) it can name
        and the number of projection elements consumed, or None"""
        cur = strip_ref(ty)
        variant = None
        last = None
        for i, pj in enumerate(proj):
            if pj == "*":
                cur = strip_ref(cur)
                continue
            a = self.adts.get(re.sub(r"<.*$", "", cur))
            if a is None:
                return last
            if pj.startswith("@"):
                variant = pj[1:]
                continue
            if not pj.startswith("."):
                return last
            vs = [v for v in a["variants"] if variant is None or v["name"] == variant]
            if not vs:
                return last
            f = [f for f in vs[0]["fields"] if f["name"] == pj[1:]]
            if not f:
                return last
            last = (a["path"], vs[0]["name"] if a["kind"] == "enum" else None, f[0]["name"], f[0]["ty"], i + 1)
            cur = strip_ref(f[0]["ty"])
            variant = None
        return last

    # ---- tracing ----------------------------------------------------------------------------------------------
    def of_operand(self, fn, op, depth=0):
        if op[0] == "k":
            k = op[1]
            if "str" in k:
                return {("lit", k["str"])}
            if "const" in k and stringish(k.get("ty")):
                return {("unknown", fn, "string constant %s" % k["const"])}
            return set()
        return self.of_place(fn, op[1][0], list(op[1][1]), depth)

    def query(self, fn, op):
        """provenance of an operand; iterated until the approximations on cyclic definitions are stable"""
        for _ in range(12):
            self._round = set()
            self._changed = False
            res = self.of_operand(fn, op)
            if not self._changed:
                return res
        return res | {("unknown", fn, "no fixpoint")}

    def of_place(self, fn, local, proj, depth=0):
        key = (fn, local, tuple(proj))
        if key in self._round:
            return self.memo.get(key, set())
        if depth > 80:
            return {("unknown", fn, "depth")}
        self._round.add(key)
        out = self._of_place(fn, local, proj, depth)
        if out != self.memo.get(key):
            self._changed = True
            self.memo[key] = out
        return out

    def _of_place(self, fn, local, proj, depth):
        B = self.body(fn)
        # closure captures
        if "{closure" in fn and local == 1:
            caps = [p for p in proj if p != "*"]
            site = self.closure_sites.get(fn)
            if caps and caps[0].startswith(".") and caps[0][1:].isdigit() and site and int(caps[0][1:]) < len(site[1]):
                op = site[1][int(caps[0][1:])]
                rest = proj[proj.index(caps[0]) + 1:]
                if op[0] == "k":
                    return self.of_operand(site[0], op, depth + 1)
                return self.of_place(site[0], op[1][0], list(op[1][1]) + rest, depth + 1)
        fa = self.field_atom(B.local_ty(local), proj)
        if fa is not None and stringish(fa[3]):
            return {("field", fa[0], fa[1], fa[2])}
        out = set()
        if 1 <= local <= B.argc:
            sites = self.callers.get(fn, [])
            if "{closure" in fn or not sites:
                return {("param", fn, local)}
            for (cfn, c) in sites:
                if local - 1 < len(c.args):
                    out |= self.of_operand(cfn, c.args[local - 1], depth + 1)
            return out
        defs = self.all_defs(fn)
        for (kind, d) in defs.get(local, []):
            if kind == "callres":
                out |= self.of_call(fn, d, depth)
            elif kind == "part":
                out |= self._of_rvalue(fn, d[2], depth)
            else:
                out |= self._of_rvalue(fn, d[2], depth)
        # `&mut local` handed to calls
        mr = self._mutrefs[fn]
        lty = strip_ref(B.local_ty(local))
        for c in B.calls:
            hit = [i for i, a in enumerate(c.args) if a[0] in ("c", "m") and not a[1][1] and a[1][0] in mr and
                   mr[a[1][0]][0] == local]
            if not hit:
                continue
            inner = set()
            for i, a in enumerate(c.args):
                if i not in hit and self._op_stringish(B, a):
                    inner |= self.of_operand(fn, a, depth + 1)
            if lty == "alloc::string::String" and all(not mr[c.args[i][1][0]][1] for i in hit):
                out.add(("post", c.name or "?", fn, c.line, frozenset(inner)))
            else:
                out |= inner
        return out

    def _op_stringish(self, B, a):
        if a[0] == "k":
            return stringish(a[1].get("ty")) or "str" in a[1]
        return stringish(B.local_ty(a[1][0]))

    def _of_rvalue(self, fn, rv, depth):
        k = rv[0]
        B = self.body(fn)
        if k in ("use", "repeat"):
            return self.of_operand(fn, rv[1], depth + 1)
        if k == "ref":
            return self.of_place(fn, rv[2][0], list(rv[2][1]), depth + 1)
        if k == "cast":
            return self.of_operand(fn, rv[2], depth + 1)
        if k == "agg":
            out = set()
            for o in rv[2]:
                if self._op_stringish(B, o):
                    out |= self.of_operand(fn, o, depth + 1)
            return out
        return set()

    def of_call(self, fn, c, depth):
        B = self.body(fn)
        name = cfg.callee_name(cfg.callee_of(c["f"])) or "?"
        line = c["l"]
        if name.startswith(self.sym_prefix):
            cap = None
            if len(c["a"]) > 1 and c["a"][1][0] == "k":
                cap = c["a"][1][1]
            elif len(c["a"]) > 1:
                cap = {"nonconst": True}
            args = self.of_operand(fn, c["a"][0], depth + 1) if c["a"] else set()
            return {("mangle", name, fn, line, _freeze(cap), frozenset(args))}
        if name in self.c.mir:
            return self.of_place(name, 0, [], depth + 1)
        sh = name.rsplit("::", 1)[-1]
        inner = set()
        for a in c["a"]:
            if self._op_stringish(B, a):
                inner |= self.of_operand(fn, a, depth + 1)
        if name == "alloc::fmt::format":
            return {("format", fn, line, frozenset(inner))}
        if name.startswith(STD) and sh in PASS:
            if sh in ("index", "get") and c["a"] and c["a"][0][0] in ("c", "m") and \
                    strip_ref(B.local_ty(c["a"][0][1][0])) in ("str", "alloc::string::String"):
                return {("post", name, fn, line, frozenset(inner))}
            return inner
        dty = B.local_ty(c["d"][0])
        if not stringish(dty):
            return set()
        return {("post", name, fn, line, frozenset(inner))}


def _freeze(d):
    if d is None:
        return None
    return tuple(sorted((k, str(v)) for k, v in d.items()))


def flatten(atoms, depth=0):
    """all atoms, including those nested in format/post/mangle arguments"""
    out = set()
    for a in atoms:
        out.add(a)
        if depth < 6:
            if a[0] in ("format",):
                out |= flatten(a[3], depth + 1)
            elif a[0] == "post":
                out |= flatten(a[4], depth + 1)
    return out

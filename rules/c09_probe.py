"""C09.R10 — the wait-list table's probe loops terminate: its load accounting covers every non-empty slot.

`ObjectHashMap` (the address-keyed table of threads waiting on mutexes and conditions) is open addressing with deleted
markers.  Its probe loops (`get`, `insert`, `remove`) end only at a matching key or at an EMPTY slot, so an EMPTY slot
must always exist.  The only thing that keeps one is the rehash trigger tested before an insertion consumes an EMPTY
slot: a sum of counters compared with a fraction of the capacity.  That sum has to be an *upper bound of the number of
non-EMPTY slots*, i.e. on every path that writes a slot's key

  * a deleted marker replacing a live key leaves the slot non-EMPTY: the counted sum must not go down;
  * a live key written into a slot that may have been EMPTY makes the sum go up by at least one, unless the same path
    gives back a marker it counted before (the counter that marker writes increment is decremented).

A table whose `remove` decrements the only counted field while leaving a marker behind fills up with markers: every
slot non-EMPTY, the next lookup of an absent key probes forever holding the global wait-list lock — every thread that
touches a mutex or condition afterwards hangs.

Everything is derived: the table type is the one whose methods mask a hash with `capacity - 1`; the counted fields are
the integer fields of `self` read by the boolean method the insertion-side rehash test calls; the marker is the
constant compared in the predicate that the probe loops use for "deleted".
"""
import hirq


def short(p):
    return p.rsplit("::", 1)[-1]


def strip(e):
    while isinstance(e, list) and e and (e[0] == "addr" or (e[0] == "un" and e[1] == "Deref") or e[0] == "cast"):
        e = e[2] if e[0] != "cast" else e[1]
    return e


def self_field(e):
    e = strip(e)
    if e[0] == "field" and strip(e[1]) == ["local", "self"]:
        return e[2]
    return None


class PathEnum:
    """all syntactic paths through a body (loop bodies once), as lists of events"""

    def __init__(self, classify):
        self.classify = classify
        self.limit = 4000

    def stmts(self, lst, tail):
        outs = [([], False)]
        for s in list(lst) + ([tail] if tail is not None else []):
            nxt = []
            for (ev, done) in outs:
                if done:
                    nxt.append((ev, True))
                    continue
                for (e2, d2) in self.expr(s):
                    nxt.append((ev + e2, d2))
            outs = nxt
            if len(outs) > self.limit:
                raise OverflowError("too many paths")
        return outs

    def expr(self, e):
        if not isinstance(e, list) or not e:
            return [([], False)]
        k = e[0]
        ev = self.classify(e)
        if ev is not None:
            return [([ev], False)]
        if k == "block":
            return self.stmts(e[1], e[2])
        if k == "if":
            cond = e[1][2] if e[1][0] == "letx" else e[1]
            pre = self.expr(cond)
            out = []
            for (pe, pd) in pre:
                if pd:
                    out.append((pe, True))
                    continue
                for br in (e[2], e[3]):
                    for (be, bd) in (self.expr(br) if br is not None else [([], False)]):
                        out.append((pe + be, bd))
            return out
        if k == "match":
            pre = self.expr(e[1])
            out = []
            for (pe, pd) in pre:
                if pd:
                    out.append((pe, True))
                    continue
                for (_pat, _g, body) in e[2]:
                    for (be, bd) in self.expr(body):
                        out.append((pe + be, bd))
            return out
        if k == "loop":
            # one pass through the body: counters and keys are only written on the iteration that leaves the loop
            return [(ev_, True if d else False) for (ev_, d) in self.expr(e[2])]
        if k == "ret":
            inner = self.expr(e[1]) if e[1] is not None else [([], False)]
            return [(x, True) for (x, _d) in inner]
        if k in ("break", "continue"):
            return [([], True)]
        if k == "macro":
            if e[1].startswith(("assert", "debug_assert", "$crate::assert")):
                return [([], False)]
            return self.expr(e[2])
        if k == "let":
            return self.expr(e[2]) if e[2] is not None else [([], False)]
        if k in ("closure",):
            return [([], False)]
        # generic: sub-expressions in order
        outs = [([], False)]
        for x in e[1:]:
            if isinstance(x, list) and x and isinstance(x[0], str):
                nxt = []
                for (ev0, d0) in outs:
                    if d0:
                        nxt.append((ev0, True))
                        continue
                    for (e2, d2) in self.expr(x):
                        nxt.append((ev0 + e2, d2))
                outs = nxt
            elif isinstance(x, list):
                for y in x:
                    if isinstance(y, list) and y and isinstance(y[0], str):
                        nxt = []
                        for (ev0, d0) in outs:
                            if d0:
                                nxt.append((ev0, True))
                                continue
                            for (e2, d2) in self.expr(y):
                                nxt.append((ev0 + e2, d2))
                        outs = nxt
        return outs


def run(chk, F):
    r = chk.rule("C09.R10", "the wait-list table keeps an EMPTY slot for its probe loops: the counters its "
                            "insertion-side rehash test adds up never go down when a deleted marker replaces a live "
                            "key, and go up when a live key may take an EMPTY slot (load accounting covers every "
                            "non-EMPTY slot)")
    c = F.crate("dora_runtime")
    # the table: impl whose methods mask with `capacity - 1`
    impls = {}
    for p, b in c.hir.items():
        for n in hirq.walk(b["body"]):
            if n[0] == "bin" and n[1] == "BitAnd":
                rhs = strip(n[3])
                if rhs[0] == "bin" and rhs[1] == "Sub" and self_field(rhs[2]) and strip(rhs[3])[:2] == ["lit", "int"]:
                    impls.setdefault(p.rsplit("::", 1)[0], set()).add((p, self_field(rhs[2])))
    cand = [(k, v) for k, v in impls.items() if "waitlists" in k]
    if not r.anchor("open-addressing table in runtime/waitlists.rs (methods that mask a hash with capacity - 1)",
                    len(cand) == 1):
        return
    prefix, probing = cand[0]
    cap_field = sorted({f for (_p, f) in probing})[0]
    methods = {p: b for p, b in c.hir.items() if p.rsplit("::", 1)[0] == prefix}
    where = lambda p: "%s:%d" % (methods[p]["file"], methods[p]["line"])                      # noqa: E731

    # key writes and their callers' rehash test
    def key_write(e):
        if e[0] == "assign":
            l = strip(e[1])
            if l[0] == "field" and l[2] == "key" and strip(l[1])[0] == "index" and self_field(strip(l[1])[1]):
                return l
        return None

    writers = sorted(p for p, b in methods.items() if any(key_write(n) for n in hirq.walk(b["body"]) if n[0] == "assign"))
    if not r.anchor("methods that write a slot's key", writers):
        return
    # marker constant: the constant the `deleted` predicate compares keys with, and that some writer stores
    stored_consts = set()
    for p in writers:
        for n in hirq.walk(methods[p]["body"]):
            if n[0] == "assign" and key_write(n):
                for m in hirq.walk(n[2]):
                    if m[0] == "def" and m[1] == "const":
                        stored_consts.add(m[2])
    if not r.anchor("deleted-marker constant stored by a key write", len(stored_consts) == 1):
        return
    marker = sorted(stored_consts)[0]
    # insertion-side rehash test: bool method(s) of the table called (transitively, depth 2) at the start of the
    # method that writes non-marker keys, whose body compares counters with the capacity field
    def is_live_write(n):
        return key_write(n) and not any(m[0] == "def" and m[1] == "const" and m[2] == marker for m in hirq.walk(n[2]))

    inserters = [p for p in writers if any(n[0] == "assign" and is_live_write(n) for n in hirq.walk(methods[p]["body"]))]
    if not r.anchor("method that writes live keys (insert)", inserters):
        return

    def callees(p, depth=0):
        out = set()
        if p not in methods or depth > 2:
            return out
        for n in hirq.walk(methods[p]["body"]):
            if n[0] == "mcall" and n[2] in methods:
                out.add(n[2])
                out |= callees(n[2], depth + 1)
        return out

    tests = []
    for p in inserters:
        for q in sorted(callees(p)):
            f = c.fn(q)
            if f is None or f.get("output") != "bool":
                continue
            body = methods[q]["body"]
            flds = {self_field(n) for n in hirq.walk(body) if n[0] == "field" and self_field(n)}
            if cap_field in flds and len(flds) > 1:
                tests.append((q, flds - {cap_field}))
    # a test that only reads counters + capacity; keep those that are reached through a call that can rehash
    tests = [(q, fl) for (q, fl) in tests if any(n[0] in ("bin",) and n[1] in ("Gt", "Ge", "Lt", "Le")
                                                 for n in hirq.walk(methods[q]["body"]))]
    # the insertion-side trigger is the one whose caller also calls the rehash with a *grown* capacity; take the
    # union over bool tests called from the inserter that are not also called from the marker writers only
    ins_tests = []
    for (q, fl) in tests:
        callers = [p for p in methods if any(n[0] == "mcall" and n[2] == q for n in hirq.walk(methods[p]["body"]))]
        if any(cp in callees(i) or cp == i for cp in callers for i in inserters) and \
                not all(any(cp in callees(w) or cp == w for w in writers if w not in inserters) for cp in callers):
            ins_tests.append((q, fl))
    if not r.anchor("insertion-side load test (bool method comparing counters with the capacity)", ins_tests):
        return
    counted = set().union(*[fl for (_q, fl) in ins_tests])
    int_fields = set()
    for a in c.items["adts"]:
        if a["path"].split("<")[0] == prefix.split("::<")[0]:
            int_fields = {f["name"] for f in a["variants"][0]["fields"] if f["ty"] in ("usize", "u32", "u64")}
    counted &= int_fields or counted
    r.instance("load-test", sample={"test": [short(q) for (q, _f) in ins_tests], "counted_fields": sorted(counted),
                                    "capacity_field": cap_field, "marker": short(marker)})

    # --- per writer: paths, deltas ---------------------------------------------------------------------------------
    def classify(e):
        if e[0] == "assign" and key_write(e):
            return ("write", "live" if is_live_write(e) else "marker")
        if e[0] == "assignop" and e[1] in ("AddAssign", "SubAssign") and self_field(e[2]):
            v = strip(e[3])
            if v[:2] == ["lit", "int"]:
                n = int(v[2])
                return ("delta", self_field(e[2]), n if e[1] == "AddAssign" else -n)
            return ("delta", self_field(e[2]), None)
        return None

    marker_incremented = set()
    all_paths = {}
    for p in writers:
        try:
            paths = PathEnum(classify).expr(methods[p]["body"])
        except OverflowError:
            r.violation("ANALYSIS:%s:too-many-paths" % p, "cannot enumerate the paths of %s" % short(p), where(p))
            continue
        all_paths[p] = [ev for (ev, _d) in paths if any(x[0] == "write" for x in ev)]
        for ev in all_paths[p]:
            if any(x == ("write", "marker") for x in ev):
                for x in ev:
                    if x[0] == "delta" and x[2] and x[2] > 0:
                        marker_incremented.add(x[1])
    npaths = 0
    for p, paths in sorted(all_paths.items()):
        seen = set()
        for ev in paths:
            kinds = [x[1] for x in ev if x[0] == "write"]
            deltas = [(x[1], x[2]) for x in ev if x[0] == "delta" and x[1] in counted]
            sig = (tuple(kinds), tuple(deltas))
            if sig in seen:
                continue
            seen.add(sig)
            npaths += 1
            if any(d is None for (_f, d) in deltas):
                r.violation("ANALYSIS:%s:non-constant-counter-update" % p, "a counted field is updated by a "
                            "non-constant amount", where(p))
                continue
            total = sum(d for (_f, d) in deltas)
            gives_back = any(f in marker_incremented and d < 0 for (f, d) in deltas)
            desc = ", ".join("%s%+d" % (f, d) for (f, d) in deltas) or "no counted field changes"
            for kind in kinds:
                key = "%s:%s-write" % (p, kind)
                r.instance("%s:%s" % (key, desc), sample={"method": short(p), "write": kind, "counter_changes": desc,
                                                          "counted": sorted(counted)})
                if kind == "marker" and total < 0:
                    r.violation(key + ":load-drops-while-slot-stays-occupied",
                                "%s replaces a live key by the deleted marker (the slot stays non-EMPTY) while the sum "
                                "the insertion-side load test adds up (%s) changes by %+d (%s): markers are not counted, "
                                "the table can fill up with them, and once no EMPTY slot is left the next probe for an "
                                "absent key never terminates — with the global wait-list lock held"
                                % (short(p), " + ".join(sorted(counted)), total, desc), where(p))
                if kind == "live" and total < (0 if gives_back else 1):
                    r.violation(key + ":occupancy-not-counted",
                                "%s writes a live key into a slot that may have been EMPTY while the counted sum (%s) "
                                "changes by %+d (%s): the load test under-counts occupied slots"
                                % (short(p), " + ".join(sorted(counted)), total, desc), where(p))
    r.floor("distinct (write, counter-update) paths through the table's writers", npaths, 3)
    # the test must be evaluated before the probe loop of the inserter
    for p in inserters:
        body = methods[p]["body"]
        first_loop = None
        called_before = False
        for s in (body[1] if body[0] == "block" else []):
            if any(n[0] == "loop" for n in hirq.walk(s)):
                first_loop = s
                break
            if any(n[0] == "mcall" and (n[2] in {q for (q, _f) in ins_tests} or
                                         n[2] in methods and {q for (q, _f) in ins_tests} & callees(n[2]))
                   for n in hirq.walk(s)):
                called_before = True
        r.instance("%s:load-test-before-probe" % p, sample={"method": short(p), "tested_before_loop": called_before})
        if not called_before:
            r.violation("%s:load-test-not-before-probe" % p, "%s does not evaluate the load test before its probe loop"
                        % short(p), where(p))

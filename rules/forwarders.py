"""Pass-through wrappers call their namesake.

`BaselineAssembler` (asm.rs) wraps the `MacroAssembler`: dozens of its methods do nothing but hand their parameters,
unchanged and in order, to one method of `self.masm`.  When the wrapped object has a method with the wrapper's *own*
name, a wrapper that calls a different one is a copy-paste slip the type checker cannot see (the siblings have identical
signatures): `exchange_int64_synchronized` forwarding to `exchange_int32_synchronized` exchanges only the low word.

Nothing is listed by hand: a forwarder is recognised by shape (body = one method call on a field of `self`, arguments =
the wrapper's parameters in order), its obligation exists only when the callee's impl has a namesake, and the same rule
runs on the aarch64 fact set.
"""
import hirq


def short(p):
    return p.rsplit("::", 1)[-1]


def strip(e):
    while isinstance(e, list) and e and (e[0] in ("addr",) or (e[0] == "un" and e[1] == "Deref")):
        e = e[2]
    return e


def forwarders(crate):
    """→ [(wrapper path, wrapper name, callee path, callee name, field)]"""
    out = []
    for p, b in sorted(crate.hir.items()):
        body = b["body"]
        if body[0] != "block":
            continue
        stmts, tail = body[1], body[2]
        call = None
        if len(stmts) == 1 and tail is None:
            call = stmts[0]
        elif not stmts and tail is not None:
            call = tail
        call = strip(call) if call is not None else None
        if not (isinstance(call, list) and call and call[0] == "mcall" and call[2]):
            continue
        recv = strip(call[4])
        if not (recv[0] == "field" and strip(recv[1]) == ["local", "self"]):
            continue
        params = [pat[1] for (pat, _ty) in b["params"] if pat[0] == "pbind" and pat[1] != "self"]
        args = [strip(a) for a in call[5]]
        if len(args) != len(params) or any(a != ["local", n] for a, n in zip(args, params)):
            continue
        out.append((p, short(p), call[2], call[3], recv[2]))
    return out


def run(rule, crate, name_filter, label=""):
    """evaluate the namesake obligation for the forwarders of `crate` whose name passes `name_filter`"""
    fw = forwarders(crate)
    n = 0
    for (wp, wn, cp, cn, fld) in fw:
        if not name_filter(wn):
            continue
        impl_prefix = cp.rsplit("::", 1)[0]
        namesake = impl_prefix + "::" + wn
        has_namesake = namesake in crate.hir or any(q.endswith("::" + wn) and q.rsplit("::", 1)[0] == impl_prefix
                                                    for q in crate.mir)
        key = "%s%s" % (label, wp)
        rule.instance(key, nontrivial=has_namesake, sample={"wrapper": wn, "forwards_to": cn, "via": "self." + fld,
                                                            "namesake_exists": has_namesake})
        n += 1
        if has_namesake and cn != wn:
            b = crate.hir[wp]
            rule.violation("%s:forwards-to:%s" % (key, cn),
                           "%s hands its parameters unchanged to self.%s.%s although self.%s.%s exists: a pass-through "
                           "wrapper that calls a sibling of its namesake (e.g. the 32-bit form for the 64-bit "
                           "operation) silently performs a different operation" % (wn, fld, cn, fld, wn),
                           "%s:%d" % (b["file"], b["line"]))
    return n

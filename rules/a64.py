"""arm64 siblings of the x64 rules: masm/arm64.rs (cfg(target_arch = "aarch64")) under the second fact set A = F.a64().

run_c02  C02.R12  effect parity x64 <-> arm64 per MacroAssembler/BaselineAssembler method (trap kinds, slow paths,
                  runtime functions, write-barrier emitters, relocation kinds)
         C02.R9   (extended) three-way comparison on arm64: condition class after cmp / fcmp, baseline and boots
         C02.R13  arm64 division: the zero test reads the divisor at the width the divide instruction reads it
run_c04  C04.R7   (extended) the arm64 safepoint poll
run_c09  C09.R3   (extended) arm64 *_synchronized emitters: acquire+release forms, exclusive-loop shape, width
run_c10  C10.R7   call-emitting primitives / stack-map recorders: same set on both targets; who may emit bl/blr
run_c13  C13.R1   (extended) arm64 check_stack_limit;  C13.R6 (extended) arm64 determine_array_size
run_c14  C14.R6   position recording parity; every arm64 bailout passes the method's own Location parameter
"""
import re

import cfg
import doraq
import hirq

CC = "dora_cannon_compiler::"
A64 = "dora_asm::arm64::AssemblerArm64::"
X64 = "dora_asm::x64::AssemblerX64::"
MASM_A64 = CC + "masm::arm64::<impl dora_cannon_compiler::masm::MacroAssembler>::"
MASM_X64 = CC + "masm::x64::<impl dora_cannon_compiler::masm::MacroAssembler>::"
F_A64 = "dora-cannon-compiler/src/masm/arm64.rs"

_KEY_RES = (
    ("masm", re.compile(r"^dora_cannon_compiler::masm::(?:\w+::<impl dora_cannon_compiler::masm::MacroAssembler>"
                        r"|MacroAssembler)::(\w+)")),
    ("asm", re.compile(r"^dora_cannon_compiler::asm::BaselineAssembler::<'a>::(\w+)")),
)


def last(p):
    return p.rsplit("::", 1)[-1]


def _rule(chk, rid, text, more=None):
    """the rule object with this id if the property's own module already created it (the arm64 instances extend it),
    otherwise a new one"""
    for r in chk.rules:
        if r.name == rid:
            if more and more not in r.text:
                r.text += "; " + more
            return r
    return chk.rule(rid, text if not more else "%s; %s" % (text, more))


def _a64(F, r):
    """the aarch64 fact set, or None with an analysis failure recorded on r"""
    try:
        return F.a64()
    except Exception as e:      # facts.AnalysisError: the tree does not type-check for aarch64
        r.anchor("aarch64 fact set (%s)" % str(e)[:160], False)
        return None


def layer_key(p):
    for (layer, rx) in _KEY_RES:
        m = rx.match(p)
        if m:
            return (layer, m.group(1))
    return None


def agg_adt(rv):
    """['agg', ['adt', path, variant], ops] → (path, variant)"""
    if rv[0] == "agg" and isinstance(rv[1], list) and rv[1] and rv[1][0] == "adt" and len(rv[1]) >= 3:
        return rv[1][1], rv[1][2]
    return None


def origin_adt(B, op, defs):
    """operand → ('variant', path, name) | ('param', i) | ('other', descr)"""
    o = cfg.origin(B, op, defs)
    if o[0] == "agg" and isinstance(o[1], list) and o[1] and o[1][0] == "adt" and len(o[1]) >= 3:
        return ("variant", o[1][1], o[1][2])
    if o[0] == "param" and not [x for x in o[2] if x not in ("*", "&")]:
        return ("param", o[1])
    return ("other", o[0])


# --------------------------------------------------------------------------- effect summaries
EFFECTS = ("trap-kinds", "slow-paths", "runtime-functions", "write-barrier", "relocation-kinds",
           "stack-map", "call-instruction", "position", "comment")


class Layer:
    """masm (arch-specific impl + arch-independent masm.rs) and asm.rs (BaselineAssembler) of one fact set, keyed by
    (layer, method name); closures are merged into their method"""

    def __init__(self, S, arch, call_insns):
        self.arch = arch
        self.crate = S.crate("dora_cannon_compiler")
        self.trap_ty = None
        dc = S.crate("dora_compiler")
        t = dc.adt("abi::Trap")
        self.trap_ty = t["path"] if t else None
        self.items = {f["path"]: f for f in self.crate.items["fns"]}
        self.bodies = {}
        self.paths = {}
        for p, mb in self.crate.mir.items():
            k = layer_key(p)
            if k is None:
                continue
            self.bodies.setdefault(k, []).append(cfg.Body(mb))
            if "{closure" not in p:
                self.paths[k] = p
        self.call_insns = call_insns
        self.direct = {}
        self.edges = {}
        self.untraceable = []
        self.constructed_traps = {}
        for k, bs in self.bodies.items():
            self._summarize(k, bs)
        self.effects = self._close()

    def sinks(self):
        """methods with a Trap-typed parameter: the trap/bailout emitters"""
        out = set()
        for k, p in self.paths.items():
            it = self.items.get(p)
            if it and self.trap_ty in it["inputs"]:
                out.add(k)
        return out

    def _summarize(self, k, bs):
        d = {e: set() for e in EFFECTS}
        edges = set()
        built = set()
        for B in bs:
            defs = None
            for blk in B.blocks:
                if blk["c"]:
                    continue
                for s in blk["s"]:
                    if s[0] != "a":
                        continue
                    a = agg_adt(s[2])
                    if not a:
                        continue
                    path, variant = a
                    if path.endswith("::SlowPathKind"):
                        d["slow-paths"].add(variant)
                    elif path.endswith("::RuntimeFunction"):
                        d["runtime-functions"].add(variant)
                    elif path.endswith("::RelocationKind"):
                        d["relocation-kinds"].add(variant)
                    elif path == self.trap_ty:
                        built.add(variant)
            for x in B.calls:
                nm = x.name or ""
                ck = layer_key(nm)
                if ck is not None and ck != k:
                    edges.add(ck)
                if nm.endswith("::GcPointTable::insert"):
                    d["stack-map"].add("recorded")
                elif nm.endswith("::LocationTable::insert"):
                    d["position"].add("recorded")
                elif nm.endswith("::CommentTable::insert"):
                    d["comment"].add("recorded")
                if nm in self.call_insns:
                    d["call-instruction"].add("emitted")
                it = self.items.get(nm)
                if it and ck is not None and self.trap_ty in it["inputs"]:
                    for i, ty in enumerate(it["inputs"]):
                        if ty != self.trap_ty or i >= len(x.args):
                            continue
                        if defs is None:
                            defs = cfg.simple_defs(B)
                        o = origin_adt(B, x.args[i], defs)
                        if o[0] == "variant" and o[1] == self.trap_ty:
                            d["trap-kinds"].add(o[2])
                        elif o[0] == "param" and B.local_ty(o[1]) == self.trap_ty:
                            pass        # resolved at this method's own callers
                        else:
                            d["trap-kinds"].add("?")
                            self.untraceable.append((k, last(nm), x.where()))
        # naming anchor (one line): the barrier fast-path emitters of the masm layer carry "barrier" in their name
        if k[0] == "masm" and "barrier" in k[1]:
            d["write-barrier"].add(k[1])
        self.direct[k] = d
        self.edges[k] = edges
        self.constructed_traps[k] = built

    def _close(self):
        eff = {k: {e: set(v) for e, v in d.items()} for k, d in self.direct.items()}
        changed = True
        while changed:
            changed = False
            for k, es in self.edges.items():
                for c in es:
                    ce = eff.get(c)
                    if ce is None:
                        continue
                    for e in EFFECTS:
                        if not ce[e] <= eff[k][e]:
                            eff[k][e] |= ce[e]
                            changed = True
        return eff


def asm_names(S, prefix):
    c = S.crate("dora_asm")
    return sorted(p[len(prefix):] for p in c.mir if p.startswith(prefix) and "::" not in p[len(prefix):])


def mnemonic(n):
    return n.split("_")[0]


def a64_call_insns(A):
    # ISA fact (one line): BL and BLR (and the pointer-authenticating BLRA* forms) are the A64 branch-with-link
    # instructions; everything else that transfers control leaves no return address
    return {A64 + n for n in asm_names(A, A64) if mnemonic(n) == "bl" or mnemonic(n).startswith("blr")}


def x64_call_insns(F):
    return {X64 + n for n in asm_names(F, X64) if mnemonic(n) == "call"}


_LAYERS = {}


def layers(F, A):
    key = (id(F), id(A))
    if key not in _LAYERS:
        _LAYERS.clear()
        _LAYERS[key] = (Layer(F, "x64", x64_call_insns(F)), Layer(A, "arm64", a64_call_insns(A)))
    return _LAYERS[key]


def fmt(s):
    return "{%s}" % ",".join(sorted(s))


# frozen exceptions to effect parity: (layer, method, effect) → one-line reason.  Only asymmetries that the ISA forces
# and that leave the observable behaviour of the compiled program unchanged belong here.
PARITY_EXCEPTIONS = {}


def parity(r, F, A, effects, observe_one_sided=True, floors=True):
    """compare, per method present in both builds, the transitive effect sets named in `effects`"""
    LX, LA = layers(F, A)
    both = sorted(set(LX.effects) & set(LA.effects))
    if floors:
        r.floor("MacroAssembler methods present in both masm::x64 and masm::arm64",
                sum(1 for k in both if k[0] == "masm" and LX.paths.get(k, "").startswith(MASM_X64)
                    and LA.paths.get(k, "").startswith(MASM_A64)), 100)
        r.floor("arch-independent masm.rs / asm.rs methods compared", sum(
            1 for k in both if not LA.paths.get(k, "").startswith(MASM_A64)), 150)
    if observe_one_sided:
        for k in sorted(set(LX.effects) ^ set(LA.effects)):
            side = "x64" if k in LX.effects else "arm64"
            L = LX if side == "x64" else LA
            r.observe("%s::%s exists only in the %s build (effects: %s)" % (
                k[0], k[1], side, {e: sorted(v) for e, v in L.effects[k].items() if v and e in effects}))
    diffs = {}
    for k in both:
        for e in effects:
            a, b = LX.effects[k][e], LA.effects[k][e]
            if a != b:
                diffs[(k, e)] = (a ^ b)
    n_non_empty = 0
    for k in both:
        name = LA.paths.get(k) or "%s::%s" % k
        for e in effects:
            a, b = LX.effects[k][e], LA.effects[k][e]
            nontrivial = bool(a or b)
            n_non_empty += 1 if nontrivial else 0
            r.instance("%s:%s" % (name, e), nontrivial=nontrivial,
                       sample={"method": name, "effect": e, "x64": sorted(a), "arm64": sorted(b)} if nontrivial else None)
            if a == b:
                continue
            # a difference that is entirely the difference of a compared callee is reported at the callee
            explained = set()
            for c in (LX.edges.get(k, set()) | LA.edges.get(k, set())):
                if c in LX.effects and c in LA.effects and (c, e) in diffs:
                    explained |= diffs[(c, e)]
            if (a ^ b) <= explained:
                continue
            why = PARITY_EXCEPTIONS.get((k[0], k[1], e))
            if why:
                r.observe("%s:%s x64=%s arm64=%s — accepted: %s" % (name, e, fmt(a), fmt(b), why))
                continue
            r.violation("%s:%s:x64=%s:arm64=%s" % (name, e, fmt(a), fmt(b)),
                        "the x64 and arm64 implementations of %s::%s differ in %s: x64 %s, arm64 %s — the same Dora "
                        "program behaves differently on the two targets (a check, slow path, runtime call, barrier or "
                        "table record exists on one side only)" % (k[0], k[1], e, fmt(a), fmt(b)),
                        LA.bodies[k][0].file)
    return LX, LA, n_non_empty


def run_c02(chk, F):
    r = chk.rule("C02.R12", "every MacroAssembler/BaselineAssembler method present in both the x86_64 and the aarch64 "
                            "build has the same effect summary (transitively through masm): Trap kinds reaching a "
                            "bailout/trap emitter, SlowPathKind constructors, RuntimeFunction variants, write-barrier "
                            "emitters reached, RelocationKind recorded")
    A = _a64(F, r)
    if A is None:
        return
    eff = ("trap-kinds", "slow-paths", "runtime-functions", "write-barrier", "relocation-kinds")
    LX, LA, n = parity(r, F, A, eff)
    r.floor("non-empty (method, effect) pairs", n, 120)
    for L in (LX, LA):
        sinks = L.sinks()
        r.floor("%s trap/bailout emitters (methods with a Trap parameter)" % L.arch, len(sinks), 4)
        pushes = [k for k in sinks if any((x.name or "").endswith("Vec::<T, A>::push") for B in L.bodies[k]
                                          for x in B.calls)]
        r.anchor("%s: a Trap-taking method queues the bailout (Vec::push)" % L.arch, pushes)
        tt = [k for k in sinks if "TrapTrampoline" in L.direct[k]["runtime-functions"]]
        r.anchor("%s: a Trap-taking method calls RuntimeFunction::TrapTrampoline" % L.arch, tt)
        for (k, callee, where) in L.untraceable:
            if k in sinks or k == ("masm", "emit_bailouts"):
                continue        # the deferred list is drained here; every push was seen at its own site
            r.violation("%s::%s:%s:untraceable-trap-kind" % (k[0], k[1], callee),
                        "cannot trace the Trap argument of %s to a constant or a parameter (%s)" % (callee, L.arch),
                        where)
        for k, built in sorted(L.constructed_traps.items()):
            lost = built - L.direct[k]["trap-kinds"]
            if lost:
                r.observe("%s %s::%s constructs Trap::%s without passing it to an emitter" % (
                    L.arch, k[0], k[1], "/".join(sorted(lost))))
    rule_r9_arm64(chk, F, A)
    rule_div_width(chk, F, A)

"""arm64 siblings of the x64 rules: masm/arm64.rs (cfg(target_arch = "aarch64")) under the second fact set A = F.a64().

run_c02  C02.R12  effect parity x64 <-> arm64 per MacroAssembler/BaselineAssembler method (trap kinds, slow paths,
                  runtime functions, write-barrier emitters, relocation kinds)
         C02.R9   (extended) three-way comparison on arm64: condition class after cmp / fcmp, baseline and boots
         C02.R13  arm64 division: the zero test reads the divisor at the width the divide instruction reads it
run_c04  C04.R7   (extended) the arm64 safepoint poll
run_c09  C09.R3   (extended) arm64 *_synchronized emitters: acquire+release forms, exclusive-loop shape, width
run_c10  C10.R7   call-emitting primitives / stack-map recorders: same set on both targets; who may emit bl/blr
run_c13  C13.R1   (extended) arm64 check_stack_limit;  C13.R6 (extended) arm64 determine_array_size
run_c14  C14.R6   position recording parity; every arm64 bailout passes the method's own Location parameter
"""
import re

import cfg
import doraq
import hirq

CC = "dora_cannon_compiler::"
A64 = "dora_asm::arm64::AssemblerArm64::"
X64 = "dora_asm::x64::AssemblerX64::"
MASM_A64 = CC + "masm::arm64::<impl dora_cannon_compiler::masm::MacroAssembler>::"
MASM_X64 = CC + "masm::x64::<impl dora_cannon_compiler::masm::MacroAssembler>::"
F_A64 = "dora-cannon-compiler/src/masm/arm64.rs"

_KEY_RES = (
    ("masm", re.compile(r"^dora_cannon_compiler::masm::(?:\w+::<impl dora_cannon_compiler::masm::MacroAssembler>"
                        r"|MacroAssembler)::(\w+)")),
    ("asm", re.compile(r"^dora_cannon_compiler::asm::BaselineAssembler::<'a>::(\w+)")),
)


def last(p):
    return p.rsplit("::", 1)[-1]


def _rule(chk, rid, text, more=None):
    """the rule object with this id if the property's own module already created it (the arm64 instances extend it),
    otherwise a new one"""
    for r in chk.rules:
        if r.name == rid:
            if more and more not in r.text:
                r.text += "; " + more
            return r
    return chk.rule(rid, text if not more else "%s; %s" % (text, more))


_STALE = "masm/arm64.rs (cfg(aarch64)) is not analysed on this host"
_NOW = ("masm/arm64.rs (cfg(aarch64)) is analysed from a second fact set type-checked for aarch64-unknown-linux-gnu "
        "(rules/a64.py); arm64 code is never executed")


def _a64(F, r):
    """the aarch64 fact set, or None with an analysis failure recorded on r"""
    try:
        A = F.a64()
    except Exception as e:      # facts.AnalysisError: the tree does not type-check for aarch64
        r.anchor("aarch64 fact set (%s)" % str(e)[:160], False)
        return None
    chk = r.check
    chk.assumptions[:] = [a.replace(_STALE, _NOW) for a in chk.assumptions]
    t = "nightly rustc name resolution/type check/MIR construction for --target aarch64-unknown-linux-gnu (-Zbuild-std)"
    if t not in chk.trusted:
        chk.trusted.append(t)
    return A


def layer_key(p):
    for (layer, rx) in _KEY_RES:
        m = rx.match(p)
        if m:
            return (layer, m.group(1))
    return None


def agg_adt(rv):
    """['agg', ['adt', path, variant], ops] → (path, variant)"""
    if rv[0] == "agg" and isinstance(rv[1], list) and rv[1] and rv[1][0] == "adt" and len(rv[1]) >= 3:
        return rv[1][1], rv[1][2]
    return None


def origin_adt(B, op, defs):
    """operand → ('variant', path, name) | ('param', i) | ('other', descr)"""
    o = cfg.origin(B, op, defs)
    if o[0] == "agg" and isinstance(o[1], list) and o[1] and o[1][0] == "adt" and len(o[1]) >= 3:
        return ("variant", o[1][1], o[1][2])
    if o[0] == "param" and not [x for x in o[2] if x not in ("*", "&")]:
        return ("param", o[1])
    return ("other", o[0])


# --------------------------------------------------------------------------- effect summaries
EFFECTS = ("trap-kinds", "slow-paths", "runtime-functions", "write-barrier", "relocation-kinds",
           "stack-map", "call-instruction", "position", "comment", "emits-code")


class Layer:
    """masm (arch-specific impl + arch-independent masm.rs) and asm.rs (BaselineAssembler) of one fact set, keyed by
    (layer, method name); closures are merged into their method"""

    def __init__(self, S, arch, call_insns, emitting=()):
        self.arch = arch
        self.emitting = set(emitting)
        self.crate = S.crate("dora_cannon_compiler")
        self.trap_ty = None
        dc = S.crate("dora_compiler")
        t = dc.adt("abi::Trap")
        self.trap_ty = t["path"] if t else None
        self.items = {f["path"]: f for f in self.crate.items["fns"]}
        self.bodies = {}
        self.paths = {}
        for p, mb in self.crate.mir.items():
            k = layer_key(p)
            if k is None:
                continue
            if "{closure" not in p:
                self.paths[k] = p
                self.bodies.setdefault(k, []).insert(0, cfg.Body(mb))     # the method's own body first
            else:
                self.bodies.setdefault(k, []).append(cfg.Body(mb))
        self.call_insns = call_insns
        self.direct = {}
        self.edges = {}
        self.untraceable = []
        self.constructed_traps = {}
        for k, bs in self.bodies.items():
            self._summarize(k, bs)
        self.effects = self._close()

    def sinks(self):
        """methods with a Trap-typed parameter: the trap/bailout emitters"""
        out = set()
        for k, p in self.paths.items():
            it = self.items.get(p)
            if it and self.trap_ty in it["inputs"]:
                out.add(k)
        return out

    def _summarize(self, k, bs):
        d = {e: set() for e in EFFECTS}
        edges = set()
        built = set()
        for B in bs:
            defs = None
            for blk in B.blocks:
                if blk["c"]:
                    continue
                for s in blk["s"]:
                    if s[0] != "a":
                        continue
                    a = agg_adt(s[2])
                    if not a:
                        continue
                    path, variant = a
                    if path.endswith("::SlowPathKind"):
                        d["slow-paths"].add(variant)
                    elif path.endswith("::RuntimeFunction"):
                        d["runtime-functions"].add(variant)
                    elif path.endswith("::RelocationKind"):
                        d["relocation-kinds"].add(variant)
                    elif path == self.trap_ty:
                        built.add(variant)
            for x in B.calls:
                nm = x.name or ""
                ck = layer_key(nm)
                if ck is not None and ck != k:
                    edges.add(ck)
                if nm.endswith("::GcPointTable::insert"):
                    d["stack-map"].add("recorded")
                elif nm.endswith("::LocationTable::insert"):
                    d["position"].add("recorded")
                elif nm.endswith("::CommentTable::insert"):
                    d["comment"].add("recorded")
                if nm in self.call_insns:
                    d["call-instruction"].add("emitted")
                if nm in self.emitting:
                    d["emits-code"].add("yes")
                it = self.items.get(nm)
                if it and ck is not None and self.trap_ty in it["inputs"]:
                    for i, ty in enumerate(it["inputs"]):
                        if ty != self.trap_ty or i >= len(x.args):
                            continue
                        if defs is None:
                            defs = cfg.simple_defs(B)
                        o = origin_adt(B, x.args[i], defs)
                        if o[0] == "variant" and o[1] == self.trap_ty:
                            d["trap-kinds"].add(o[2])
                        elif o[0] == "param" and B.local_ty(o[1]) == self.trap_ty:
                            pass        # resolved at this method's own callers
                        else:
                            d["trap-kinds"].add("?")
                            self.untraceable.append((k, last(nm), x.where()))
        # naming anchor (one line): the barrier fast-path emitters of the masm layer carry "barrier" in their name
        if k[0] == "masm" and "barrier" in k[1]:
            d["write-barrier"].add(k[1])
        self.direct[k] = d
        self.edges[k] = edges
        self.constructed_traps[k] = built

    def _close(self):
        eff = {k: {e: set(v) for e, v in d.items()} for k, d in self.direct.items()}
        changed = True
        while changed:
            changed = False
            for k, es in self.edges.items():
                for c in es:
                    ce = eff.get(c)
                    if ce is None:
                        continue
                    for e in EFFECTS:
                        if not ce[e] <= eff[k][e]:
                            eff[k][e] |= ce[e]
                            changed = True
        return eff


def asm_names(S, prefix):
    c = S.crate("dora_asm")
    return sorted(p[len(prefix):] for p in c.mir if p.startswith(prefix) and "::" not in p[len(prefix):])


def mnemonic(n):
    return n.split("_")[0]


def a64_call_insns(A):
    # ISA fact (one line): BL and BLR (and the pointer-authenticating BLRA* forms) are the A64 branch-with-link
    # instructions; everything else that transfers control leaves no return address
    return {A64 + n for n in asm_names(A, A64) if mnemonic(n) == "bl" or mnemonic(n).startswith("blr")}


def x64_call_insns(F):
    return {X64 + n for n in asm_names(F, X64) if mnemonic(n) == "call"}


def emitting_insns(S, prefix):
    """assembler methods that (transitively) append bytes to the code buffer: callers of AssemblerBuffer::emit_*"""
    from callgraph import CallGraph
    cg = CallGraph(S, libs=["dora_asm"], bins=[])
    seeds = [p for p in cg.bodies if re.search(r"AssemblerBuffer::emit_u\d+$", p)]
    return {p for p in cg.callers_closure(seeds) if p.startswith(prefix)}


_LAYERS = {}


def layers(F, A):
    key = (id(F), id(A))
    if key not in _LAYERS:
        _LAYERS.clear()
        _LAYERS[key] = (Layer(F, "x64", x64_call_insns(F), emitting_insns(F, X64)),
                        Layer(A, "arm64", a64_call_insns(A), emitting_insns(A, A64)))
    return _LAYERS[key]


def fmt(s):
    return "{%s}" % ",".join(sorted(s))


# frozen exceptions to effect parity: (layer, method, effect) → one-line reason.  Only asymmetries that the ISA forces
# and that leave the observable behaviour of the compiled program unchanged belong here.
PARITY_EXCEPTIONS = {}


def parity(r, F, A, effects, observe_one_sided=True, floors=True):
    """compare, per method present in both builds, the transitive effect sets named in `effects`"""
    LX, LA = layers(F, A)
    both = sorted(set(LX.effects) & set(LA.effects))
    if floors:
        r.floor("MacroAssembler methods present in both masm::x64 and masm::arm64",
                sum(1 for k in both if k[0] == "masm" and LX.paths.get(k, "").startswith(MASM_X64)
                    and LA.paths.get(k, "").startswith(MASM_A64)), 100)
        r.floor("arch-independent masm.rs / asm.rs methods compared", sum(
            1 for k in both if not LA.paths.get(k, "").startswith(MASM_A64)), 150)
    if observe_one_sided:
        for k in sorted(set(LX.effects) ^ set(LA.effects)):
            side = "x64" if k in LX.effects else "arm64"
            L = LX if side == "x64" else LA
            r.observe("%s::%s exists only in the %s build (effects: %s)" % (
                k[0], k[1], side, {e: sorted(v) for e, v in L.effects[k].items() if v and e in effects}))
    diffs = {}
    for k in both:
        for e in effects:
            a, b = LX.effects[k][e], LA.effects[k][e]
            if a != b:
                diffs[(k, e)] = (a ^ b)
    n_non_empty = 0
    for k in both:
        name = LA.paths.get(k) or "%s::%s" % k
        for e in effects:
            a, b = LX.effects[k][e], LA.effects[k][e]
            nontrivial = bool(a or b)
            n_non_empty += 1 if nontrivial else 0
            r.instance("%s:%s" % (name, e), nontrivial=nontrivial,
                       sample={"method": name, "effect": e, "x64": sorted(a), "arm64": sorted(b)} if nontrivial else None)
            if a == b:
                continue
            # a difference that is entirely the difference of a compared callee is reported at the callee
            explained = set()
            for c in (LX.edges.get(k, set()) | LA.edges.get(k, set())):
                if c in LX.effects and c in LA.effects and (c, e) in diffs:
                    explained |= diffs[(c, e)]
            if (a ^ b) <= explained:
                continue
            why = PARITY_EXCEPTIONS.get((k[0], k[1], e))
            if why:
                r.observe("%s:%s x64=%s arm64=%s — accepted: %s" % (name, e, fmt(a), fmt(b), why))
                continue
            r.violation("%s:%s:x64=%s:arm64=%s" % (name, e, fmt(a), fmt(b)),
                        "the x64 and arm64 implementations of %s::%s differ in %s: x64 %s, arm64 %s — the same Dora "
                        "program behaves differently on the two targets (a check, slow path, runtime call, barrier or "
                        "table record exists on one side only)" % (k[0], k[1], e, fmt(a), fmt(b)),
                        "%s:%d" % (LA.bodies[k][0].file, LA.bodies[k][0].line))
    return LX, LA, n_non_empty


def run_c02(chk, F):
    r = chk.rule("C02.R12", "every MacroAssembler/BaselineAssembler method present in both the x86_64 and the aarch64 "
                            "build has the same effect summary (transitively through masm): Trap kinds reaching a "
                            "bailout/trap emitter, SlowPathKind constructors, RuntimeFunction variants, write-barrier "
                            "emitters reached, RelocationKind recorded")
    from rules import boots_width
    boots_width.run(chk, F)         # C02.R16: Dora trees only, independent of the aarch64 fact set
    A = _a64(F, r)
    if A is None:
        return
    eff = ("trap-kinds", "slow-paths", "runtime-functions", "write-barrier", "relocation-kinds")
    LX, LA, n = parity(r, F, A, eff)
    r.floor("non-empty (method, effect) pairs", n, 90)
    for L in (LX, LA):
        sinks = L.sinks()
        r.floor("%s trap/bailout emitters (methods with a Trap parameter)" % L.arch, len(sinks), 4)
        pushes = [k for k in sinks if any((x.name or "").endswith("Vec::<T, A>::push") for B in L.bodies[k]
                                          for x in B.calls)]
        r.anchor("%s: a Trap-taking method queues the bailout (Vec::push)" % L.arch, pushes)
        tt = [k for k in sinks if "TrapTrampoline" in L.direct[k]["runtime-functions"]]
        r.anchor("%s: a Trap-taking method calls RuntimeFunction::TrapTrampoline" % L.arch, tt)
        for (k, callee, where) in L.untraceable:
            if k in sinks or not L.paths.get(k, "").startswith((MASM_A64, MASM_X64)):
                continue        # arch-independent source is the same text in both builds (emit_bailouts drains the
                #                 deferred list there; every push was seen at its own site)
            r.violation("%s::%s:%s:untraceable-trap-kind" % (k[0], k[1], callee),
                        "cannot trace the Trap argument of %s to a constant or a parameter (%s)" % (callee, L.arch),
                        where)
        for k, built in sorted(L.constructed_traps.items()):
            lost = built - L.direct[k]["trap-kinds"]
            if lost:
                r.observe("%s %s::%s constructs Trap::%s without passing it to an emitter" % (
                    L.arch, k[0], k[1], "/".join(sorted(lost))))
    rule_r9_arm64(chk, F, A)
    rule_div_width(chk, F, A)
    rule_compare_width(chk, F, A)


# --------------------------------------------------------------------------- instruction facts derived from dora_asm
class A64Insns:
    """what the names and bodies of dora_asm::arm64::AssemblerArm64 say about each instruction method"""

    def __init__(self, A):
        self.c = A.crate("dora_asm")
        self.items = {f["path"]: f for f in self.c.items["fns"]}
        self.names = set(asm_names(A, A64))
        self._w = {}

    def width(self, name, depth=0):
        """operand width in bits of a data-processing / compare-and-branch form: the literal passed for the
        encoder's `sf` parameter (1/true = 64, 0/false = 32), looked up through wrappers (cmp_ext → subs_ext → cls)"""
        if name in self._w:
            return self._w[name]
        self._w[name] = None
        b = self.c.hir.get(A64 + name)
        out = None
        if b is not None and depth < 6:
            found = set()
            inner = set()
            for cs in hirq.calls(b["body"]):
                it = self.items.get(cs.callee or "")
                if not it:
                    continue
                ps = it.get("params") or []
                if "sf" in ps:
                    args = cs.all_args() if cs.is_method else list(cs.args)
                    i = ps.index("sf")
                    if i < len(args):
                        a = hirq.strip(args[i])
                        if hirq.is_node(a) and a[0] == "lit" and a[1] in ("int", "bool"):
                            found.add(64 if a[2] in (1, True) else 32)
                        else:
                            found.add(None)
                elif (cs.callee or "").startswith(A64) and last(cs.callee) in self.names:
                    w = self.width(last(cs.callee), depth + 1)
                    if w is not None:
                        inner.add(w)
            if len(found) == 1 and None not in found:
                out = found.pop()
            elif not found and len(inner) == 1:
                out = inner.pop()
        # cross-check with the naming convention X / X_w
        if out is None:
            if name.endswith("_w"):
                out = 32
            elif name + "_w" in self.names:
                out = 64
        self._w[name] = out
        return out

    # ---- memory instructions (names only; grammar of the A64 mnemonics, one line of reason each)
    LSE_BASES = ("swp", "cas", "ldadd", "ldclr", "ldeor", "ldset", "ldsmax", "ldsmin", "ldumax", "ldumin")

    def mem(self, name):
        """→ None for non-memory instructions, else dict(kind, acq, rel, bits)"""
        m = mnemonic(name)
        bits = 64
        if name.endswith("_w"):
            bits = 32
        core = m
        for base in self.LSE_BASES:
            if m.startswith(base):
                rest = m[len(base):]
                if rest and rest[-1] in "bh":        # byte / halfword forms carry the size as last letter
                    bits = 8 if rest[-1] == "b" else 16
                    rest = rest[:-1]
                if rest in ("", "a", "l", "al"):    # LSE ordering suffixes: a = acquire, l = release
                    return {"kind": "lse", "acq": "a" in rest, "rel": "l" in rest, "bits": bits, "base": base}
        if not (m.startswith("ld") or m.startswith("st")):
            return None
        if core[-1] in "bh" and len(core) > 3:
            bits = 8 if core[-1] == "b" else 16
            core = core[:-1]
        if core in ("ldxr", "ldaxr"):               # load-exclusive; the `a` form has acquire semantics
            return {"kind": "ldx", "acq": core == "ldaxr", "rel": False, "bits": bits}
        if core in ("stxr", "stlxr"):               # store-exclusive; the `l` form has release semantics
            return {"kind": "stx", "acq": False, "rel": core == "stlxr", "bits": bits}
        if core in ("ldar", "ldapr"):               # load-acquire
            return {"kind": "ldar", "acq": True, "rel": False, "bits": bits}
        if core == "stlr":                          # store-release
            return {"kind": "stlr", "acq": False, "rel": True, "bits": bits}
        if name.endswith("_s") or name.endswith("_d"):
            bits = 32 if name.endswith("_s") else 64
        return {"kind": "plain-load" if m.startswith("ld") else "plain-store", "acq": False, "rel": False, "bits": bits}


# ARM condition codes as predicates over (N, Z, C, V) — architecture facts (Arm ARM C1.2.4), used to evaluate a
# condition on the four possible results of a floating-point compare
CONDS = {
    "EQ": lambda n, z, c, v: z, "NE": lambda n, z, c, v: not z,
    "CS": lambda n, z, c, v: c, "HS": lambda n, z, c, v: c, "CC": lambda n, z, c, v: not c, "LO": lambda n, z, c, v: not c,
    "MI": lambda n, z, c, v: n, "PL": lambda n, z, c, v: not n, "VS": lambda n, z, c, v: v, "VC": lambda n, z, c, v: not v,
    "HI": lambda n, z, c, v: c and not z, "LS": lambda n, z, c, v: (not c) or z,
    "GE": lambda n, z, c, v: n == v, "LT": lambda n, z, c, v: n != v,
    "GT": lambda n, z, c, v: (not z) and n == v, "LE": lambda n, z, c, v: z or n != v,
}
# FCMP result flags (Arm ARM, FCMP): less 1000, equal 0110, greater 0010, unordered 0011
FCMP = {"less": (1, 0, 0, 0), "equal": (0, 1, 1, 0), "greater": (0, 0, 1, 0), "unordered": (0, 0, 1, 1)}
SIGNED_LESS = {"LT"}
UNSIGNED_LESS = {"LO", "CC"}
SIGN_OF_DIFFERENCE = {"MI"}


def mode_bits(S):
    """MachineMode variant → size in bits, read off MachineMode::size()"""
    dc = S.crate("dora_compiler")
    b = dc.hir_fn("layout::MachineMode::size") or dc.hir_fn("MachineMode::size")
    out = {}
    if b is None:
        return out
    for n in hirq.walk(b["body"]):
        if n[0] == "match":
            for (pat, g, arm) in hirq.match_arms(n):
                v = hirq.lit_int(arm)
                for d in hirq.pat_paths(pat):
                    if "MachineMode::" in d:
                        # ptr_width() arms: pointer-sized = 8 bytes on both 64-bit targets
                        out[last(d)] = (v * 8) if v is not None else 64
    return out


# Dora's ordered scalar types as the compare sees them: (value bits, signed).  One line of reason each.
MODE_SIGNED = {"Int8": False}        # MachineMode::Int8 carries UInt8 only (Dora has no signed 8-bit type)
DORA_TYPES = {"UInt8": (8, False),   # zero-extended byte
              "Char": (21, False),   # Unicode scalar value ≤ 0x10FFFF
              "Int32": (32, True), "Int64": (64, True)}


def judge_int_less(cond, val_bits, signed, cmp_bits):
    """→ None if `cond` taken after an integer compare of cmp_bits means 'lhs < rhs' for every pair of values of
    the operand type, else a (tag, explanation)"""
    narrower = val_bits < cmp_bits       # operands extended into a wider compare: the subtraction cannot overflow
    if cond in SIGNED_LESS:
        if signed or narrower:
            return None
        return ("signed-condition-for-unsigned", "a value with the top bit set compares as negative")
    if cond in UNSIGNED_LESS:
        if not signed:
            return None
        return ("unsigned-condition-for-signed", "a negative value compares as huge: (-1).cmp(1) yields Greater")
    if cond in SIGN_OF_DIFFERENCE:
        if narrower and not signed:
            return None
        return ("sign-of-difference", "MI tests the sign of lhs-rhs, which is the wrong way round whenever the "
                "subtraction overflows: %s::min_value().cmp(1) yields Greater, %s::max_value().cmp(-1) yields Less"
                % (("Int%d" % val_bits,) * 2))
    return ("not-a-less-condition", "Cond::%s does not mean 'less' after a compare" % cond)


def rule_r9_arm64(chk, F, A):
    r = _rule(chk, "C02.R9", "three-way comparison (Ordering) lowering",
              "arm64 (baseline masm::arm64 and boots codegen/arm64.dora): the early-out 'less' condition after an "
              "integer cmp is in the class of the operand type (signed LT, unsigned LO; MI only when the operands are "
              "narrower than the compare and zero-extended), and after fcmp is taken for 'less' only")
    insns = A64Insns(A)
    bits = mode_bits(A)
    r.floor("MachineMode sizes read from MachineMode::size", len(bits), 5)
    ca = A.crate("dora_cannon_compiler")
    n_int = n_float = 0
    x64_unordered_not_less = None
    xf = F.crate("dora_cannon_compiler").hir.get(MASM_X64 + "float_cmp_ordering")
    if xf is not None:
        x64_unordered_not_less = any(n[0] == "def" and n[2].endswith("Condition::Parity") for n in hirq.walk(xf["body"]))
    for fname in ("cmp_ordering", "float_cmp_ordering"):
        b = ca.hir.get(MASM_A64 + fname)
        if not r.anchor("arm64 MacroAssembler::%s" % fname, b):
            continue
        p = MASM_A64 + fname
        ms = [n for n in hirq.walk(b["body"]) if n[0] == "match" and hirq.local_name(n[1]) == "mode"]
        if not r.anchor("arm64 %s: match over the machine mode" % fname, ms):
            continue
        m = ms[0]
        inside = set(id(x) for x in hirq.walk(m))
        outer_bc = [cs for cs in hirq.calls(b["body"]) if cs.is_method and cs.callee == A64 + "bc"
                    and id(cs.node) not in inside]
        outer_cond = None
        if outer_bc:
            d = hirq.def_path(outer_bc[0].args[0])
            if d and "::Cond::" in d:
                outer_cond = last(d)
        for (pat, g, arm) in hirq.match_arms(m):
            modes = [last(d) for d in hirq.pat_paths(pat) if "MachineMode::" in d]
            if not modes:
                continue
            cmps = [cs.name for cs in hirq.calls(arm) if cs.is_method and (cs.callee or "").startswith(A64)
                    and mnemonic(cs.name) in ("cmp", "cmn", "subs", "fcmp", "fcmpe")]
            conds = [last(x[2]) for x in hirq.walk(arm) if x[0] == "def" and "::arm64::Cond::" in x[2]]
            cond = conds[-1] if conds else outer_cond
            if not cmps:
                continue
            for mode in modes:
                key = "%s:%s" % (p, mode)
                if cond is None or cond not in CONDS:
                    r.instance(key)
                    r.violation(key + ":less-condition-not-found", "cannot find the condition of the early-out branch",
                                "%s:%d" % (b["file"], b["line"]))
                    continue
                if mnemonic(cmps[0]).startswith("fcmp"):
                    n_float += 1
                    taken = {o: bool(CONDS[cond](*fl)) for o, fl in FCMP.items()}
                    r.instance(key, sample={"fn": fname, "mode": mode, "compare": cmps[0], "less": cond, "taken": taken})
                    for o in ("equal", "greater"):
                        if taken[o] or not taken["less"]:
                            r.violation("%s:%s-after-%s:not-less" % (key, cond, cmps[0]),
                                        "Cond::%s after %s is %staken for 'less' and %staken for '%s'" % (
                                            cond, cmps[0], "" if taken["less"] else "not ", "" if taken[o] else "not ",
                                            o), b["file"])
                    if taken["unordered"]:
                        r.observe("%s: Cond::%s after %s is also taken for an unordered result (a NaN operand): "
                                  "NaN.cmp(x) is Less on arm64%s" % (
                                      key, cond, cmps[0], "; the x64 sibling branches on Condition::Parity and yields "
                                      "Greater" if x64_unordered_not_less else ""))
                    continue
                n_int += 1
                cb = insns.width(cmps[0])
                vb = bits.get(mode)
                signed = MODE_SIGNED.get(mode, True)
                r.instance(key, sample={"fn": fname, "mode": mode, "compare": cmps[0], "compare_bits": cb,
                                        "value_bits": vb, "signed": signed, "less": cond})
                if cb is None or vb is None:
                    r.violation(key + ":width-unknown", "cannot determine the width of %s / of MachineMode::%s" % (
                        cmps[0], mode), b["file"])
                    continue
                if vb > cb:
                    r.violation("%s:%s:compare-narrower-than-operands" % (key, cmps[0]),
                                "%d-bit operands are compared with a %d-bit compare" % (vb, cb), b["file"])
                    continue
                j = judge_int_less(cond, vb, signed, cb)
                if j:
                    r.violation("%s:%s-after-%s:%s" % (key, cond, cmps[0], j[0]),
                                "the baseline arm64 lowering of cmp for MachineMode::%s branches on Cond::%s after %s: "
                                "%s" % (mode, cond, cmps[0], j[1]), "%s:%d" % (b["file"], b["line"]))
    r.floor("arm64 baseline integer compare modes", n_int, 3)
    r.floor("arm64 baseline float compare modes", n_float, 2)
    # boots
    D = F.dora()
    f = "pkgs/boots/codegen/arm64.dora"
    t = D.get(f)
    nb = 0
    if r.anchor(f, t):
        fns = [x for x in doraq.functions(t, f) if x.name == "emit_compare_ordering" and x.body is not None]
        if r.anchor("boots arm64 emit_compare_ordering", fns):
            fn = fns[0]
            ms = [n for n in doraq.walk(fn.body) if n[0] == "MATCH_EXPR"]
            if r.anchor("boots arm64 emit_compare_ordering: match over the type", ms):
                for (ptxt, pat, body) in doraq.direct_match_arms(ms[0]):
                    tys = re.findall(r"Type::(\w+)", ptxt)
                    cs = list(doraq.calls(body))
                    cmps = [c.name for c in cs if c.callee.startswith("self.asm.") and mnemonic(c.name) in (
                        "cmp", "cmn", "subs", "fcmp", "fcmpe")]
                    bcs = [c for c in cs if c.callee == "self.asm.bc"]
                    if not tys or not cmps:
                        continue
                    cond = (bcs[0].arg_text(0) or "").split("::")[-1] if bcs else None
                    for ty in tys:
                        key = "%s::%s:%s" % (f, fn.qual, ty)
                        nb += 1
                        r.instance(key, sample={"type": ty, "compare": cmps[0], "less": cond})
                        if cond not in CONDS:
                            r.violation(key + ":less-condition-not-found", "no bc(Cond::..) after the compare",
                                        fn.where())
                            continue
                        if mnemonic(cmps[0]).startswith("fcmp"):
                            taken = {o: bool(CONDS[cond](*fl)) for o, fl in FCMP.items()}
                            if taken["equal"] or taken["greater"] or not taken["less"]:
                                r.violation("%s:%s-after-%s:not-less" % (key, cond, cmps[0]),
                                            "Cond::%s after %s does not select exactly 'less'" % (cond, cmps[0]),
                                            fn.where())
                            if taken["unordered"]:
                                r.observe("%s: Cond::%s after %s is also taken for an unordered result (NaN)" % (
                                    key, cond, cmps[0]))
                            continue
                        if ty not in DORA_TYPES:
                            r.violation(key + ":unknown-operand-type", "no value range known for Type::%s" % ty,
                                        fn.where())
                            continue
                        vb, signed = DORA_TYPES[ty]
                        cb = insns.width(cmps[0])
                        if cb is None:
                            r.violation(key + ":width-unknown", "cannot determine the width of %s" % cmps[0], fn.where())
                            continue
                        if vb > cb:
                            r.violation("%s:%s:compare-narrower-than-operands" % (key, cmps[0]),
                                        "%d-bit operands are compared with a %d-bit compare" % (vb, cb), fn.where())
                            continue
                        j = judge_int_less(cond, vb, signed, cb)
                        if j:
                            r.violation("%s:%s-after-%s:%s" % (key, cond, cmps[0], j[0]),
                                        "the optimizing compiler's arm64 lowering of cmp for %s branches on Cond::%s "
                                        "after %s: %s" % (ty, cond, cmps[0], j[1]), fn.where())
    r.floor("boots arm64 compare types", nb, 5)


def rule_div_width(chk, F, A):
    r = chk.rule("C02.R13", "arm64 baseline division/modulo: under each machine mode the instruction that branches to "
                            "the DIV0 bailout tests the divisor at the width at which the divide instruction reads it")
    LX, LA = layers(F, A)
    insns = A64Insns(A)
    ca = A.crate("dora_cannon_compiler")
    n = 0
    for k in sorted(LA.direct):
        p = LA.paths.get(k, "")
        if "DIV0" not in LA.direct[k]["trap-kinds"] or not p.startswith(MASM_A64):
            continue
        b = ca.hir.get(p)
        if not r.anchor("HIR of %s" % p, b):
            continue
        labels = set()
        for cs in hirq.calls(b["body"]):
            if (cs.callee or "") and layer_key(cs.callee) and any(
                    hirq.is_node(x) and x[0] == "def" and x[2].endswith("Trap::DIV0") for a in cs.args for x in hirq.walk(a)):
                for a in cs.args:
                    nm = hirq.local_name(a)
                    if nm:
                        labels.add(nm)
        tests, divs = {}, {}
        for m in hirq.walk(b["body"]):
            if m[0] != "match" or hirq.local_name(m[1]) != "mode":
                continue
            for (pat, g, arm) in hirq.match_arms(m):
                modes = [last(d) for d in hirq.pat_paths(pat) if "MachineMode::" in d]
                flags = None
                for cs in hirq.calls(arm):
                    if not (cs.is_method and (cs.callee or "").startswith(A64)):
                        continue
                    if mnemonic(cs.name) in ("cmp", "cmn", "tst", "subs", "adds", "ands"):
                        flags = cs.name
                    if any(hirq.local_name(a) in labels for a in cs.args):
                        # a conditional branch has no width of its own: the compare that set the flags has
                        t = cs.name if insns.width(cs.name) is not None or flags is None else flags
                        for mo in modes:
                            tests.setdefault(mo, set()).add(t)
                    if mnemonic(cs.name) in ("sdiv", "udiv"):
                        for mo in modes:
                            divs.setdefault(mo, set()).add(cs.name)
        if not r.anchor("%s: zero test and divide found per mode" % p, tests and divs):
            continue
        for mo in sorted(set(tests) | set(divs)):
            tw = {insns.width(t) for t in tests.get(mo, ())}
            dw = {insns.width(d) for d in divs.get(mo, ())}
            n += 1
            key = "%s:%s" % (p, mo)
            r.instance(key, sample={"fn": p, "mode": mo, "zero_test": sorted(tests.get(mo, ())), "test_bits": sorted(
                x or 0 for x in tw), "divide": sorted(divs.get(mo, ())), "divide_bits": sorted(x or 0 for x in dw)})
            if not tw or not dw or None in tw or None in dw:
                r.violation(key + ":zero-test-or-divide-not-recognised",
                            "cannot pair the DIV0 guard with the divide instruction under MachineMode::%s" % mo, b["file"])
                continue
            if tw != dw:
                t0 = sorted(tests[mo])[0]
                d0 = sorted(divs[mo])[0]
                if min(tw) >= max(dw):
                    # wider guard: harmless as long as 32-bit values are zero-extended in their registers, which every
                    # write to a W register guarantees architecturally — recorded, not a violation
                    r.observe("%s: the DIV0 guard `%s` tests %s bits but `%s` divides by %s bits (correct only "
                              "because 32-bit values are kept zero-extended)" % (
                                  key, t0, "/".join(map(str, sorted(tw))), d0, "/".join(map(str, sorted(dw)))))
                    continue
                r.violation("%s:%s-guards-%s:zero-test-narrower-than-divide" % (key, t0, d0),
                            "under MachineMode::%s the DIV0 guard `%s` tests %s bits of the divisor but `%s` divides by "
                            "%s bits: a divisor whose low 32 bits are zero (1 / 4294967296) traps with 'division by "
                            "zero' although it is not zero" % (
                                mo, t0, "/".join(map(str, sorted(tw))), d0, "/".join(map(str, sorted(dw)))),
                            "%s:%d" % (b["file"], b["line"]))
    r.floor("arm64 (division routine, mode) pairs", n, 4)


# --------------------------------------------------------------------------- operand descriptors (MIR)
_LOOK_THROUGH = ("into", "from", "deref", "deref_mut", "reg", "clone", "borrow", "as_ref")


def desc(B, op, defs, depth=0):
    """symbolic description of an operand: ('named', CONST) | ('int', v) | ('param', i) | ('variant', path, name) |
    ('call', callee, (arg descs), dest local) | ('?', ..); conversions (Into/From/Deref/ScratchReg::reg) are looked through"""
    o = cfg.origin(B, op, defs)
    if o[0] == "const":
        k = o[1]
        if "const" in k:
            return ("named", last(k["const"]))
        if "v" in k:
            return ("int", k["v"])
        return ("const", k.get("ty"))
    if o[0] == "param":
        return ("param", o[1])
    if o[0] == "agg" and isinstance(o[1], list) and o[1] and o[1][0] == "adt" and len(o[1]) >= 3:
        return ("variant", o[1][1], o[1][2])
    if o[0] == "call":
        c = o[1]
        nm = cfg.callee_name(cfg.callee_of(c["f"])) or ""
        if last(nm) in _LOOK_THROUGH and c["a"] and depth < 8:
            return desc(B, c["a"][0], defs, depth + 1)
        if depth < 4:
            return ("call", nm, tuple(desc(B, a, defs, depth + 1) for a in c["a"]), c["d"][0])
        return ("call", nm, (), c["d"][0])
    return ("?",) + tuple(str(x) for x in o[:2])


def mentions(d, pred):
    if pred(d):
        return True
    if isinstance(d, tuple):
        return any(mentions(x, pred) for x in d if isinstance(x, tuple))
    return False


def is_named(name):
    return lambda d: isinstance(d, tuple) and len(d) == 2 and d[0] == "named" and d[1] == name


def calls_fn(suffix):
    return lambda d: isinstance(d, tuple) and d and d[0] == "call" and d[1].endswith(suffix)


def asm_calls(B):
    """[(Call, insn name)] for the dora_asm::arm64 instruction calls of a body, in block order"""
    return [(x, x.name[len(A64):]) for x in B.calls if (x.name or "").startswith(A64)]


def slow_path_for(LA, masm_method, label_param_index=1):
    """(caller key, variant, same_label) for asm-layer callers of masm::<method>: the SlowPathKind they push and whether
    its first operand is the very label handed to the masm method"""
    out = []
    for k, es in sorted(LA.edges.items()):
        if k[0] != "asm" or ("masm", masm_method) not in es:
            continue
        for B in LA.bodies[k]:
            defs = cfg.simple_defs(B)
            lbls = [desc(B, x.args[label_param_index], defs) for x in B.calls
                    if layer_key(x.name or "") == ("masm", masm_method) and len(x.args) > label_param_index]
            for blk in B.blocks:
                for s in blk["s"]:
                    if s[0] == "a":
                        a = agg_adt(s[2])
                        if a and a[0].endswith("::SlowPathKind"):
                            first = desc(B, s[2][2][0], defs) if s[2][2] else None
                            out.append((k, a[1], first in lbls and first is not None and first[0] == "call"))
    return out


def field_size(S, crate, adt, field):
    a = S.crate(crate).adt(adt)
    if not a:
        return None
    for f in a["variants"][0]["fields"]:
        if f["name"] == field:
            return f.get("size")
    return None


# --------------------------------------------------------------------------- C04.R7 on arm64
def run_c04(chk, F):
    r = _rule(chk, "C04.R7", "the compiled safepoint poll compares the thread's state byte with Running",
              "arm64: masm::arm64 safepoint loads the byte at ThreadLocalData::state_offset() off REG_THREAD and "
              "branches to the slow-path label when it is not ThreadState::Running; the caller queues the safepoint "
              "slow path for that label; function entry and loop back-edges reach the poll in the aarch64 build")
    A = _a64(F, r)
    if A is None:
        return
    insns = A64Insns(A)
    ca = A.crate("dora_cannon_compiler")
    p = MASM_A64 + "safepoint"
    mb = ca.mir.get(p)
    if not r.anchor("arm64 MacroAssembler::safepoint", mb):
        return
    B = cfg.Body(mb)
    defs = cfg.simple_defs(B)
    ts = A.crate("dora_compiler").adt("abi::ThreadState")
    running = {v["name"]: v["discr"] for v in ts["variants"]}.get("Running") if ts else None
    r.anchor("ThreadState::Running discriminant", running is not None)
    state_size = field_size(A, "dora_runtime", "threads::ThreadLocalData", "state")
    r.anchor("ThreadLocalData.state size", state_size)
    ac = asm_calls(B)
    loads = []
    for (x, nm) in ac:
        m = insns.mem(nm)
        if m and m["kind"].endswith("load") or (m and m["kind"] in ("ldar",)):
            ds = [desc(B, a, defs) for a in x.args[1:]]
            loads.append((x, nm, m, ds))
    st = [l for l in loads if any(mentions(d, calls_fn("ThreadLocalData::state_offset")) for d in l[3])]
    r.instance(p + ":loads-state", sample={"loads": [l[1] for l in loads], "of_state_offset": [l[1] for l in st],
                                           "Running": running, "state_bytes": state_size})
    if not st:
        r.violation(p + ":not-state-offset",
                    "the arm64 poll does not load from ThreadLocalData::state_offset(): it tests some other word of "
                    "the thread-local block, so a requested safepoint is never (or always) seen", B.file)
        return
    x, nm, m, ds = st[0]
    if not any(mentions(d, is_named("REG_THREAD")) for d in ds):
        r.violation(p + ":not-thread-register", "the state byte is not addressed off REG_THREAD", x.where())
    r.instance(p + ":byte-load")
    if state_size is not None and m["bits"] != state_size * 8:
        r.violation(p + ":%s:not-byte-load" % nm,
                    "`%s` loads %d bits but ThreadLocalData::state is %d byte(s): the neighbouring bytes of the "
                    "thread-local block are read as part of the state, so the poll takes the slow path although the "
                    "thread is Running (or never)" % (nm, m["bits"], state_size), x.where())
    dest = ds[0] if ds else None
    # the branch to the slow-path label (parameter 2 of safepoint(self, lbl))
    brs = [(y, n2, [desc(B, a, defs) for a in y.args[1:]]) for (y, n2) in ac]
    brs = [(y, n2, d2) for (y, n2, d2) in brs if ("param", 2) in d2]
    r.instance(p + ":branch-to-slow-path", sample={"branches": [b[1] for b in brs]})
    ok = False
    why = "no branch to the slow-path label"
    for (y, n2, d2) in brs:
        mn = mnemonic(n2)
        if mn == "cbnz" and running == 0:
            if d2[0] == dest and B.dominates(x.block, y.block) and B.postdominates(y.block, 0):
                ok = True
            else:
                why = "cbnz does not test the register the state byte was loaded into, or can be skipped"
        elif mn == "cbz":
            why = "`%s` branches to the slow path when the state IS Running (0) and falls through otherwise" % n2
        elif mn == "bc":
            cmps = [(z, n3, [desc(B, a, defs) for a in z.args[1:]]) for (z, n3) in ac if mnemonic(n3) == "cmp"
                    and B.dominates(z.block, y.block) and B.dominates(x.block, z.block)]
            cond = [d for d in d2 if d[0] == "variant" and d[1].endswith("::Cond")]
            if cmps and cond and cond[0][2] == "NE" and cmps[-1][2][0] == dest and ("int", running) in cmps[-1][2]:
                ok = True
            else:
                why = "the conditional branch is not `cmp state, #Running; b.ne slow`"
        else:
            why = "`%s` is not a test of the state byte" % n2
    if not ok:
        r.violation(p + ":wrong-branch", "the arm64 poll must take the slow path exactly when state != Running: %s"
                    % why, B.file)
    # caller queues the slow path for the same label
    LX, LA = layers(F, A)
    sp = slow_path_for(LA, "safepoint")
    r.instance("arm64 BaselineAssembler: safepoint slow path queued", sample={"pushes": [(k[1], v, s) for k, v, s in sp]})
    if not any(same for (_k, _v, same) in sp):
        r.violation("dora_cannon_compiler::asm::BaselineAssembler::safepoint:no-slow-path-for-label",
                    "no caller of masm::safepoint queues a SlowPathKind whose start label is the label handed to the "
                    "poll: the branch target is never bound to the safepoint call", F_A64)
    # who emits the poll in the aarch64 build
    from callgraph import CallGraph
    cg = CallGraph(A, libs=["dora_cannon_compiler"], bins=[])
    cgn = [q for q in cg.bodies if "CannonCodeGen" in q]
    entry = [q for q in cgn if q.endswith("::generate")]
    loopers = [q for q in cgn if q.endswith("visit_jump_loop") or q.endswith("emit_jump_loop")
               or q.endswith("visit_loop_start")]
    if r.anchor("CannonCodeGen::generate (aarch64 build)", entry):
        r.instance("aarch64: generate→safepoint")
        if p not in cg.reachable_from(entry):
            r.violation("CannonCodeGen::generate:no-safepoint-poll:aarch64",
                        "function code generation never reaches the arm64 poll", entry[0])
        lp = [q for q in loopers if p in cg.reachable_from([q])]
        r.instance("aarch64: loop-backedge→safepoint", sample={"emitters": lp})
        if not lp:
            r.violation("CannonCodeGen:loop-without-poll:aarch64", "no loop back-edge handler reaches the arm64 poll",
                        "codegen.rs")


# --------------------------------------------------------------------------- C13 on arm64
def rule_stack_limit_arm64(chk, F, A):
    r = _rule(chk, "C13.R1", "the prologue checks the stack limit",
              "arm64: masm::arm64 check_stack_limit loads the word at ThreadLocalData::stack_limit_offset() off "
              "REG_THREAD, compares SP with it in full width with an unsigned condition and branches to the overflow "
              "label, for which the caller queues the stack-overflow slow path")
    insns = A64Insns(A)
    ca = A.crate("dora_cannon_compiler")
    p = MASM_A64 + "check_stack_limit"
    mb = ca.mir.get(p)
    if not r.anchor("arm64 MacroAssembler::check_stack_limit", mb):
        return
    B = cfg.Body(mb)
    defs = cfg.simple_defs(B)
    ac = asm_calls(B)
    lim_size = field_size(A, "dora_runtime", "threads::ThreadLocalData", "stack_limit")
    r.anchor("ThreadLocalData.stack_limit size", lim_size)
    loads = []
    for (x, nm) in ac:
        m = insns.mem(nm)
        if m and (m["kind"].endswith("load") or m["kind"] == "ldar"):
            loads.append((x, nm, m, [desc(B, a, defs) for a in x.args[1:]]))
    st = [l for l in loads if any(mentions(d, calls_fn("ThreadLocalData::stack_limit_offset")) for d in l[3])]
    r.instance(p + ":loads-stack-limit", sample={"loads": [l[1] for l in loads], "limit_bytes": lim_size})
    if not st:
        r.violation(p + ":not-stack-limit-offset",
                    "the arm64 stack check does not load ThreadLocalData::stack_limit_offset(): SP is compared with "
                    "some other word, so deep recursion runs off the stack instead of trapping", B.file)
        return
    x, nm, m, ds = st[0]
    if not any(mentions(d, is_named("REG_THREAD")) for d in ds):
        r.violation(p + ":not-thread-register", "the stack limit is not addressed off REG_THREAD", x.where())
    r.instance(p + ":full-width-load")
    if lim_size is not None and m["bits"] != lim_size * 8:
        r.violation(p + ":%s:narrow-load" % nm, "`%s` loads %d bits of the %d-byte stack limit" % (
            nm, m["bits"], lim_size), x.where())
    limit_reg = ds[0] if ds else None
    # registers derived from SP by an earlier instruction (mov tmp, sp)
    sp_like = [("named", "REG_SP")]
    for (y, n2) in ac:
        d2 = [desc(B, a, defs) for a in y.args[1:]]
        if len(d2) >= 2 and ("named", "REG_SP") in d2[1:] and d2[0] != ("named", "REG_SP") and not insns.mem(n2):
            sp_like.append(d2[0])
    cmps = []
    for (y, n2) in ac:
        if mnemonic(n2) not in ("cmp", "subs"):
            continue
        d2 = [desc(B, a, defs) for a in y.args[1:]]
        regs = [d for d in d2 if d[0] in ("named", "call")]
        if limit_reg in regs and any(s in regs for s in sp_like) and B.dominates(x.block, y.block):
            cmps.append((y, n2, d2))
    r.instance(p + ":compares-sp-with-limit", sample={"compares": [c[1] for c in cmps]})
    if not cmps:
        r.violation(p + ":no-sp-compare", "no compare of SP (or a copy of it) with the loaded limit", B.file)
        return
    y, n2, d2 = cmps[0]
    w = insns.width(n2)
    if w != 64:
        r.violation(p + ":%s:narrow-compare" % n2, "`%s` compares %s bits of two addresses" % (n2, w), y.where())
    # ISA fact (one line): register 31 is SP only in the extended-register and immediate forms; in the shifted-
    # register form of cmp/subs it encodes XZR, so `cmp sp, x` would silently compare zero
    if ("named", "REG_SP") in d2 and "_ext" not in n2 and "_imm" not in n2:
        r.violation(p + ":%s:sp-in-shifted-register-form" % n2,
                    "`%s` is a shifted-register form: register 31 means XZR there, so the limit is compared with 0 "
                    "instead of SP and the check never fires" % n2, y.where())
    sp_first = d2[0] in sp_like
    brs = [(z, n3, [desc(B, a, defs) for a in z.args[1:]]) for (z, n3) in ac if B.dominates(y.block, z.block)]
    brs = [b for b in brs if ("param", 2) in b[2]]
    r.instance(p + ":branch-to-overflow-label", sample={"branches": [b[1] for b in brs], "sp_is_first_operand": sp_first})
    ok = False
    why = "no branch to the overflow label after the compare"
    for (z, n3, d3) in brs:
        cond = [d for d in d3 if d[0] == "variant" and d[1].endswith("::Cond")]
        if mnemonic(n3) != "bc" or not cond:
            why = "`%s` is not a conditional branch on the compare" % n3
            continue
        c = cond[0][2]
        good = {"CC", "LO", "LS"} if sp_first else {"HI", "HS", "CS"}
        if c in good and B.postdominates(z.block, 0):
            ok = True
        elif c in ("LT", "LE", "MI", "GT", "GE", "PL"):
            why = "Cond::%s is a signed condition: addresses in the upper half of the address space compare wrongly" % c
        else:
            why = "Cond::%s does not mean 'SP below the limit' for this operand order" % c
    if not ok:
        r.violation(p + ":wrong-branch", "the arm64 stack check must branch to the overflow label exactly when SP is "
                                         "below the limit (unsigned): %s" % why, B.file)
    LX, LA = layers(F, A)
    sp = slow_path_for(LA, "check_stack_limit")
    r.instance("arm64 BaselineAssembler: stack-overflow slow path queued",
               sample={"pushes": [(k[1], v, s) for k, v, s in sp]})
    if not any(same for (_k, _v, same) in sp):
        r.violation("dora_cannon_compiler::asm::BaselineAssembler::check_stack_limit:no-slow-path-for-label",
                    "no caller of masm::check_stack_limit queues a SlowPathKind whose start label is the overflow "
                    "label", F_A64)
    from callgraph import CallGraph
    cg = CallGraph(A, libs=["dora_cannon_compiler"], bins=[])
    esc = [q for q in cg.bodies if q.endswith("CannonCodeGen::<'a, 'i>::emit_stack_limit_check")]
    if r.anchor("CannonCodeGen::emit_stack_limit_check (aarch64 build)", esc):
        r.instance("aarch64: emit_stack_limit_check→masm")
        if p not in cg.reachable_from(esc):
            r.violation(esc[0] + ":no-masm-check:aarch64", "does not reach the arm64 check_stack_limit", esc[0])


def rule_array_size_arm64(chk, F, A):
    r = _rule(chk, "C13.R6", "the baseline compiler computes an array's allocation size in full register width",
              "arm64: masm::arm64 determine_array_size emits only 64-bit instruction forms and passes only "
              "pointer-width machine modes to the helpers it uses")
    insns = A64Insns(A)
    ca = A.crate("dora_cannon_compiler")
    p = MASM_A64 + "determine_array_size"
    mb = ca.mir.get(p)
    if not r.anchor("masm::arm64 determine_array_size", mb):
        return
    users = [q for q, b in ca.mir.items() if "CannonCodeGen" in q and any(
        (x.name or "").endswith("determine_array_size") for x in cfg.Body(b).calls)]
    r.anchor("aarch64 code generator functions using determine_array_size", users)
    WIDE = {"Ptr", "Int64", "IntPtr"}
    B = cfg.Body(mb)
    defs = cfg.simple_defs(B)
    n = 0
    for x in B.calls:
        nm = x.name or ""
        if nm.startswith(A64):
            ins = nm[len(A64):]
            w = insns.width(ins)
            # ISA fact (one line): the widening multiplies (SMULL/UMULL/SMADDL/…) read 32-bit sources whatever `sf` says
            if re.match(r"^[su]m(ul|add|sub|negl?)l$", mnemonic(ins)) or mnemonic(ins) in ("smnegl", "umnegl"):
                w = 32
            n += 1
            r.instance("%s:%s" % (p, ins), sample={"insn": ins, "bits": w})
            if w is None:
                r.violation("%s:%s:width-unknown" % (p, ins),
                            "cannot determine the operand width of `%s` (no `sf` literal, no _w sibling)" % ins, x.where())
            elif w != 64:
                r.violation("%s:%s:narrow-instruction-in-size-computation" % (p, ins),
                            "`%s` is a %d-bit instruction form: length * element_size (+ header) is truncated to 32 "
                            "bits, so an array of 2^28 16-byte elements gets a size of a few bytes and is granted "
                            "instead of ending in the out-of-memory trap" % (ins, w), x.where())
            continue
        for a in x.args:
            if a[0] not in ("c", "m"):
                continue
            d = desc(B, a, defs)
            if d[0] == "variant" and d[1].endswith("MachineMode"):
                n += 1
                r.instance("%s:%s(MachineMode::%s)" % (p, last(nm), d[2]), sample={"helper": nm, "mode": d[2]})
                if d[2] not in WIDE:
                    r.violation("%s:%s(MachineMode::%s):narrow-mode-in-size-computation" % (p, last(nm), d[2]),
                                "the size computation calls `%s` with MachineMode::%s: the arithmetic is done in fewer "
                                "than 64 bits and wraps for requests of 4 GiB and more" % (last(nm), d[2]), x.where())
    r.floor("arm64 instructions/mode arguments in the size routine", n, 6)


def run_c13(chk, F):
    r0 = _rule(chk, "C13.R1", "the prologue checks the stack limit")
    A = _a64(F, r0)
    if A is None:
        return
    rule_stack_limit_arm64(chk, F, A)
    rule_array_size_arm64(chk, F, A)


# --------------------------------------------------------------------------- C09.R3 on arm64
STX_SAME = ("`%s` names the same register as status and as %s operand: Rs == Rt / Rs == Rn is CONSTRAINED UNPREDICTABLE "
            "for a store-exclusive: the store may write an unknown value, fault or do nothing")
LDX_SAME = "`%s` loads into its own base register: the store-exclusive that follows has lost the address"
CMP_NARROW = ("`%s` compares %d bits of a %d-bit value between the load-exclusive and the store-exclusive: a value that "
              "differs from the expected one only in the upper half is treated as equal and overwritten")


def _dora_block_calls(block):
    """calls made by the direct statements of a BLOCK_EXPR (nested blocks excluded), in source order, and its lets"""
    calls, lets = [], {}
    for st in doraq.nodes(block):
        if st[0] == "LET":
            ns = doraq.nodes(st)
            if len(ns) >= 2:
                lets[doraq.text(ns[0])] = ns[-1]
        stack = [st]
        found = []
        while stack:
            n = stack.pop()
            if not doraq.is_node(n):
                continue
            if n is not st and n[0] in ("BLOCK_EXPR", "LAMBDA_EXPR"):
                continue
            if n[0] in ("CALL_EXPR", "METHOD_CALL_EXPR"):
                found.append(doraq.Call(n))
            for c in n[2]:
                if doraq.is_node(c):
                    stack.append(c)
        calls += sorted(found, key=lambda c: c.line)
    return calls, lets


def boots_atomics_arm64(r, F, insns):
    """the optimizing compiler's arm64 emitters for the atomic operations, under the obligations of masm::arm64"""
    D = F.dora()
    f = "pkgs/boots/codegen/arm64.dora"
    t, disp, asm = D.get(f), D.get("pkgs/boots/codegen.dora"), D.get("pkgs/boots/assembler/arm64.dora")
    if not (r.anchor(f, t) and r.anchor("pkgs/boots/codegen.dora", disp)
            and r.anchor("pkgs/boots/assembler/arm64.dora", asm)):
        return
    r.text += ("; the same obligations for the arm64 emitters that boots' instruction dispatcher calls for Op::Atomic* "
               "(pkgs/boots/codegen/arm64.dora), plus: a store-exclusive's status register differs from its data and "
               "address registers, and the compare of a compare-exchange loop covers the whole value")
    # the emitters: what emit_inst calls for the Op::Atomic* opcodes
    wanted = {}
    for m in doraq.walk(disp):
        if m[0] == "MATCH_ARM":
            ns = doraq.nodes(m)
            ops = re.findall(r"Op::(Atomic\w+)", doraq.text(ns[0])) if ns else []
            if ops:
                for c in doraq.calls(ns[-1]):
                    if c.recv is not None and c.name and c.name.startswith("emit_") and c.args and doraq.text(c.args[0]) == "inst":
                        wanted[c.name] = ops[0]
    r.floor("atomic opcodes dispatched by boots emit_inst", len(wanted), 5)
    params = {fn.name: [pn for pn, _t in fn.params()] for fn in doraq.functions(asm, "pkgs/boots/assembler/arm64.dora")
              if fn.container == "AssemblerArm64"}
    r.floor("Dora AssemblerArm64 load/store/atomic methods", sum(1 for n in params if insns.mem(n)), 60)
    fns = {fn.name: fn for fn in doraq.functions(t, f) if fn.body is not None}
    n_arms = n_loops = 0
    for name, op in sorted(wanted.items()):
        fn = fns.get(name)
        if not r.anchor("%s::%s (Op::%s)" % (f, name, op), fn):
            continue
        kind = "load" if op.endswith("Load") else "store" if op.endswith("Store") else "rmw"
        base = "%s::%s" % (f, fn.qual)
        ms = [n for n in doraq.walk(fn.body) if n[0] == "MATCH_EXPR" and "type" in doraq.text(doraq.nodes(n)[0])]
        if not r.anchor("%s: match over the value type" % name, ms):
            continue
        top_calls, top_lets = _dora_block_calls(fn.body)
        addrs = set()
        for (ptxt, pat, body) in doraq.direct_match_arms(ms[0]):
            tys = [x for x in re.findall(r"Type::(\w+)", ptxt)]
            if not tys or body[0] != "BLOCK_EXPR":
                continue
            for ty in tys:
                if ty not in DORA_TYPES:
                    r.violation("%s:%s:unknown-operand-type" % (base, ty), "no width known for Type::%s" % ty, fn.where())
                    continue
                want_bits = DORA_TYPES[ty][0]
                n_arms += 1
                key0 = "%s:%s" % (base, ty)
                blocks = [b for b in doraq.walk(body) if b[0] == "BLOCK_EXPR"]
                emitted = []
                for blk in blocks:
                    calls, lets = _dora_block_calls(blk)
                    lets = dict(top_lets, **lets)

                    def reg(node):
                        """register operand as written, looking through `let x = REG;` aliases"""
                        tx = doraq.text(node)
                        seen = 0
                        while tx in lets and lets[tx][0] == "PATH_EXPR" and seen < 4:
                            tx = doraq.text(lets[tx])
                            seen += 1
                        return tx

                    acs = [c for c in calls if c.callee.startswith("self.asm.")]
                    mems = []
                    for c in acs:
                        m = insns.mem(c.name)
                        if not m:
                            continue
                        ps = params.get(c.name)
                        if ps is None or len(ps) != len(c.args):
                            r.violation("%s:%s:unknown-assembler-method" % (key0, c.name),
                                        "no AssemblerArm64 method `%s` with %d parameters" % (c.name, len(c.args)),
                                        "%s:%d" % (f, c.line))
                            continue
                        ai = [i for i, q in enumerate(ps) if q in ("address", "addr", "rn")]
                        regs = [reg(a) for a in c.args]
                        addr = regs[ai[0]] if ai else None
                        mems.append((c, m, ps, regs, addr))
                        emitted.append(c.name)
                        addrs.add(addr)
                    for (c, m, ps, regs, addr) in mems:
                        key = "%s:%s" % (key0, c.name)
                        where = "%s:%d" % (f, c.line)
                        r.instance(key, sample={"fn": name, "type": ty, "insn": c.name, "operands": regs})
                        if m["bits"] != want_bits:
                            r.violation(key + ":width-%d-for-%s" % (m["bits"], ty),
                                        "`%s` accesses %d bits in the Type::%s arm of %s" % (c.name, m["bits"], ty, name), where)
                        if kind == "load":
                            if m["kind"] != "ldar":
                                r.violation(key + ":load-not-acquire", "an atomic load must be ldar*, `%s` is %s" % (
                                    c.name, m["kind"]), where)
                        elif kind == "store":
                            if m["kind"] != "stlr":
                                r.violation(key + ":store-not-release", "an atomic store must be stlr*, `%s` is %s" % (
                                    c.name, m["kind"]), where)
                        elif m["kind"] == "lse":
                            if not (m["acq"] and m["rel"]):
                                r.violation(key + ":lse-without-acquire-release",
                                            "`%s` is the %s form of %s: atomic but not ordered with the surrounding "
                                            "accesses, while the baseline compiler emits the `al` form for the same "
                                            "operation; the `al` form is required" % (
                                                c.name, "relaxed" if not (m["acq"] or m["rel"]) else
                                                "acquire-only" if m["acq"] else "release-only", m["base"]), where)
                        elif m["kind"] == "ldx":
                            if not m["acq"]:
                                r.violation(key + ":exclusive-load-without-acquire", "ldaxr* is required", where)
                        elif m["kind"] == "stx":
                            if not m["rel"]:
                                r.violation(key + ":exclusive-store-without-release", "stlxr* is required", where)
                        else:
                            r.violation(key + ":plain-access-in-atomic-routine",
                                        "`%s` is an ordinary %s inside %s" % (c.name, m["kind"], name), where)
                    if kind != "rmw":
                        continue
                    ldxs = [mm for mm in mems if mm[1]["kind"] == "ldx"]
                    stxs = [mm for mm in mems if mm[1]["kind"] == "stx"]
                    if ldxs and not stxs:
                        r.violation(key0 + ":load-exclusive-without-store-exclusive",
                                    "the exclusive monitor is never consumed", "%s:%d" % (f, ldxs[0][0].line))
                    for (c, m, ps, regs, addr) in stxs:
                        n_loops += 1
                        key = "%s:%s" % (key0, c.name)
                        where = "%s:%d" % (f, c.line)
                        status = regs[ps.index("status")] if "status" in ps else regs[0]
                        data = regs[ps.index("src")] if "src" in ps else regs[1]
                        lds = [l for l in ldxs if l[4] == addr and l[0].line < c.line]
                        r.instance(key + ":exclusive-loop", sample={"store": c.name, "status": status, "data": data,
                                                                    "address": addr, "loads": [l[0].name for l in lds]})
                        if status == data:
                            r.violation(key + ":status-register-is-data-register", STX_SAME % (c.name, "data"), where)
                        if status == addr:
                            r.violation(key + ":status-register-is-address-register", STX_SAME % (c.name, "address"), where)
                        if not lds:
                            r.violation(key + ":no-dominating-load-exclusive",
                                        "`%s` is not preceded in its block by a load-exclusive of the same address" % c.name, where)
                            continue
                        for l in lds:
                            li = l[2].index("rt") if "rt" in l[2] else 0
                            if l[3][li] == l[4]:
                                r.violation("%s:%s:loads-into-address-register" % (key0, l[0].name), LDX_SAME % l[0].name,
                                            "%s:%d" % (f, l[0].line))
                        for y in acs:
                            if mnemonic(y.name) == "cmp" and lds[0][0].line < y.line < c.line:
                                w = insns.width(y.name)
                                r.instance("%s:%s:compare-width" % (key0, y.name))
                                if w is not None and w < want_bits:
                                    r.violation("%s:%s:compare-narrower-than-value" % (key0, y.name),
                                                CMP_NARROW % (y.name, w, want_bits), "%s:%d" % (f, y.line))
                        ok = False
                        why = "no cbnz on the status register after the store-exclusive"
                        for y in acs:
                            if mnemonic(y.name) not in ("cbnz", "cbz", "tbnz", "tbz") or y.line < c.line or not y.args:
                                continue
                            if reg(y.args[0]) != status:
                                continue
                            if mnemonic(y.name) != "cbnz":
                                why = "`%s` on the status register: the retry must be taken when the store FAILED " \
                                      "(status != 0)" % y.name
                                continue
                            lbl = doraq.text(y.args[-1])
                            init = lets.get(lbl)
                            bound = init is not None and doraq.text(init).endswith(".create_and_bind_label()")
                            if not bound:
                                why = "the retry branch does not target a label bound with create_and_bind_label"
                                continue
                            if init[1] < min(l[0].line for l in lds):
                                ok = True
                            else:
                                why = "the retry label is bound after the load-exclusive (the loop would not reload)"
                        if not ok:
                            r.violation(key + ":status-not-retried",
                                        "the store-exclusive's status is not tested by a backward branch to the loop "
                                        "head: %s; a failed store is silently dropped" % why, where)
                if kind == "rmw" and not any((insns.mem(e) or {}).get("kind") in ("lse", "stx") for e in emitted):
                    r.violation(key0 + ":no-read-modify-write", "neither an LSE instruction nor a store-exclusive", fn.where())
                if not emitted:
                    r.violation(key0 + ":no-atomic-instruction", "the Type::%s arm of %s emits no memory instruction" % (
                        ty, name), fn.where())
        # one address register per emitter, set up from the object operand before the type dispatch
        r.instance("%s:single-address-register" % base, sample={"address_registers": sorted(a or "?" for a in addrs)})
        if len(addrs) != 1 or None in addrs:
            r.violation("%s:memory-ops-address-different-registers" % base,
                        "the memory instructions of %s address %s: they do not all operate on the same location" % (
                            name, sorted(a or "?" for a in addrs)), fn.where())
        else:
            a0 = list(addrs)[0]
            setup = [c for c in top_calls if c.callee.startswith("self.asm.") and c.args and doraq.text(c.args[0]) == a0
                     and c.line < ms[0][1]]
            is_input = a0 in top_lets
            if not setup and not is_input:
                r.violation("%s:address-register-not-set-up" % base,
                            "`%s` is neither an operand register of the instruction nor written before the type dispatch"
                            % a0, fn.where())
    r.floor("boots arm64 (atomic emitter, type) arms", n_arms, 10)
    r.floor("boots arm64 exclusive loops", n_loops, 6)


def run_c09(chk, F):
    r = _rule(chk, "C09.R3", "atomic read-modify-write emitters are indivisible and ordered",
              "arm64: every *_synchronized emitter of masm::arm64 uses only acquire+release forms on the atomic "
              "address — LSE instructions with the `al` suffix, or an exclusive loop ldaxr*/stlxr* whose status "
              "register is tested by a backward cbnz to a label bound before the load — loads are ldar*, stores "
              "stlr*, and the access width matches the routine's intN")
    A = _a64(F, r)
    if A is None:
        return
    insns = A64Insns(A)
    ca = A.crate("dora_cannon_compiler")
    fi = {f["path"]: f for f in A.crate("dora_asm").items["fns"]}
    families = {k: sorted(n for n in insns.names if (insns.mem(n) or {}).get("kind") == k)
                for k in ("lse", "ldx", "stx", "ldar", "stlr")}
    r.floor("dora_asm::arm64 LSE instruction methods", len(families["lse"]), 12)
    r.floor("dora_asm::arm64 exclusive load/store methods", len(families["ldx"]) + len(families["stx"]), 8)
    r.floor("dora_asm::arm64 load-acquire/store-release methods", len(families["ldar"]) + len(families["stlr"]), 6)
    n_rmw = n_ls = n_loops = 0
    for p in sorted(ca.mir):
        nm = last(p)
        if not p.startswith(MASM_A64) or not nm.endswith("_synchronized"):
            continue
        B = cfg.Body(ca.mir[p])
        defs = cfg.simple_defs(B)
        kind = "load" if nm.startswith("load_") else "store" if nm.startswith("store_") else "rmw"
        mb = re.search(r"int(\d+)", nm)
        want_bits = int(mb.group(1)) if mb else None
        params = [B.local_name(i) for i in range(1, B.argc + 1)]
        addr_params = [i for i in range(1, B.argc + 1) if (B.local_name(i) or "") in ("address", "addr")]
        ac = asm_calls(B)
        if not r.anchor("%s: parameter named address/addr" % nm, addr_params):
            continue
        mems = []
        for (x, n2) in ac:
            m = insns.mem(n2)
            if m:
                ps = (fi.get(A64 + n2) or {}).get("params") or []
                ds = [desc(B, a, defs) for a in x.args]
                ai = [i for i, q in enumerate(ps) if q in ("address", "addr", "rn")]
                addr = ds[ai[0]] if ai and ai[0] < len(ds) else None
                mems.append((x, n2, m, ds, addr, ps))
        if kind == "rmw":
            n_rmw += 1
        else:
            n_ls += 1
        r.instance("masm::arm64::%s" % nm, sample={"routine": nm, "kind": kind, "emits": [m[1] for m in mems]})
        if not mems:
            r.violation("%s:no-atomic-instruction" % p, "%s emits no memory instruction at all" % nm, B.file)
            continue
        for (x, n2, m, ds, addr, ps) in mems:
            key = "%s:%s" % (p, n2)
            if addr is None or addr[0] != "param" or addr[1] not in addr_params:
                r.violation(key + ":not-the-atomic-address",
                            "`%s` does not address the routine's `address` operand" % n2, x.where())
            if want_bits is not None and m["bits"] != want_bits:
                r.violation(key + ":width-%d-in-int%d-routine" % (m["bits"], want_bits),
                            "`%s` accesses %d bits in %s: the other half of the value is %s" % (
                                n2, m["bits"], nm, "not transferred atomically / not at all" if m["bits"] < want_bits
                                else "memory next to the variable"), x.where())
            if kind == "load":
                if m["kind"] != "ldar":
                    r.violation(key + ":load-not-acquire", "a synchronized load must be a load-acquire (ldar*), `%s` "
                                                           "is %s" % (n2, m["kind"]), x.where())
            elif kind == "store":
                if m["kind"] != "stlr":
                    r.violation(key + ":store-not-release", "a synchronized store must be a store-release (stlr*), "
                                                            "`%s` is %s" % (n2, m["kind"]), x.where())
            else:
                if m["kind"] == "lse":
                    if not (m["acq"] and m["rel"]):
                        r.violation(key + ":lse-without-acquire-release",
                                    "`%s` is the %s form of %s: the read-modify-write is atomic but not ordered with "
                                    "the surrounding accesses (a lock built on it does not protect its critical "
                                    "section); the `al` form is required" % (
                                        n2, "relaxed" if not (m["acq"] or m["rel"]) else
                                        "acquire-only" if m["acq"] else "release-only", m["base"]), x.where())
                elif m["kind"] == "ldx":
                    if not m["acq"]:
                        r.violation(key + ":exclusive-load-without-acquire",
                                    "`%s` is the plain exclusive load; ldaxr* is required" % n2, x.where())
                elif m["kind"] == "stx":
                    if not m["rel"]:
                        r.violation(key + ":exclusive-store-without-release",
                                    "`%s` is the plain exclusive store; stlxr* is required" % n2, x.where())
                else:
                    r.violation(key + ":plain-access-in-atomic-routine",
                                "`%s` is an ordinary %s inside %s: the access is neither atomic with the rest of the "
                                "operation nor ordered" % (n2, m["kind"], nm), x.where())
        if kind != "rmw":
            continue
        # the value comparison of a compare-exchange loop covers the whole value
        for (y, n3) in ac:
            if mnemonic(n3) == "cmp" and want_bits is not None:
                w = insns.width(n3)
                r.instance("%s:%s:compare-width" % (p, n3))
                if w is not None and w < want_bits:
                    r.violation("%s:%s:compare-narrower-than-value" % (p, n3), CMP_NARROW % (n3, w, want_bits), y.where())
        # exclusive loops: every store-exclusive is paired with a dominating load-exclusive on the same address, its
        # status register is tested by a cbnz that branches back to a label bound before the load
        stxs = [mm for mm in mems if mm[2]["kind"] == "stx"]
        ldxs = [mm for mm in mems if mm[2]["kind"] == "ldx"]
        lses = [mm for mm in mems if mm[2]["kind"] == "lse"]
        if not lses and not stxs:
            r.violation("%s:no-read-modify-write" % p, "%s contains neither an LSE instruction nor a store-exclusive"
                        % nm, B.file)
        if ldxs and not stxs:
            r.violation("%s:load-exclusive-without-store-exclusive" % p, "the exclusive monitor is never consumed", B.file)
        for (x, n2, m, ds, addr, ps) in stxs:
            n_loops += 1
            key = "%s:%s" % (p, n2)
            si = ps.index("status") if "status" in ps else 1
            status = ds[si] if si < len(ds) else None
            lds = [l for l in ldxs if l[4] == addr and B.dominates(l[0].block, x.block)]
            r.instance(key + ":exclusive-loop", sample={"store": n2, "loads": [l[1] for l in lds]})
            if not lds:
                r.violation(key + ":no-dominating-load-exclusive",
                            "`%s` is not preceded on every path by a load-exclusive of the same address: the store "
                            "has no monitor to succeed against" % n2, x.where())
                continue
            # ISA fact (one line): for STXR/STLXR Ws, Wt, [Xn], Rs == Rt or Rs == Rn is CONSTRAINED UNPREDICTABLE
            # (Arm ARM C6.2 STXR); a load-exclusive whose Rt is its own base register destroys the address of the store
            di = ps.index("src") if "src" in ps else 2
            data = ds[di] if di < len(ds) else None
            r.instance(key + ":status-register-distinct")
            if status is not None and status == data:
                r.violation(key + ":status-register-is-data-register", STX_SAME % (n2, "data"), x.where())
            if status is not None and status == addr:
                r.violation(key + ":status-register-is-address-register", STX_SAME % (n2, "address"), x.where())
            for l in lds:
                li = l[5].index("rt") if "rt" in l[5] else 1
                if li < len(l[3]) and l[3][li] == l[4]:
                    r.violation("%s:%s:loads-into-address-register" % (p, l[1]), LDX_SAME % l[1], l[0].where())
            back = None
            why = "no cbnz on the status register after the store-exclusive"
            for (y, n3) in ac:
                if mnemonic(n3) not in ("cbnz", "cbz", "tbnz", "tbz"):
                    continue
                d3 = [desc(B, a, defs) for a in y.args[1:]]
                if not d3 or d3[0] != status or not B.dominates(x.block, y.block):
                    continue
                if mnemonic(n3) != "cbnz":
                    why = "`%s` on the status register: the retry must be taken when the store FAILED (status != 0)" % n3
                    continue
                lbl = d3[-1]
                if not (lbl[0] == "call" and last(lbl[1]) == "create_and_bind_label"):
                    why = "the retry branch does not target a label bound with create_and_bind_label (a forward label " \
                          "would skip the retry)"
                    continue
                bind_block = [c.block for c in B.calls if c.dest[0] == lbl[3] and last(c.name or "") == "create_and_bind_label"]
                if bind_block and all(B.dominates(bind_block[0], l[0].block) for l in lds) and B.postdominates(y.block, x.block):
                    back = (y, n3)
                else:
                    why = "the retry label is not bound before the load-exclusive (the loop would not reload), or the " \
                          "status test can be skipped"
            if back is None:
                r.violation(key + ":status-not-retried",
                            "the store-exclusive's status is not tested by a backward branch to the loop head: %s; a "
                            "failed store (another core wrote in between) is silently dropped" % why, x.where())
    r.floor("arm64 masm RMW routines", n_rmw, 6)
    r.floor("arm64 masm synchronized load/store routines", n_ls, 6)
    r.floor("arm64 exclusive loops", n_loops, 6)
    boots_atomics_arm64(r, F, insns)


# --------------------------------------------------------------------------- C10.R7
def run_c10(chk, F):
    r = chk.rule("C10.R7", "the MacroAssembler methods that reach a call instruction (x64 call*, arm64 bl*/blr*) and "
                           "those that record a stack map are the same, by name, in the x86_64 and the aarch64 build, "
                           "so the call ⇒ stack-map pairing decided on the arch-independent callers covers the same "
                           "primitives on both targets; in the aarch64 build only masm and the two trampoline "
                           "generators emit bl*/blr*, and the runtime-entry trampoline records its stack map at offset 0")
    A = _a64(F, r)
    if A is None:
        return
    calls_a = a64_call_insns(A)
    calls_x = x64_call_insns(F)
    if not (r.anchor("dora_asm::arm64 branch-with-link instruction methods", calls_a)
            and r.anchor("dora_asm::x64 call instruction methods", calls_x)):
        return
    LX, LA, n = parity(r, F, A, ("call-instruction", "stack-map"), observe_one_sided=False, floors=False)
    prim_x = {k[1] for k, e in LX.effects.items() if k[0] == "masm" and e["call-instruction"]}
    prim_a = {k[1] for k, e in LA.effects.items() if k[0] == "masm" and e["call-instruction"]}
    direct_x = {k[1] for k, d in LX.direct.items() if k[0] == "masm" and d["call-instruction"]}
    direct_a = {k[1] for k, d in LA.direct.items() if k[0] == "masm" and d["call-instruction"]}
    r.floor("x64 masm methods reaching a call instruction", len(prim_x), 6)
    r.floor("arm64 masm methods reaching a call instruction", len(prim_a), 6)
    r.observe("arm64 methods emitting bl*/blr* directly: %s; x64 methods emitting call* directly: %s" % (
        sorted(direct_a), sorted(direct_x)))
    for nm in sorted(prim_x | prim_a):
        r.instance("masm::%s:call-emitting-on-both-targets" % nm, sample={"method": nm, "x64": nm in prim_x,
                                                                         "arm64": nm in prim_a})
        if nm in prim_x and nm in prim_a:
            continue
        k = ("masm", nm)
        if k in LX.effects and k in LA.effects:
            continue        # present on both sides with different effects: reported by the parity comparison above
        r.violation("masm::%s:call-emitting-on-%s-only" % (nm, "x64" if nm in prim_x else "arm64"),
                    "%s emits a call on %s and does not exist on the other target: the stack-map pairing rule never "
                    "sees its call sites there" % (nm, "x64" if nm in prim_x else "arm64"), F_A64)
    # C10.R1 keys its call-site scan on the methods that emit the x64 call instruction *directly*.  An arm64-specific
    # method that emits bl*/blr* itself but is not in that set is scanned here, on the aarch64 facts, with R1's criterion
    def starts_with_stack_map(k, seen=()):
        """the first layer call of k that records a stack map or emits code records the stack map"""
        if k in seen or k not in LA.bodies:
            return False
        B0 = LA.bodies[k][0]
        for b in B0._rpo(0):
            t = B0.blocks[b]["t"]
            if t[0] != "call":
                continue
            ck = layer_key(cfg.callee_name(cfg.callee_of(t[1]["f"])) or "")
            if ck is None or ck not in LA.effects:
                continue
            if ck[0] == "masm" and LA.direct[ck]["stack-map"]:
                return True
            if LA.effects[ck]["emits-code"]:
                return LA.effects[ck]["stack-map"] and starts_with_stack_map(ck, seen + (k,))
        return False

    def scan(B, start_block):
        seen = set()
        st = list(B.succ[start_block])
        while st:
            b = st.pop()
            if b in seen:
                continue
            seen.add(b)
            t = B.blocks[b]["t"]
            if t[0] == "call":
                ck = layer_key(cfg.callee_name(cfg.callee_of(t[1]["f"])) or "")
                if ck is not None and ck in LA.effects:
                    if (ck[0] == "masm" and LA.direct[ck]["stack-map"]) or starts_with_stack_map(ck):
                        continue
                    if LA.effects[ck]["emits-code"]:
                        return False, "%s emits code before the stack map" % ck[1]
            if t[0] == "ret":
                return False, "the function returns without recording a stack map"
            for s2 in B.succ[b]:
                if s2 not in seen:
                    st.append(s2)
        return True, None

    ccg = A.crate("dora_cannon_compiler")
    for nm in sorted(direct_a - direct_x):
        target = LA.paths.get(("masm", nm))
        nsite = 0
        for q, mb in sorted(ccg.mir.items()):
            if q.startswith(CC + "masm::") or "{closure" in q:
                continue
            Bq = cfg.Body(mb)
            for x in Bq.calls:
                if x.name != target:
                    continue
                nsite += 1
                ok, why = scan(Bq, x.block)
                r.instance("%s:%s:stack-map-follows" % (q, nm), sample={"fn": q, "primitive": nm, "gcpoint_follows": ok,
                                                                      "at": x.where()})
                if not ok:
                    r.violation("%s:%s:no-stack-map" % (q, nm),
                                "%s (a call emitter on arm64 that C10.R1 does not key on, because its x64 sibling "
                                "calls through another primitive): %s" % (nm, why), x.where())
        r.instance("masm::%s:direct-emitter-on-arm64-only" % nm, nontrivial=bool(nsite),
                   sample={"method": nm, "call_sites_outside_masm": nsite})
    # who may emit the raw instructions in the aarch64 build
    TRAMP = ("dora_compiler::runtime_entry_trampoline::arm64::", "dora_compiler::dora_entry_trampoline::arm64::")
    n_sites = 0
    n_tramp = 0
    for c in A.all_crates(kinds=("lib",)):
        for p, mb in sorted(c.mir.items()):
            if not any(b["t"][0] == "call" and cfg.callee_name(cfg.callee_of(b["t"][1]["f"])) in calls_a
                       for b in mb["blocks"]):
                continue
            B = cfg.Body(mb)
            sites = [x for x in B.calls if x.name in calls_a]
            if not sites:
                continue
            n_sites += len(sites)
            if p.startswith(CC + "masm::") or p.startswith("dora_asm::"):
                continue
            r.instance("%s:emits-%s" % (p, last(sites[0].name)), sample={"fn": p, "insn": last(sites[0].name)})
            if p.startswith(TRAMP[0]):
                n_tramp += 1
                ins = [x for x in B.calls if (x.name or "").endswith("GcPointTable::insert")]
                ok = False
                for i in ins:
                    a = i.args[1] if len(i.args) > 1 else None
                    if a is not None and a[0] == "k" and a[1].get("v") == 0 and B.postdominates(i.block, 0):
                        ok = True
                if not ok:
                    r.violation(p + ":no-stack-map-at-offset-0",
                                "the arm64 runtime-entry trampoline calls native code but does not record the stack "
                                "map at offset 0 on every path", B.file)
            elif p.startswith(TRAMP[1]):
                n_tramp += 1
                r.observe("%s enters managed code with %s: its frame is a Dora-entry frame, handled by the stack "
                          "walker's own arm (C10.R4), no stack map is looked up for it" % (p, last(sites[0].name)))
            else:
                r.violation(p + ":raw-call-instruction",
                            "%s emits %s outside masm and outside the trampoline generators (no stack-map discipline "
                            "applies)" % (last(p), last(sites[0].name)), sites[0].where())
    r.floor("bl*/blr* emission sites in the aarch64 build", n_sites, 7)
    r.floor("arm64 trampoline generators emitting a call", n_tramp, 2)


# --------------------------------------------------------------------------- C14.R6
LOC = "dora_bytecode::data::Location"


def run_c14(chk, F):
    r = chk.rule("C14.R6", "position recording is the same in the x86_64 and the aarch64 build per MacroAssembler/"
                           "BaselineAssembler method, and every bailout/trap emitted by an arm64-specific masm method "
                           "carries that method's own Location parameter")
    A = _a64(F, r)
    if A is None:
        return
    LX, LA, n = parity(r, F, A, ("position",), observe_one_sided=False, floors=False)
    # comment tables do not influence behaviour: differences are recorded only
    for k in sorted(set(LX.effects) & set(LA.effects)):
        if LX.effects[k]["comment"] != LA.effects[k]["comment"]:
            r.observe("%s::%s records code comments on one target only" % k)
    sinks = LA.sinks()
    r.floor("arm64 trap/bailout emitters", len(sinks), 4)
    sites = 0
    for k, bs in sorted(LA.bodies.items()):
        p = LA.paths.get(k, "")
        if not p.startswith(MASM_A64):
            continue
        for B in bs:
            defs = None
            for x in B.calls:
                ck = layer_key(x.name or "")
                it = LA.items.get(x.name or "")
                if ck not in sinks or not it:
                    continue
                for i, ty in enumerate(it["inputs"]):
                    if ty != LOC or i >= len(x.args):
                        continue
                    if defs is None:
                        defs = cfg.simple_defs(B)
                    o = cfg.origin(B, x.args[i], defs)
                    sites += 1
                    ok = o[0] == "param" and not o[2] and B.local_ty(o[1]) == LOC
                    r.instance("%s→%s" % (p, last(x.name)), sample={"fn": p, "emitter": last(x.name), "location": str(o[:2]),
                                                                   "at": x.where()})
                    if not ok:
                        r.violation("%s:%s:location-not-the-parameter" % (p, last(x.name)),
                                    "the arm64 %s hands %s a position that is not its own Location parameter (%s): the "
                                    "trap is reported at a wrong source line on arm64 only" % (k[1], last(x.name), o[0]),
                                    x.where())
    r.floor("arm64 bailout sites carrying a Location", sites, 10)
    # the x64 side has the same number of Location-carrying bailout sites per shared method
    for k in sorted(set(LX.bodies) & set(LA.bodies)):
        if not LA.paths.get(k, "").startswith(MASM_A64):
            continue
        ca_ = sum(1 for B in LA.bodies[k] for x in B.calls if layer_key(x.name or "") in sinks)
        cx_ = sum(1 for B in LX.bodies[k] for x in B.calls if layer_key(x.name or "") in LX.sinks())
        if ca_ or cx_:
            r.instance("masm::%s:bailout-sites" % k[1], sample={"method": k[1], "x64": cx_, "arm64": ca_})


# --------------------------------------------------------------------------- C02.R15: compare-width parity
MM = "dora_compiler::layout::MachineMode"


def _mode_bool_table(S, name):
    """MachineMode::<name>() → {variant: bool}, read off a `match self { … => true/false }` body (is64, is_float…)"""
    b = S.crate("dora_compiler").hir.get(MM + "::" + name)
    out = {}
    if b:
        for n in hirq.walk(b["body"]):
            if n[0] == "match":
                for (pat, g, arm) in hirq.match_arms(n):
                    a = hirq.strip(arm)
                    if hirq.is_node(a) and a[0] == "lit" and a[1] == "bool":
                        for d in hirq.pat_paths(pat):
                            if "MachineMode::" in d:
                                out[last(d)] = a[2]
    return out


class CompareWidths:
    """per masm method of one build: MachineMode (or '*' when the method has no mode parameter) → set of effective
    widths of its compare/test instructions, through helper methods (cmp_reg(mode, ..), cmp_mem(MachineMode::X, ..)).
    Effective width = min(instruction width, width of the value: the mode of the enclosing dispatch arm, or the width
    of the load that produced the compared register) — a compare at least as wide as a zero-extended value compares
    the whole value (A64 has no sub-word compare; x64 compares bytes with cmpb)."""

    def __init__(self, L, S, prefix, insn_width, load_bits):
        self.L, self.S, self.prefix = L, S, prefix
        self.insn_width, self.load_bits = insn_width, load_bits
        self.hir = L.crate.hir
        adt = S.crate("dora_compiler").adt("layout::MachineMode")
        self.modes = [v["name"] for v in adt["variants"]] if adt else []
        self.bits = mode_bits(S)
        self.tables = {}
        self.memo, self.own, self.callees = {}, {}, {}

    def mode_param(self, k):
        b = self.hir.get(self.L.paths.get(k, ""))
        if not b:
            return None
        ps = [p[0][1] for p in b["params"] if p[1] == MM and hirq.is_node(p[0]) and p[0][0] == "pbind"]
        return ps[0] if len(ps) == 1 else None

    def summary(self, k, stack=()):
        if k in self.memo:
            return self.memo[k]
        if k in stack:
            return {}
        b = self.hir.get(self.L.paths.get(k, ""))
        out, own, callees = {}, {}, set()
        if b is None:
            self.memo[k] = out
            return out
        mp = self.mode_param(k)
        loaded = {}          # rendered register operand → bits of the load that produced it

        def add(d, modes, ws):
            for m in (modes if modes is not None else ["*"]):
                for w in ws:
                    vb = self.bits.get(m) if m != "*" else None
                    d.setdefault(m, set()).add(min(w, vb) if vb else w)

        def ev(n, modes):
            if not isinstance(n, list):
                return
            if not hirq.is_node(n):
                for c in n:
                    ev(c, modes)
                return
            tag = n[0]
            if tag == "match" and mp and hirq.local_name(n[1]) == mp:
                rest = set(modes)
                for (pat, g, arm) in hirq.match_arms(n):
                    ms = {last(d) for d in hirq.pat_paths(pat) if "MachineMode::" in d}
                    if not ms and hirq.pat_is_wild(pat):
                        ms = set(rest)
                    ms &= set(modes)
                    rest -= ms
                    if not hirq.is_panic_body(arm):
                        ev(arm, frozenset(ms))
                return
            if tag == "if" and mp:
                c, neg = hirq.strip(n[1]), False
                if hirq.is_node(c) and c[0] == "un" and c[1] == "Not":
                    c, neg = hirq.strip(c[2]), True
                if hirq.is_node(c) and c[0] == "mcall" and hirq.local_name(c[4]) == mp and (c[2] or "").startswith(MM + "::"):
                    if c[3] not in self.tables:
                        self.tables[c[3]] = _mode_bool_table(self.S, c[3])
                    t = self.tables[c[3]]
                    if t:
                        ev(n[2], frozenset(m for m in modes if t.get(m) is (not neg)))
                        if n[3] is not None:
                            ev(n[3], frozenset(m for m in modes if t.get(m) is neg))
                        return
            if tag in ("mcall", "call"):
                cs = hirq.CallSite(n)
                cal = cs.callee or ""
                if cal.startswith(self.prefix):
                    lb = self.load_bits(cs.name)
                    if lb is not None and cs.args:
                        loaded[hirq.render(cs.args[0])] = lb
                    w = self.insn_width(cs.name)
                    if w is not None:
                        for a in cs.args:
                            lw = loaded.get(hirq.render(a))
                            if lw:
                                w = min(w, lw)
                        add(out, modes, {w})
                        add(own, modes, {w})
                ck = layer_key(cal)
                if ck and ck[0] == "masm" and ck != k and ck in self.L.paths:
                    callees.add(ck)
                    sub = self.summary(ck, stack + (k,))
                    it = self.L.items.get(self.L.paths[ck]) or {}
                    args = cs.all_args() if cs.is_method else list(cs.args)
                    idx = it.get("inputs", []).index(MM) if MM in it.get("inputs", []) else None
                    a = hirq.strip(args[idx]) if idx is not None and idx < len(args) else None
                    d = hirq.def_path(a) if a is not None else None
                    const_mode = last(d) if d and "MachineMode::" in d else None
                    if ck[1] == "load_mem" and const_mode and idx is not None and idx + 1 < len(args):
                        loaded[hirq.render(args[idx + 1])] = self.bits.get(const_mode, 64)
                    if self.mode_param(ck) is None:
                        ws = sub.get("*", set())
                        for m in (modes if modes is not None else ["*"]):
                            out.setdefault(m, set()).update(ws)
                    elif mp and a is not None and hirq.local_name(a) == mp:
                        for m in modes:
                            out.setdefault(m, set()).update(sub.get(m, set()))
                    elif const_mode:
                        for m in (modes if modes is not None else ["*"]):
                            out.setdefault(m, set()).update(sub.get(const_mode, set()))
                    else:
                        u = set().union(*sub.values()) if sub else set()
                        for m in (modes if modes is not None else ["*"]):
                            out.setdefault(m, set()).update(u)
            for c in n[1:]:
                ev(c, modes)

        ev(b["body"], frozenset(self.modes) if mp else None)
        out = {m: w for m, w in out.items() if w}
        self.memo[k] = out
        self.own[k] = {m: w for m, w in own.items() if w}
        self.callees[k] = callees
        return out


def _x64_cmp_width(n):
    # x64 operand-size letter of cmp/test (b, w, l, q); cmpxchg is not a compare of program values
    m = re.match(r"^(cmp|test)([bwlq])$", mnemonic(n))
    return {"b": 8, "w": 16, "l": 32, "q": 64}[m.group(2)] if m else None


def rule_compare_width(chk, F, A):
    r = chk.rule("C02.R15", "every MacroAssembler method present in both builds compares values of the same width on "
                            "x64 and arm64: per machine mode where the method dispatches on (or passes on) its mode "
                            "parameter, otherwise as a whole — effective width = min(compare instruction width, width "
                            "of the compared value), through the compare helpers")
    LX, LA = layers(F, A)
    insns = A64Insns(A)

    def a64_w(n):
        mn = mnemonic(n)
        if mn in ("cmp", "cmn", "tst", "cbz", "cbnz"):
            return insns.width(n)
        if mn in ("tbz", "tbnz"):
            return 64           # a single-bit test of an X register
        return None

    def a64_load(n):
        m = insns.mem(n)
        return m["bits"] if m and m["kind"] in ("plain-load", "ldar", "ldx") else None

    WX = CompareWidths(LX, F, X64, _x64_cmp_width, lambda n: None)
    WA = CompareWidths(LA, A, A64, a64_w, a64_load)
    r.floor("MachineMode sizes", len(WA.bits), 5)
    both = sorted(k for k in set(LX.paths) & set(LA.paths) if k[0] == "masm")
    results = {}
    for k in both:
        sx, sa = WX.summary(k), WA.summary(k)
        if not sx and not sa:
            continue
        if sx and sa and ("*" in sx) != ("*" in sa):
            cmpd = {"*": (set().union(*sx.values()), set().union(*sa.values()))}
        else:
            cmpd = {m: (sx[m], sa[m]) for m in sx if m in sa}
        results[k] = (sx, sa, cmpd)
    n_methods = n_pairs = 0
    disagree = {k: {m for m, (x, a) in v[2].items() if x != a} for k, v in results.items()}
    for k, (sx, sa, cmpd) in sorted(results.items()):
        name = LA.paths[k]
        one = sorted(set(sx) ^ set(sa)) if cmpd and "*" not in cmpd else ([] if cmpd else ["x64" if sx else "arm64"])
        if not cmpd:
            r.observe("%s compares values on %s only (%s)" % (k[1], "x64" if sx else "arm64", {
                m: sorted(w) for m, w in (sx or sa).items()}))
            continue
        n_methods += 1
        for m, (x, a) in sorted(cmpd.items()):
            n_pairs += 1
            r.instance("%s:compare-width:%s" % (name, m), sample={"method": k[1], "mode": m, "x64": sorted(x),
                                                                  "arm64": sorted(a)})
            if x == a:
                continue
            # a disagreement that a compared helper already shows, with equal own instructions, is reported there
            own_same = WX.own.get(k, {}).get(m) == WA.own.get(k, {}).get(m)
            if own_same and any(disagree.get(c) for c in (WX.callees.get(k, set()) | WA.callees.get(k, set()))):
                continue
            key = "%s:compare-width:%sx64=%s:arm64=%s" % (name, "" if m == "*" else m + ":", fmt(map(str, x)), fmt(map(str, a)))
            narrow = "x64" if min(x) < min(a) else "arm64"
            r.violation(key, "%s compares %s bits on x64 and %s bits on arm64%s: on %s only part of the value takes "
                             "part in the comparison, so two values that differ in the ignored bits compare equal "
                             "there (a bounds or range check passes on one target and traps on the other)" % (
                                 k[1], "/".join(map(str, sorted(x))), "/".join(map(str, sorted(a))),
                                 "" if m == "*" else " under MachineMode::%s" % m, narrow),
                        "%s:%d" % ((LX if narrow == "x64" else LA).bodies[k][0].file,
                                   (LX if narrow == "x64" else LA).bodies[k][0].line))
        if one and "*" not in cmpd:
            r.observe("%s: modes handled on one target only: %s" % (k[1], one))
    r.floor("methods comparing values on both targets", n_methods, 18)
    r.floor("(method, mode) compare-width pairs", n_pairs, 45)

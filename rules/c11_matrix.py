"""C11.R2 / R3(a) / R4 — MIR analysis of the per-match function (check_match): the rows, the guard column, the
exhaustiveness call and the verdict."""
import re

import cfg
import facts as factsmod
import hirq

FE = "dora_frontend::"

# std names (the standard library's, not the repository's)
PUSH = "alloc::vec::Vec::<T, A>::push"
IS_EMPTY = ("alloc::vec::Vec::<T, A>::is_empty", "core::slice::<impl [T]>::is_empty")
SEQ_ADAPTORS = {"iter", "deref", "into_iter", "as_slice", "as_ref", "borrow", "iter_mut", "rev", "clone", "as_mut"}


def last(p):
    return p.rsplit("::", 1)[-1]


class Unint(Exception):
    pass


def cname(t):
    return cfg.callee_name(cfg.callee_of(t["f"])) or ""


def cdecl(t):
    f = cfg.callee_of(t["f"])
    return (f or {}).get("d") or ""


def root_local(B, op, defs):
    """follow single-definition copies/moves/borrows of whole locals back to the local they denote"""
    if op[0] not in ("c", "m"):
        return None
    loc, proj = op[1]
    if [p for p in proj if p != "*"]:
        return None
    for _ in range(32):
        if 1 <= loc <= B.argc:
            return loc
        ds = defs.get(loc, [])
        if len(ds) != 1 or ds[0][1][0] == "callres":
            return loc
        rv = ds[0][1][2]
        if rv[0] == "use" and rv[1][0] in ("c", "m") and not [p for p in rv[1][1][1] if p != "*"]:
            loc = rv[1][1][0]
        elif rv[0] == "ref" and not [p for p in rv[2][1] if p != "*"]:
            loc = rv[2][0]
        else:
            return loc
    return loc


def through_clone(B, op, defs):
    """root local of an operand, looking through `x.clone()`"""
    if op[0] in ("c", "m"):
        o = cfg.origin(B, op, defs)
        if o[0] == "call" and last(cdecl(o[1])) == "clone" and o[1]["a"]:
            return root_local(B, o[1]["a"][0], defs)
    return root_local(B, op, defs)


def seq_origin(B, op, defs, depth=0):
    """origin of a sequence/iterator operand, looking through iter()/deref()/into_iter()… adaptor calls"""
    o = cfg.origin(B, op, defs)
    if o[0] == "call" and depth < 8 and o[1]["a"] and last(cname(o[1])) in SEQ_ADAPTORS:
        return seq_origin(B, o[1]["a"][0], defs, depth + 1)
    return o


def fields_of(proj):
    return [p[1:] for p in proj if p.startswith(".") and not p[1:].isdigit()]


class ForLoop:
    pass


def for_loops(B, defs):
    """desugared `for x in <seq>` loops: into_iter call, next call, body entry, exit, element local"""
    out = []
    nat = B.natural_loops()
    for nx in B.calls:
        if not cdecl(nx.t).endswith("iterator::Iterator::next") or nx.target is None:
            continue
        it = root_local(B, nx.args[0], defs)
        ds = defs.get(it, [])
        if len(ds) != 1 or ds[0][1][0] != "callres" or not cdecl(ds[0][1][1]).endswith("IntoIterator::into_iter"):
            continue
        blk = B.blocks[nx.target]
        t = blk["t"]
        if t[0] != "switch":
            continue
        o = cfg.origin(B, t[1], defs) if t[1][0] in ("c", "m") else None
        if not o or o[0] != "discr" or o[1][0] != nx.dest[0]:
            continue
        arms = dict((v, b) for v, b in t[2])
        L = ForLoop()
        L.next = nx
        L.src = seq_origin(B, ds[0][1][1]["a"][0], defs)
        L.entry = arms.get(1)
        L.exit = arms.get(0)
        if L.entry is None:
            continue
        L.body = set()
        for (h, body) in nat:
            if h == nx.block:
                L.body |= body
        L.elem = None
        for s in B.blocks[L.entry]["s"]:
            if s[0] == "a" and not s[1][1] and s[2][0] == "use" and s[2][1][0] in ("c", "m") and \
                    s[2][1][1][0] == nx.dest[0] and s[2][1][1][1][:2] == ["@Some", ".0"]:
                L.elem = s[1][0]
                break
        out.append(L)
    return out


def switch_edges(B):
    for i in range(B.n):
        t = B.blocks[i]["t"]
        if t[0] == "switch":
            for v, b in t[2]:
                yield i, v, b
            yield i, None, t[3]


def control_deps(B, x):
    """[(switch block, value|None, target)] edges the block x is control dependent on"""
    pd = B.postdominators()
    out = []
    for (s, v, t) in switch_edges(B):
        if t in pd and x in pd[t] and not (x != s and x in pd.get(s, ())):
            out.append((s, v, t))
    return out


def bool_edge(B, s, v):
    """truth value of the switch operand of block s on the edge with value v (None = otherwise)"""
    t = B.blocks[s]["t"]
    if v is not None:
        return bool(v)
    vals = [a for a, _ in t[2]]
    return True if vals == [0] else (False if vals == [1] else None)


def cond_of(B, s, defs):
    """(negated?, origin descriptor) of the switch operand of block s, looking through `!`"""
    t = B.blocks[s]["t"]
    if t[1][0] not in ("c", "m"):
        return False, ("const", t[1][1])
    o = cfg.origin(B, t[1], defs)
    neg = False
    while o[0] == "un" and o[1] == "Not" and o[2][0] in ("c", "m"):
        neg = not neg
        o = cfg.origin(B, o[2], defs)
    return neg, o


class Match:
    """facts about the per-match function shared by R2/R3/R4"""

    def __init__(self, c, R):
        self.c, self.R = c, R
        mb = c.mir.get(R.cm)
        if mb is None:
            raise Unint("no MIR for %s" % R.cm)
        self.B = B = cfg.Body(mb)
        self.defs = defs = cfg.simple_defs(B)
        self.hir = c.hir[R.cm]
        self.loops = for_loops(B, defs)
        self.arms_loops = [L for L in self.loops if L.src[0] == "param" and L.src[1] == R.match_param
                           and fields_of(L.src[2]) == [R.arms_field]]
        self.Pvec = "alloc::vec::Vec<%s>" % R.P
        self.PvecVec = "alloc::vec::Vec<alloc::vec::Vec<%s>>" % R.P

    def where(self, line=None):
        return "%s:%d" % (self.B.file, line or self.B.line)

    def elem_field(self, op, L):
        """if op is `(*arm).<field>` (or a borrow of it) of loop L's element: the field name"""
        o = cfg.origin(self.B, op, self.defs) if op[0] in ("c", "m") else None
        if o and o[0] == "call" and o[1] is L.next.t:
            fs = fields_of(o[2])
            if len(fs) == 1:
                return fs[0]
        return None

    def descriptor_calls(self, hir_body, name):
        """HIR call sites carrying the diagnostic descriptor `name`"""
        return [cs for cs in hirq.calls(hir_body) if cs.name in ("report", "warn", "report_without_location")
                and any(n[0] == "def" and n[1] in ("static", "const") and last(n[2]) == name
                        for a in cs.args for n in hirq.walk(a))]

    def mir_call_for(self, B, cs):
        cands = [x for x in B.calls if x.name == cs.callee]
        if len(cands) == 1:
            return cands[0]
        same = [x for x in cands if x.line == cs.line]
        return same[0] if len(same) == 1 else None


def verdict_site(M, B, defs, cs):
    """For the MIR call x that emits a verdict diagnostic: the emptiness test that controls it.
    Returns dict(call, polarity 'nonempty'|'empty', source call dict (whose result is tested), extra controls)."""
    x = M.mir_call_for(B, cs)
    if x is None:
        raise Unint("cannot associate the %s(..) site at line %d with a MIR call" % (cs.name, cs.line))
    deps = []
    seen, work = set(), [x.block]
    while work:                      # transitive control dependence (`a && b` nests the tests)
        blk = work.pop()
        for d in control_deps(B, blk):
            if d not in deps:
                deps.append(d)
            if d[0] not in seen:
                seen.add(d[0])
                work.append(d[0])
    found = None
    extra = []
    for (s, v, t) in deps:
        neg, o = cond_of(B, s, defs)
        if o[0] == "call" and cdecl(o[1]) in IS_EMPTY and o[1]["a"]:
            src = cfg.origin(B, o[1]["a"][0], defs)
            tv = bool_edge(B, s, v)
            if tv is None:
                raise Unint("switch bb%d has an unexpected shape" % s)
            empty = tv != neg
            found = (s, "empty" if empty else "nonempty", src)
        else:
            extra.append((s, v, o))
    return {"call": x, "test": found, "extra": extra}


# ------------------------------------------------------------------------------------------------------ R4
# expected channel and polarity per verdict diagnostic.  One-line reasons:
VERDICTS = {
    # a match that leaves values uncovered must be *rejected*: error channel, exactly when the witness list is non-empty
    "NON_EXHAUSTIVE_MATCH": ("report", "nonempty"),
    # let-else whose pattern leaves nothing uncovered has an unreachable else block: reported when the list is empty
    "LET_ELSE_IRREFUTABLE_PATTERN": ("report", "empty"),
    # an unreachable arm does not make the program ill-typed: warning channel (see C05.R2's reasoned exception)
    "USELESS_PATTERN": ("warn", None),
}


def descriptor_levels():
    src = factsmod.read_repo("dora-frontend/src/error/diagnostics.rs")
    levels = {}
    for m in re.finditer(r"pub\s+(?:const|static)\s+(\w+)\s*:\s*DiagnosticDescriptor\s*=(.*?)\n\};", src, re.S):
        lv = re.search(r"level\s*:\s*ErrorLevel::(\w+)", m.group(2))
        if lv:
            levels[m.group(1)] = lv.group(1)
    return levels


def rule_r4(chk, c, R, M):
    r = chk.rule("C11.R4", "the verdict is an error, unreachable arms are warnings: NON_EXHAUSTIVE_MATCH is emitted through "
                           "Sema::report exactly under `!missing.is_empty()` of the exhaustiveness call's result (control "
                           "and data dependence), is declared with level Error; USELESS_PATTERN goes through warn")
    levels = descriptor_levels()
    r.floor("diagnostic descriptors", len(levels), 200)
    # the channels
    chan = {}
    for nm in ("report", "warn"):
        b = c.hir_fn("sema::Sema::" + nm)
        if r.anchor("Sema::" + nm, b):
            tgt = [cs.callee for cs in hirq.calls(b["body"]) if cs.callee and "Diagnostic::" in cs.callee]
            chan[nm] = tgt
            r.instance("Sema::%s→%s" % (nm, [last(t) for t in tgt]))
            if [last(t) for t in tgt] != [nm]:
                r.violation("%sSema::%s:channel" % (FE, nm), "Sema::%s must forward to Diagnostic::%s (forwards to %s): "
                            "verdicts would land in the wrong list" % (nm, nm, tgt), b["file"])
    M.F = None
    nsites = 0
    for p in R.mod_fns:
        hb = c.hir[p]
        for name, (want_chan, want_pol) in VERDICTS.items():
            for cs in M.descriptor_calls(hb["body"], name):
                nsites += 1
                key = "%s:%s" % (p, name)
                got_chan = last(cs.callee or cs.name)
                r.instance(key + ":channel", sample={"fn": p, "descriptor": name, "channel": cs.callee,
                                                     "declared_level": levels.get(name)})
                where = "%s:%d" % (hb["file"], cs.line)
                if got_chan != want_chan or not (cs.callee or "").endswith("sema::Sema::" + want_chan):
                    r.violation(key + ":wrong-channel",
                                "%s is emitted through %s instead of Sema::%s: %s" % (
                                    name, cs.callee or cs.name, want_chan,
                                    "the non-exhaustive match does not count as an error, the program is compiled and "
                                    "falls through at run time" if want_chan == "report" else
                                    "a merely unreachable arm rejects a well-typed program"), where)
                if want_chan == "report" and levels.get(name) != "Error":
                    r.violation(key + ":level", "%s is declared with level %s, not Error" % (name, levels.get(name)),
                                "dora-frontend/src/error/diagnostics.rs")
                if want_pol is None:
                    continue
                mb = c.mir.get(p)
                if mb is None:
                    raise Unint("no MIR for %s" % p)
                B = M.B if p == R.cm else cfg.Body(mb)
                defs = M.defs if p == R.cm else cfg.simple_defs(B)
                site = verdict_site(M, B, defs, cs)
                r.instance(key + ":condition", sample={"fn": p, "descriptor": name,
                                                       "test": site["test"][1] if site["test"] else None})
                if site["test"] is None:
                    if site["extra"]:
                        raise Unint("%s: %s is reported under a condition that is not an is_empty() test (bb%d) — "
                                    "cannot interpret" % (p, name, site["extra"][0][0]))
                    r.violation(key + ":unconditional", "%s is reported without testing the list of missing patterns"
                                % name, where)
                    continue
                s, pol, src = site["test"]
                if pol != want_pol:
                    r.violation(key + ":condition-inverted",
                                "%s is reported when the list of uncovered patterns is %s (must be %s): %s" % (
                                    name, pol, want_pol, "exhaustive matches are rejected and non-exhaustive ones "
                                    "accepted" if name == "NON_EXHAUSTIVE_MATCH" else "the diagnostic is inverted"),
                                where)
                if site["extra"]:
                    r.violation(key + ":additional-condition",
                                "%s is reported only if a further condition holds (switch in bb%s): some non-exhaustive "
                                "matches are accepted" % (name, [e[0] for e in site["extra"]]), where)
                if src[0] != "call" or not cname(src[1]).startswith(R.module + "::"):
                    r.violation(key + ":tested-value",
                                "the list tested before reporting %s is not the result of the exhaustiveness function "
                                "(origin: %s)" % (name, src[0]), where)
                elif p == R.cm and name == "NON_EXHAUSTIVE_MATCH":
                    M.F = src[1]
    r.floor("verdict emission sites", nsites, 3)
    r.anchor("exhaustiveness function (its result is tested before NON_EXHAUSTIVE_MATCH)", M.F)


# ------------------------------------------------------------------------------------------------------ R2
def count_pushes(B, entry, stop, push_blocks, flag_local, flag_value, defs, inner_back):
    """(min, max) number of blocks of push_blocks on paths entry → stop, taking at switches on flag_local only
    the edge for flag_value; inner loop back edges are cut (a push inside an inner loop is uninterpretable)."""
    memo = {}

    def succs(b):
        t = B.blocks[b]["t"]
        if t[0] == "switch" and flag_local is not None and t[1][0] in ("c", "m") and \
                root_local(B, t[1], defs) == flag_local:
            arms = dict((v, x) for v, x in t[2])
            if flag_value:
                return [t[3]] if 0 in arms else [arms.get(1, t[3])]
            return [arms[0]] if 0 in arms else [t[3]]
        return [s for s in B.succ[b] if (b, s) not in inner_back]

    def go(b, depth=0):
        if b == stop:
            return (0, 0)
        if b in memo:
            return memo[b]
        if depth > 400:
            raise Unint("path enumeration too deep")
        memo[b] = None
        best = None
        for s in succs(b):
            r = go(s, depth + 1)
            if r is None:
                continue
            best = r if best is None else (min(best[0], r[0]), max(best[1], r[1]))
        if best is not None and b in push_blocks:
            best = (best[0] + 1, best[1] + 1)
        memo[b] = best
        return best
    return go(entry)


def rule_r2(chk, c, R, M):
    r = chk.rule("C11.R2", "every arm enters the matrix on every path: the exhaustiveness call post-dominates the entry "
                           "of the per-match function and receives the matrix the rows are pushed to; in the loop over "
                           "the arms the row push post-dominates the loop body entry, the row holds "
                           "convert_pattern(arm.pattern) of that arm, the column count equals the pushes per row, and "
                           "usefulness is asked against the rows pushed so far")
    B, defs = M.B, M.defs
    fn = R.cm
    if not r.anchor("exhaustiveness function located (R4)", getattr(M, "F", None)):
        return
    Fname = cname(M.F)
    Fcalls = [x for x in B.calls if x.t is M.F or x.name == Fname]
    # (a) on every path
    r.instance("%s:exhaustiveness-call-on-every-path" % fn, sample={"callee": Fname})
    if not any(B.postdominates(x.block, 0) for x in Fcalls):
        r.violation("%s:exhaustiveness-call-not-on-every-path" % fn,
                    "there is a path from the entry of %s to a normal return that does not call %s (early return / "
                    "fast path): on that path a match is accepted without its arms having been checked for coverage"
                    % (last(fn), last(Fname)), M.where(Fcalls[0].line if Fcalls else None))
    Fc = Fcalls[0]
    mats = [a for a in Fc.args if a[0] in ("c", "m") and B.local_ty(a[1][0]) == M.PvecVec]
    ns = [a for a in Fc.args if a[0] in ("c", "m") and B.local_ty(a[1][0]) == "usize"] + \
         [a for a in Fc.args if a[0] == "k" and a[1].get("ty") == "usize"]
    if not (r.anchor("matrix argument of the exhaustiveness call", len(mats) == 1)
            and r.anchor("column-count argument of the exhaustiveness call", len(ns) == 1)):
        return
    matrix = root_local(B, mats[0], defs)
    if not r.anchor("loop over %s.%s" % (last(R.match_struct), R.arms_field), len(M.arms_loops) == 1):
        return
    L = M.arms_loops[0]
    M.L = L
    if L.elem is None:
        raise Unint("the element of the arms loop is not bound to a single local")
    pushes = [x for x in B.calls if cdecl(x.t) == PUSH and x.block in L.body]
    mpush = [x for x in pushes if root_local(B, x.args[0], defs) == matrix]
    r.instance("%s:matrix-is-the-pushed-local" % fn, sample={"matrix": B.local_name(matrix)})
    if not mpush:
        r.violation("%s:rows-not-pushed-to-the-checked-matrix" % fn,
                    "the matrix handed to %s (`%s`) is not the one the arms' rows are pushed to" % (
                        last(Fname), B.local_name(matrix)), M.where(Fc.line))
        return
    # (b) push on every iteration
    mp = [x for x in mpush if B.postdominates(x.block, L.entry)]
    r.instance("%s:row-push-on-every-iteration" % fn)
    if not mp:
        r.violation("%s:row-push-skipped-on-some-path" % fn,
                    "inside the loop over the arms there is a path from the loop body entry to the next iteration "
                    "that does not push the arm's row (continue/skip): the skipped arm neither covers values (an "
                    "exhaustive match is rejected) nor hides later arms", M.where(mpush[0].line))
    MP = mp[0] if mp else mpush[0]
    M.MP = MP
    row = through_clone(B, MP.args[1], defs)
    M.row = row
    rpush = [x for x in pushes if root_local(B, x.args[0], defs) == row]
    M.rpush = rpush
    # (c) the row holds convert_pattern(arm.pattern)
    conv = []
    for x in rpush:
        o = cfg.origin(B, x.args[1], defs) if x.args[1][0] in ("c", "m") else None
        if o and o[0] == "call" and cname(o[1]) in R.converters:
            idarg = o[1]["a"][R.converters[cname(o[1])]]
            conv.append((x, M.elem_field(idarg, L)))
    r.instance("%s:row-holds-converted-arm-pattern" % fn, sample={"pushes": len(rpush), "converted": [f for _, f in conv]})
    good = [x for (x, f) in conv if f == R.pattern_field and B.postdominates(x.block, L.entry)
            and B.dominates(x.block, MP.block)]
    if not good:
        r.violation("%s:row-not-from-arm-pattern" % fn,
                    "the row pushed for an arm does not (on every path) contain the conversion of that arm's `%s` "
                    "field (found conversions of: %s): the matrix does not describe the arms of the match" % (
                        R.pattern_field, [f for _, f in conv]), M.where(MP.line))
    rdefs = [b for (b, s) in defs.get(row, [])]
    r.instance("%s:row-fresh-per-arm" % fn)
    if not rdefs or not all(b in L.body for b in rdefs):
        r.violation("%s:row-not-fresh-per-arm" % fn, "the row local is not re-created for every arm: patterns of earlier "
                    "arms leak into later rows", M.where(MP.line))
    # (d) column count
    inner_back = set()
    dom = B.dominators()
    for t_ in L.body:
        for h in B.succ[t_]:
            if h in dom.get(t_, ()) and h != L.next.block:
                inner_back.add((t_, h))
    pblocks = set(x.block for x in rpush)
    for (h, body) in B.natural_loops():
        if h != L.next.block and body <= L.body and pblocks & body:
            raise Unint("%s: a pattern is pushed onto the row inside an inner loop — cannot count columns" % fn)
    nloc = root_local(B, ns[0], defs) if ns[0][0] != "k" else None
    ndefs = defs.get(nloc, []) if nloc is not None else []
    flag = None
    nvals = {}
    if ns[0][0] == "k":
        nvals = {True: ns[0][1].get("v"), False: ns[0][1].get("v")}
    else:
        for (b, s) in ndefs:
            if s[0] == "callres" or s[2][0] != "use" or s[2][1][0] != "k":
                raise Unint("%s: the column count `%s` is not a constant per branch — cannot interpret" % (
                    fn, B.local_name(nloc)))
            v = s[2][1][1].get("v")
            deps = control_deps(B, b)
            if not deps:
                nvals = {True: v, False: v}
                continue
            if len(deps) != 1:
                raise Unint("%s: the column count is chosen under more than one condition" % fn)
            (sb, sv, st) = deps[0]
            fl = root_local(B, B.blocks[sb]["t"][1], defs)
            if flag is not None and fl != flag:
                raise Unint("%s: the column count depends on two different flags" % fn)
            flag = fl
            tv = bool_edge(B, sb, sv)
            nvals[tv] = v
    M.flag = flag
    for fv in (True, False):
        cnt = count_pushes(B, L.entry, MP.block, pblocks, flag, fv, defs, inner_back)
        r.instance("%s:columns[%s=%s]" % (fn, B.local_name(flag) if flag is not None else "-", fv),
                   sample={"pushes_per_row": cnt, "columns_passed": nvals.get(fv)})
        if cnt is None:
            continue
        if cnt[0] != cnt[1] or cnt[0] != nvals.get(fv):
            r.violation("%s:column-count-mismatch" % fn,
                        "with %s = %s a row receives between %d and %d patterns but %s is told the rows have %s "
                        "columns: rows and column count disagree (the guard column or the pattern column is lost or "
                        "the length assertion fires)" % (B.local_name(flag) if flag is not None else "flag", fv,
                                                         cnt[0], cnt[1], last(Fname), nvals.get(fv)), M.where(Fc.line))
        if flag is None:
            break
    r.floor("R2 conditions evaluated", r.instances, 6)
    # (e) usefulness asked against the rows pushed so far, with this arm's row
    U = [x for x in B.calls if x.block in L.body and x.name and x.name.startswith(R.module + "::")
         and x.name not in R.converters and any(a[0] in ("c", "m") and B.local_ty(a[1][0]) == M.PvecVec
                                                 for a in x.args)]
    r.instance("%s:usefulness-call" % fn, sample={"callee": [u.name for u in U]})
    if not U:
        r.violation("%s:no-usefulness-call" % fn, "no arm is ever tested for reachability", M.where(MP.line))
    for u in U:
        M.U = u
        ok_m = ok_r = False
        for a in u.args:
            if a[0] not in ("c", "m"):
                continue
            src = through_clone(B, a, defs)
            if src == matrix:
                ok_m = True
            if src == row:
                ok_r = True
        if not (ok_m and ok_r and B.dominates(u.block, MP.block) and B.postdominates(u.block, L.entry)
                and all(B.dominates(x.block, u.block) for x in good)):
            r.violation("%s:usefulness-not-against-earlier-rows" % fn,
                        "the reachability question for an arm is not asked with (a copy of) the matrix of the earlier "
                        "arms and this arm's complete row, before the row is pushed (matrix=%s row=%s): arms are "
                        "compared with themselves or with the wrong rows" % (ok_m, ok_r), M.where(u.line))


# ----------------------------------------------------------------------------------------------------- R3a
def rule_r3a(r, c, R, M, marker, wildcard, filler_fns):
    B, defs = M.B, M.defs
    fn = R.cm
    L = getattr(M, "L", None)
    if not r.anchor("arms loop / row located (R2)", L is not None and getattr(M, "rpush", None)):
        return
    gp, fp = [], []
    for x in M.rpush:
        a = x.args[1]
        o = cfg.origin(B, a, defs) if a[0] in ("c", "m") else None
        if not o:
            continue
        if o[0] == "agg" and o[1][0] == "adt" and o[1][1] == R.P and o[1][2] == marker:
            gp.append(x)
        elif o[0] == "agg" and o[1][0] == "adt" and o[1][1] == R.P and o[1][2] == wildcard:
            fp.append(x)
        elif o[0] == "call" and cname(o[1]) in filler_fns:
            fp.append(x)
    # guard tests: switches on is_some(&arm.<guard field>)
    tests = []
    for (s, v, t) in switch_edges(B):
        if s not in L.body:
            continue
        neg, o = cond_of(B, s, defs)
        if o[0] == "call" and last(cdecl(o[1])) in ("is_some", "is_none") and o[1]["a"]:
            f = M.elem_field(o[1]["a"][0], L)
            tv = bool_edge(B, s, v)
            if f == R.guard_field and tv is not None:
                has_guard = (tv != neg) == (last(cdecl(o[1])) == "is_some")
                tests.append((s, t, has_guard))
    r.instance("%s:guard-marker-pushes" % fn, sample={"marker": marker, "pushes": len(gp), "fillers": len(fp),
                                                      "guard_tests": len(set(s for s, _, _ in tests))})
    if not gp:
        r.violation("%s:guard-marker-never-pushed" % fn,
                    "no row ever receives the %s marker: guarded arms are indistinguishable from unguarded ones and "
                    "count as covering" % marker, M.where())
        return

    def only_on(x, want):
        """x's block is reachable from an edge with has_guard == want and from no edge with the opposite value"""
        yes = [(s, t) for (s, t, hg) in tests if hg == want and x.block in _reach_no_header(B, t, s, L)]
        no = [t for (s, t, hg) in tests if hg != want and x.block in _reach_no_header(B, t, s, L)]
        bypass = [s for (s, t) in yes if x.block in B.reachable(L.entry, avoid={s, L.next.block})]
        if bypass:
            return False
        return bool(yes) and not no
    for x in gp:
        r.instance("%s:marker-under-guard-test@bb%d" % (fn, x.block))
        if not only_on(x, True):
            r.violation("%s:guard-marker-not-under-arm-guard-test" % fn,
                        "the %s marker is pushed on a path that is not the `%s.is_some()` edge of that arm: unguarded "
                        "arms are marked as guarded (an exhaustive match is rejected, later arms are not reported "
                        "unreachable) or guarded arms are not" % (marker, R.guard_field), M.where(x.line))
    for x in fp:
        r.instance("%s:filler-under-no-guard@bb%d" % (fn, x.block))
        if tests and not only_on(x, False):
            r.violation("%s:wildcard-filler-on-guarded-arm" % fn,
                        "the wildcard filler of the guard column is pushed on a path where the arm has a guard: the "
                        "guarded arm counts as covering, a non-exhaustive match is accepted", M.where(x.line))
    # the extra column exists iff any arm has a guard
    flag = getattr(M, "flag", None)
    if flag is None:
        r.observe("the guard column is not conditional on a flag (always present or decided per arm)")
        return
    fd = defs.get(flag, [])
    ok = False
    why = "flag `%s` is not the result of a single call" % B.local_name(flag)
    if len(fd) == 1 and fd[0][1][0] == "callres":
        t = fd[0][1][1]
        if cdecl(t).endswith("iterator::Iterator::any") and len(t["a"]) == 2:
            so = seq_origin(B, t["a"][0], defs)
            co = cfg.origin(B, t["a"][1], defs)
            seq_ok = so[0] == "param" and so[1] == R.match_param and fields_of(so[2]) == [R.arms_field]
            clos = co[1][1] if co[0] == "agg" and co[1][0] == "closure" else None
            cb = c.mir.get(clos) if clos else None
            pred_ok = False
            if cb:
                CB = cfg.Body(cb)
                cdefs = cfg.simple_defs(CB)
                rets = cdefs.get(0, [])
                if len(rets) == 1 and rets[0][1][0] == "callres" and last(cdecl(rets[0][1][1])) == "is_some":
                    po = cfg.origin(CB, rets[0][1][1]["a"][0], cdefs)
                    pred_ok = po[0] == "param" and fields_of(po[2]) == [R.guard_field]
            ok = seq_ok and pred_ok
            why = "any() over %s with predicate %s" % ("the arms" if seq_ok else "another sequence",
                                                       "arm.%s.is_some()" % R.guard_field if pred_ok else "not understood")
        else:
            raise Unint("%s: the guard-column flag is computed by %s — cannot interpret" % (fn, cname(t)))
    r.instance("%s:guard-column-flag" % fn, sample={"flag": B.local_name(flag), "how": why})
    if not ok:
        r.violation("%s:guard-column-flag" % fn,
                    "whether rows get a guard column is not decided by `any arm has a guard` over all arms of this "
                    "match (%s): with guards present but no guard column, guarded arms count as covering" % why,
                    M.where())


def _path_blocks(B, a, b, avoid):
    """blocks on some path a→b avoiding `avoid` (approximation: reach(a) ∩ coreach(b))"""
    fwd = B.reachable(a, avoid={avoid}) | {a}
    back = set()
    st = [b]
    while st:
        x = st.pop()
        if x in back or x == avoid:
            continue
        back.add(x)
        if x == a:
            continue
        for p in B.pred[x]:
            if p in fwd and p not in back:
                st.append(p)
    return (fwd & back) - {a, b}


def _reach_no_header(B, t, s, L):
    """blocks reachable from t without passing the switch s or the loop header (same iteration only)"""
    return B.reachable(t, avoid={s, L.next.block}) | {t}

"""C16.R6 — the text that is lexed and stored in the tree is the caller's text.

R1–R5 show that the tree tiles *the content the parser holds*.  The property is about the text the caller handed in:
`Parser::from_string(text)` / `from_shared_string(text)` must lex, and store in the resulting file, exactly that text.
A constructor that normalises its input first (strips a byte-order mark, converts line endings, trims) yields a tree
that is internally consistent — every assertion of the tree builder holds — and silently no longer reproduces the
caller's bytes; every span is then in coordinates of a text nobody else has.

Provenance rule on MIR: in every constructor chain of the parser, the argument of the lexer and the value stored in the
parser's content field are reached from the constructor's text parameter through identity conversions only
(`Arc::new`, `String::from`/`Into`, `Deref`, `clone`, borrows).  Any other call on the way is reported.
"""
import cfg

IDENTITY = ("Arc::<T>::new", "Deref>::deref", "Clone>::clone", "From<&str>>::from", "From<T>>::from",
            "Into<U>>::into", "AsRef<str>>::as_ref", "Borrow<T>>::borrow", "String::as_str", "ToOwned>::to_owned",
            "ToString>::to_string", "string::String::from", "ToArcString>::into", "ToArcString")


def last(p):
    return p.rsplit("::", 1)[-1]


def is_identity(name):
    return any(name.endswith(x) or x in name for x in IDENTITY)


def trace(B, op, defs, depth=0):
    """→ ('param', i) | ('call', name) (first non-identity call) | ('other', description)"""
    o = cfg.origin(B, op, defs)
    for _ in range(12):
        if o[0] == "param":
            return ("param", o[1])
        if o[0] == "call":
            nm = cfg.callee_name(cfg.callee_of(o[1]["f"])) or "?"
            if not is_identity(nm) or not o[1]["a"]:
                return ("call", nm)
            # `to_owned`/`to_string`/`from` are identities only when applied to the whole text, i.e. when their own
            # argument is again identity-derived: keep walking
            o = cfg.origin(B, o[1]["a"][0], defs)
            continue
        return ("other", str(o)[:80])
    return ("other", "chain too long")


def run(chk, F):
    r = chk.rule("C16.R6", "the text handed to the lexer and stored as the file's content is the constructor's text "
                           "parameter itself (identity conversions only): the tree reproduces the caller's bytes, not a "
                           "normalised copy")
    c = F.crate("dora_parser")
    LEX = "dora_parser::lexer::lex"
    ctors = {p: mb for p, mb in c.mir.items() if p.startswith("dora_parser::parser::Parser::")}
    lexers = []
    for p, mb in sorted(ctors.items()):
        B = cfg.Body(mb)
        if any(x.name == LEX for x in B.calls):
            lexers.append(p)
    if not r.anchor("parser function that calls the lexer", lexers):
        return
    n = 0
    for p in lexers:
        B = cfg.Body(ctors[p])
        defs = cfg.simple_defs(B)
        where = "%s:%d" % (B.file, ctors[p]["line"])
        for x in B.calls:
            if x.name != LEX:
                continue
            t = trace(B, x.args[0], defs)
            n += 1
            r.instance("%s:lexer-argument" % p, sample={"function": last(p), "lexer_argument": t})
            if t[0] != "param":
                r.violation("%s:lexer-argument:not-the-callers-text" % p,
                            "the lexer is run on a value produced by `%s`, not on the text parameter itself: the tree "
                            "tiles a normalised copy and no longer reproduces the caller's bytes (e.g. a stripped "
                            "byte-order mark: the root is 3 bytes short and every span is shifted)" % t[1], x.where())
        # the content stored in the Parser
        for blk in B.blocks:
            for s in blk["s"]:
                if s[0] == "a" and s[2][0] == "agg" and s[2][1][0] == "adt" and s[2][1][1].endswith("parser::Parser"):
                    adt = c.adt(s[2][1][1])
                    names = [f["name"] for f in adt["variants"][0]["fields"]] if adt else []
                    for fi, op in enumerate(s[2][2]):
                        fname = names[fi] if fi < len(names) else str(fi)
                        ty = adt["variants"][0]["fields"][fi]["ty"] if adt and fi < len(names) else ""
                        if "String" not in ty:
                            continue
                        t = trace(B, op, defs)
                        n += 1
                        r.instance("%s:stored:%s" % (p, fname), sample={"function": last(p), "field": fname,
                                                                        "value": t})
                        if t[0] != "param":
                            r.violation("%s:stored-%s:not-the-callers-text" % (p, fname),
                                        "Parser.%s is initialised from `%s`, not from the text parameter itself"
                                        % (fname, t[1]), where)
        # callers inside the parser: they must pass their own text parameter through identities as well
        for q, mb in sorted(ctors.items()):
            if q == p:
                continue
            QB = cfg.Body(mb)
            qdefs = None
            for x in QB.calls:
                if x.name == p and x.args:
                    qdefs = qdefs or cfg.simple_defs(QB)
                    t = trace(QB, x.args[0], qdefs)
                    n += 1
                    r.instance("%s:passes-text-to:%s" % (q, last(p)), sample={"constructor": last(q), "passes": t})
                    if t[0] != "param":
                        r.violation("%s:text-argument:not-the-callers-text" % q,
                                    "%s hands `%s` to %s instead of its own text parameter"
                                    % (last(q), t[1], last(p)), x.where())
    r.floor("text hand-overs checked (lexer argument, stored content, constructor chain)", n, 4)

"""C20 — "editor positions and symbol ranges always match the document": structural (partial) rules.

The language server converts between byte offsets (dora-parser spans) and editor positions (line, UTF-16 column) with a
line-start table.  The round-trip *equality* is arithmetic over all texts and is NOT decided here.  What is decided is
the part of the mechanism whose truth is in the shape of the code — each clause a necessary condition:

  R1  units      every `Position.character` the server builds counts UTF-16 code units (never bytes / chars); the
                 reverse conversion compares the client's column with a UTF-16 accumulator, returns a byte accumulator,
                 and both accumulators advance together, by the lengths of the same iterated character
  R2  clamping   every index into the line table that derives from the client's position is dominated by a comparison
                 with the table's length that implies it is in bounds (no index panic: the position is clamped)
  R3  the line   the measured prefix starts at the table entry of the very line that is reported / addressed
                 (binary search on the same table with the same offset; Err(i) → line i-1, start table[i-1]), and the
                 column loop walks exactly the chars of content[table[line] .. table[line+1] | len]
  R4  ranges     a Range's start/end are the same computation applied to span.start()/span.end() of one span; symbol
                 ranges are computed with the content and line table of one file object, which is the element's own
                 file; range ← the element's whole span, selection_range ← a span derived from the same element; every
                 SourceFile stores the table computed from its own content
  R5  line table the table starts as [0]; each of \\n, \\r\\n (one break), \\r pushes exactly one start, equal to the running
                 position after the terminator; the running position advances by the UTF-8 length of every consumed char

Rules are evaluated with the symbolic HIR evaluator of rules/c16_sym.py (terms over parameters; every path; loops are
evaluated for one generic iteration).  Anything outside the evaluator's fragment is an ANALYSIS failure (fail closed).
"""
import re

import cfg
import hirq
from cfg import Body, simple_defs
from hirq import is_node, last
from rules import c16_sym as S
from rules.c16 import Types, trace_through
from rules.c16_sym import Ev, Unsupported, add, sub, const, as_const, is_zero, show, strip_ref, strip_generics

LS, DP, FE = "dora_language_server", "dora_parser", "dora_frontend"
# The property is stated in terms of the LSP wire types of the `lsp_types` crate (external, not in the facts).
POS, RANGE = "lsp_types::Position", "lsp_types::Range"
POS_NEW, RANGE_NEW = POS + "::new", RANGE + "::new"      # lsp_types API: Position::new(line, character), Range::new(start, end)
F_LINE, F_CHAR = "line", "character"                      # LSP protocol field names
F_RANGE, F_SEL = "range", "selection_range"               # LSP protocol field names (DocumentSymbol)
# LSP 3.17 §Text Documents: EOL = ['\n', '\r\n', '\r'] — the line terminators an editor counts lines with
LF, CR = "\n", "\r"
PUSH_RE = re.compile(r"Vec::<T(, A)?>::push$")
STR_LEN = {"core::str::<impl str>::len", "alloc::string::String::len"}     # std: length in bytes
INT = S.INT_TYPES

U16, BYTES, CHARS, LINES, CONST = "utf16", "bytes", "chars", "lines", "const"


def analysis(r, key, msg, w=None):
    r.violation("ANALYSIS:" + key, msg, w)


def where(fb, line=None):
    return "%s:%d" % (fb["file"], line or fb["line"])


class View:
    """several crates' HIR seen as one (the evaluator inlines across the crate boundary)"""

    def __init__(self, *crates):
        self.hir = {}
        impls, consts = [], []
        for c in crates:
            for p, b in c.hir.items():
                self.hir.setdefault(p, b)
            impls += c.items["impls"]
            consts += c.items["consts"]
        self.items = {"impls": impls, "consts": consts}


# --------------------------------------------------------------------------- evaluator
class PEv(Ev):
    def __init__(self, view, inline=None, watch=(), log_push=False):
        super().__init__(view, inline=inline, depth=3)
        self.pre = []            # state just before each recorded loop (same index as self.loops)
        self.watch = set(watch)
        self.log_push = log_push

    def check_loop(self, node, kind, st, parts):
        self.pre.append(st.copy())

    def inline(self, target, s, ts):
        n = len(self.loops)
        got = super().inline(target, s, ts)
        if got is None:
            del self.pre[n:]
        return got

    def ev_index(self, e, st):
        outs = []
        for (s, ts) in self.seq([e[1], e[2]], st):
            s.log.append(("index", ts[0], ts[1], len(s.pc)))
            outs.append((s, ("idx", ts[0], ts[1])))
        return outs

    def ev_struct(self, e, st):
        outs = super().ev_struct(e, st)
        for (s, t) in outs:
            s.log.append(("mk", t))
        return outs

    def ev_macro(self, e, st):
        if e[1] == "vec!":
            arr = [n for n in S.walk(e[2]) if n[0] == "array"]
            if len(arr) == 1:
                return [(s, ("vec", tuple(ts))) for (s, ts) in self.seq(arr[0][1], st)]
        return super().ev_macro(e, st)

    def call_hook(self, node, st, path, target, recv, recv_ty, args, ts, mut_places):
        if path in self.watch:
            st.log.append(("watch", path, tuple(ts), node[1]))
        if self.log_push and path and PUSH_RE.search(path) and recv is not None:
            st.log.append(("push", ts[0], ts[1], node[1]))
            self.havoc(st, mut_places[0] if mut_places else None)
            return [(st, ("tup", ()))]
        return None


class Loop:
    __slots__ = ("idx", "kind", "g", "pre", "item", "it", "cont", "exits")


class Explored:
    """a function evaluated on every path, plus one generic iteration of every loop met on the way"""

    def __init__(self, ev, fn):
        self.ev = ev
        self.fn = fn
        self.rets = ev.run_fn(fn)
        self.loops = []
        i = 0
        while i < len(ev.loops):
            node, kind, g, parts, it = ev.loops[i]
            L = Loop()
            L.idx, L.kind, L.g, L.it = i, kind, g, it
            L.pre = ev.pre[i] if i < len(ev.pre) else None
            L.item = ev.fresh("item")
            L.cont, L.exits = ev.iterate(ev.loops[i], bind_term=L.item if kind == "For" else None)
            self.loops.append(L)
            i += 1
        self.symmap = {}
        for L in self.loops:
            for d in L.g.env:
                for name, v in d.items():
                    if v[0] == "sym" and v[2] == "loop:" + name:
                        self.symmap[v] = (L, name)

    def states(self):
        """(kind, state, value term | None, Loop | None, first log index of this segment)"""
        for (s, t) in self.rets:
            yield ("ret", s, t, None, 0)
        for L in self.loops:
            for s in L.cont:
                yield ("cont", s, None, L, len(L.g.log))
            for (k, s, t) in L.exits:
                yield (k, s, t, L, len(L.g.log))


def subterm_of(x, t):
    return any(y == x for y in S.subterms(t))


def param_root(t):
    """root parameter name of a chain of field reads / projections, else None"""
    while t[0] in ("fld", "proj"):
        t = t[1]
    return t[1] if t[0] == "param" else None


# --------------------------------------------------------------------------- units
def unknown(why):
    return ("unknown", why)


def is_unknown(u):
    return isinstance(u, tuple) and u[0] == "unknown"


def is_mixed(u):
    return isinstance(u, tuple) and u[0] == "mixed"


def join(a, b):
    if a == CONST:
        return b
    if b == CONST:
        return a
    if is_unknown(a):
        return a
    if is_unknown(b):
        return b
    if a == b:
        return a
    fa = set(a[1:]) if is_mixed(a) else {a}
    fb = set(b[1:]) if is_mixed(b) else {b}
    return ("mixed",) + tuple(sorted(fa | fb))


def ushow(u):
    if is_unknown(u):
        return "unknown (%s)" % u[1]
    if is_mixed(u):
        return "a mix of " + " and ".join(UNAME.get(x, x) for x in u[1:])
    return UNAME.get(u, u)


UNAME = {U16: "UTF-16 code units", BYTES: "bytes (UTF-8 code units)", CHARS: "characters (code points)",
         LINES: "line numbers", CONST: "a constant"}


class Units:
    """unit (dimension) of an integer-valued term.  Sources of units are std semantics (`encode_utf16().count()`,
    `len_utf16()`, `len_utf8()`, `str::len()`, `chars().count()`), the LSP field `Position.character`, dora-parser's
    Span accessors (byte offsets: decided by C16) and the entries of the line table (unit derived by R5 from what
    the table builder pushes)."""

    def __init__(self, cx, ptypes, explored=None):
        self.cx = cx
        self.ptypes = ptypes
        self.ex = explored
        self._su = {}

    def ptype(self, t):
        n = param_root(t)
        return strip_ref(self.ptypes.get(n, "")) if n else ""

    def is_table(self, t):
        if t[0] == "param":
            return strip_ref(self.ptypes.get(t[1], "")) in ("[u32]", "alloc::vec::Vec<u32>")
        if t[0] == "fld":
            return t[2] in self.cx.table_fields
        return False

    def is_text(self, t):
        if t[0] == "param":
            return strip_ref(self.ptypes.get(t[1], "")) in ("str", "alloc::string::String")
        return False

    def unit(self, t):
        k = t[0]
        if k == "lin":
            u = CONST
            for a, _c in t[2]:
                u = join(u, self.unit(a))
            return u
        if k == "app":
            nm, args = t[1], t[2]
            l = last(nm)
            if l == "count" and args and args[0][0] == "app":
                src = last(args[0][1])
                return {"encode_utf16": U16, "chars": CHARS, "char_indices": CHARS, "bytes": BYTES}.get(
                    src, unknown("count() of %s" % src))
            if l == "len_utf16":
                return U16
            if l == "len_utf8":
                return BYTES
            if l == "len" and args:
                if self.is_table(args[0]):
                    return LINES
                if nm in STR_LEN:
                    return BYTES
            if nm in self.cx.span_acc:
                return BYTES
            if nm == "unwrap" and args:
                return self.unit(args[0])
            return unknown("result of %s" % l)
        if k == "proj":
            b = t[1]
            if b[0] == "app" and last(b[1]) == "binary_search" and b[2] and self.is_table(b[2][0]):
                return LINES
            return unknown("payload of %s" % show(b)[:40])
        if k == "fld":
            root = param_root(t)
            if root and strip_ref(self.ptypes.get(root, "")) in (POS, RANGE):
                if t[2] == F_CHAR:
                    return U16
                if t[2] == F_LINE:
                    return LINES
            return unknown("field %s" % show(t)[:40])
        if k == "idx":
            if self.is_table(t[1]):
                return self.cx.entry_unit
            return unknown("element of %s" % show(t[1])[:40])
        if k == "sym":
            return self.symunit(t)
        if k == "param":
            return unknown("parameter %s" % t[1])
        if k == "defref" and "const" in t[1]:
            return CONST                      # a named constant (u32::MAX …): no unit
        return unknown(show(t)[:40])

    def symunit(self, t):
        if t in self._su:
            return self._su[t]
        hit = self.ex.symmap.get(t) if self.ex else None
        if hit is None:
            return unknown("value %s" % show(t))
        L, name = hit
        self._su[t] = CONST          # provisional (the loop variable's own value cancels in the deltas)
        pre = L.pre.get(name) if L.pre is not None else None
        u = self.unit(pre) if pre is not None else unknown("initial value of %s" % name)
        for s in L.cont + [x[1] for x in L.exits]:
            cur = s.get(name)
            if cur is not None:
                u = join(u, self.unit(sub(cur, L.g.get(name))))
        self._su[t] = u
        return u


# --------------------------------------------------------------------------- context (roles derived from the repo)
class Cx:
    def __init__(self, F):
        self.F = F
        self.ls = F.crate(LS, "bin")
        self.dp = F.crate(DP)
        self.view = View(self.dp, self.ls)
        self.problems = []
        fns = {f["path"]: f for f in self.ls.items["fns"] if f.get("has_body")}
        self.ls_fns = fns
        # conversion functions, by signature
        self.off2pos = sorted(p for p, f in fns.items() if f["output"] == POS and self.sig_roles(f))
        self.pos2off = sorted(p for p, f in fns.items() if POS in f["inputs"] and f["output"] in INT)
        self.converters = sorted(p for p, f in fns.items() if f["output"] in (POS, RANGE) and self.sig_roles(f))
        # dora-parser: Span accessors (methods of Span returning u32), the table builder, helpers taking a table
        span = self.dp.adt("span::Span")
        self.span_path = span["path"] if span else None
        self.span_acc = {f["path"]: f["name"] for f in self.dp.items["fns"]
                         if f.get("self_ty") == self.span_path and f["output"] == "u32" and len(f["inputs"]) == 1}
        b = [f["path"] for f in self.dp.items["fns"] if f.get("pub") and [strip_ref(x) for x in f["inputs"]] == ["str"]
             and f["output"] == "alloc::vec::Vec<u32>" and not f.get("container")]
        self.builder = b[0] if len(b) == 1 else None
        self.table_helpers = {f["path"] for f in self.dp.items["fns"] if f.get("pub") and not f.get("container")
                              and any(strip_ref(x) == "[u32]" for x in f["inputs"]) and f["path"] in self.dp.hir}
        self.table_fields = set()       # struct fields holding a line table (filled from dora-frontend, R4)
        self.file_adt = None
        self.entry_unit = unknown("line-table entries (R5 could not derive what the builder pushes)")
        self._ex = {}

    @staticmethod
    def sig_roles(f):
        """(text param index, table param index, offset/span param index) of a conversion function, or None"""
        text = [i for i, t in enumerate(f["inputs"]) if strip_ref(t) == "str"]
        table = [i for i, t in enumerate(f["inputs"]) if strip_ref(t) == "[u32]"]
        rest = [i for i in range(len(f["inputs"])) if i not in text + table]
        if len(text) == 1 and len(table) == 1 and len(rest) == 1:
            return text[0], table[0], rest[0]
        return None

    def ptypes(self, fn):
        fb = self.view.hir[fn]
        out = {}
        for (pat, ty) in fb["params"]:
            for n in S.pat_names(pat):
                out[n] = ty
        return out

    def explore(self, fn, mode):
        """mode 'units': helpers that take a line table are inlined (their results get units);
        mode 'calls': nothing is inlined (provenance of call arguments)"""
        key = (fn, mode)
        if key not in self._ex:
            watch = {POS_NEW, RANGE_NEW} | set(self.converters)
            if mode == "units":
                ev = PEv(self.view, inline=lambda p: p in self.table_helpers, watch=watch)
            else:
                ev = PEv(self.view, inline=None, watch=watch)
            try:
                self._ex[key] = Explored(ev, fn)
            except Unsupported as e:
                self._ex[key] = e
            except RecursionError:
                self._ex[key] = Unsupported("evaluator recursion limit")
        return self._ex[key]


def call_lines(body, paths):
    """source lines of the calls to any of `paths` in a HIR body (closures included)"""
    return {n[1] for n in hirq.walk(body) if n[0] == "call" and hirq.def_path(n[2]) in paths}


def not_evaluated(r, fn, fb, what, paths, seen_lines):
    """fail closed: a construction/call the evaluator never reached (e.g. inside a closure) is not vouched for"""
    missing = sorted(call_lines(fb["body"], paths) - {l for l in seen_lines if l is not None})
    if missing:
        analysis(r, "%s:%s-not-evaluated" % (fn, what), "%s: the %s at line(s) %s was not reached by the evaluator (closure "
                 "body?) — not decided" % (fn, what, ", ".join(map(str, missing))), where(fb, missing[0]))


def mentions(body, what):
    """HIR body constructs `what` (struct literal or `what::new(..)`)"""
    for n in hirq.walk(body):
        if n[0] == "struct" and hirq.def_path(n[1]) == what:
            return True
        if n[0] == "call" and hirq.def_path(n[2]) == what + "::new":
            return True
    return False


# --------------------------------------------------------------------------- R5: the line table (also derives the unit)
def rule_r5(chk, cx):
    r = chk.rule("C20.R5", "line table: starts as [0]; each of \\n, \\r\\n (one break) and bare \\r pushes exactly one line "
                           "start, equal to the running position just after the terminator; the running position "
                           "advances by the UTF-8 length of every character consumed, on every path")
    p = cx.builder
    if not r.anchor("line-table builder (the pub fn(&str) -> Vec<u32> of dora-parser)", p and p in cx.dp.hir):
        return
    fb = cx.dp.hir[p]
    wh = where(fb)
    ev = PEv(View(cx.dp), inline=None, log_push=True)
    try:
        ex = Explored(ev, p)
    except Unsupported as e:
        analysis(r, p + ":unsupported", "%s: %s" % (p, e), wh)
        return
    tabs = {t[1] for (_s, t) in ex.rets if t[0] == "obj"}
    if not r.anchor("%s returns one local vector" % last(p), len(tabs) == 1 and all(t[0] == "obj" for (_s, t) in ex.rets)):
        return
    tab = tabs.pop()

    def pushes(s, lo):
        return [e for e in s.log[lo:] if e[0] == "push" and e[1][0] == "obj" and e[1][1] == tab]

    loops = [L for L in ex.loops if any(pushes(s, len(L.g.log)) for s in L.cont + [x[1] for x in L.exits])]
    if not r.anchor("the single loop of %s that pushes onto `%s`" % (last(p), tab), len(loops) == 1):
        return
    L = loops[0]
    lo = len(L.g.log)
    for (s, _t) in ex.rets:
        outside = [e for e in pushes(s, 0)]
        if outside:
            analysis(r, p + ":push-outside-loop", "%s pushes onto `%s` outside the character loop" % (last(p), tab), wh)
    # the running position: the loop variable every pushed value is linear in
    posn = set()
    for s in L.cont + [x[1] for x in L.exits]:
        for e in pushes(s, lo):
            syms = [a for a in S.atoms(e[2]) if a in ex.symmap]
            posn.update(ex.symmap[a][1] for a in syms)
            if not syms:
                posn.add(None)
    if not r.anchor("running position (the loop variable all pushed line starts are computed from)",
                    len(posn) == 1 and None not in posn):
        return
    pos = posn.pop()
    # the character iterator
    itn = set()
    for s in L.cont:
        for e in s.log[lo:]:
            if e[0] == "call" and last(e[1] or "") == "next" and e[3] and e[3][0][0] == "obj":
                itn.add(e[3][0][1])
    if not r.anchor("character iterator of the loop", len(itn) == 1):
        return
    it = itn.pop()
    # ---- initial state
    pre = L.pre
    r.instance(p + ":initial-table", sample={"table": show(pre.get(tab)) if pre.get(tab) else None,
                                             pos: show(pre.get(pos)) if pre.get(pos) else None})
    t0, p0 = pre.get(tab), pre.get(pos)
    if t0 is None or t0[0] != "vec" or p0 is None:
        analysis(r, p + ":initial-table", "cannot see the initial table / position of %s (%s)" % (
            last(p), show(t0) if t0 else None), wh)
    else:
        if as_const(p0) != 0:
            r.violation(p + ":initial-position", "the running position `%s` starts at %s, not 0: every line start is "
                        "shifted" % (pos, show(p0)), wh)
        if len(t0[1]) != 1 or as_const(t0[1][0]) != 0:
            r.violation(p + ":initial-table", "the table starts as [%s], not [0]: the first line has no start at "
                        "offset 0 (offsets on line 0 hit `idx - 1` with idx = 0 → panic, or every line is off by one)"
                        % ", ".join(show(x) for x in t0[1]), wh)
    r.instance(p + ":iterates-content")
    src = pre.get(it)
    chain = []
    while src is not None and src[0] == "app" and len(src[2]) == 1:
        chain.append(last(src[1]))
        src = src[2][0]
    tparam = [n for n, ty in cx.ptypes(p).items() if strip_ref(ty) == "str"]
    if not (src is not None and src[0] == "param" and [src[1]] == tparam and "chars" in chain
            and set(chain) <= {"chars", "peekable"}):
        analysis(r, p + ":iterates-content", "the loop does not visibly iterate over `%s.chars()` (%s)" % (
            tparam[0] if tparam else "content", show(pre.get(it)) if pre.get(it) else None), wh)
    # ---- one generic iteration
    cases = {}
    npaths = 0
    U = Units(cx, cx.ptypes(p), ex)
    for s in L.cont:
        seg = s.log[lo:]
        consumed = []           # char value terms in consumption order
        known = {}              # char term -> known character
        pending = None
        pcs = s.pc[len(L.g.pc):]
        for e in seg:
            if e[0] != "call":
                continue
            l = last(e[1] or "")
            if l == "peek" and e[3] and e[3][0][0] == "obj" and e[3][0][1] == it:
                pending = None
                for (cnd, pol) in pcs:
                    if pol and cnd[0] == "bin" and cnd[1] == "Eq":
                        for a, b in ((cnd[2], cnd[3]), (cnd[3], cnd[2])):
                            if a == e[4] and b[0] == "ctor" and b[1] == S.SOME and b[2] and b[2][0][0] == "lit":
                                pending = b[2][0][2]
            elif l == "next" and e[3] and e[3][0][0] == "obj" and e[3][0][1] == it:
                forms = (("proj", e[4], S.SOME, 0), ("app", "unwrap", (e[4],)))
                consumed.append(forms)
                if pending is not None:
                    known[forms] = pending
                pending = None
        if not consumed:
            continue
        neq = {}
        for (cnd, pol) in pcs:
            if cnd[0] == "bin" and cnd[1] == "Eq":
                for a, b in ((cnd[2], cnd[3]), (cnd[3], cnd[2])):
                    if b[0] == "lit" and b[1] == "char":
                        for forms in consumed:
                            if a in forms:
                                if pol:
                                    known[forms] = b[2]
                                else:
                                    neq.setdefault(forms, set()).add(b[2])
        npaths += 1

        def subst(t):
            c0, d = S.lin_parts(t)
            out = const(c0)
            for a, k in d.items():
                v = a
                if a[0] == "app" and last(a[1]) == "len_utf8" and a[2]:
                    x = a[2][0]
                    if x[0] == "lit" and x[1] == "char":
                        v = const(len(x[2].encode("utf-8")))
                    else:
                        for forms in consumed:
                            if x in forms and forms in known:
                                v = const(len(known[forms].encode("utf-8")))
                out = add(out, S.scale(v, k))
            return out

        total = const(0)
        for forms in consumed:
            total = add(total, ("app", "core::char::methods::<impl char>::len_utf8", (forms[0],)))
        # canonicalise unwrap(..)/Some-payload forms of the same char
        def canon(t):
            c0, d = S.lin_parts(t)
            out = const(c0)
            for a, k in d.items():
                v = a
                if a[0] == "app" and last(a[1]) == "len_utf8" and a[2]:
                    for forms in consumed:
                        if a[2][0] in forms:
                            v = ("app", "core::char::methods::<impl char>::len_utf8", (forms[0],))
                out = add(out, S.scale(v, k))
            return out

        first = consumed[0]
        c1 = known.get(first)
        if c1 == LF and len(consumed) == 1:
            case = "LF"
        elif c1 == CR and len(consumed) == 2 and known.get(consumed[1]) == LF:
            case = "CRLF"
        elif c1 == CR and len(consumed) == 1:
            case = "CR"
        elif c1 is None and {LF, CR} <= neq.get(first, set()) and len(consumed) == 1:
            case = "other"
        elif c1 is None and len(consumed) == 1:
            case = "other?"         # not known to differ from every terminator
        else:
            case = "unclassified"
        desc = {"LF": "a '\\n'", "CRLF": "a '\\r' followed by '\\n'", "CR": "a '\\r' not followed by '\\n'",
                "other": "a character that is neither '\\n' nor '\\r'"}.get(case, "an unclassified character sequence")
        cases.setdefault(case, 0)
        cases[case] += 1
        delta = subst(canon(sub(s.get(pos), L.g.get(pos))))
        want = subst(canon(total))
        key = "%s:%s" % (p, case)
        r.instance(key + ":advance", sample={"case": case, "Δ" + pos: show(delta), "consumed bytes": show(want)})
        res = sub(delta, want)
        if not is_zero(res):
            lens = all(a[0] == "app" and last(a[1]) == "len_utf8" for a in S.atoms(res))
            msg = ("on the path that consumes %s the running position `%s` advances by %s but the consumed "
                   "characters are %s bytes long: every later line start is shifted against the text" % (
                       desc, pos, show(delta), show(want)))
            if lens:
                r.violation(key + ":position-advance", msg, wh)
            else:
                analysis(r, key + ":position-advance", msg + " [not comparable]", wh)
        ps = pushes(s, lo)
        r.instance(key + ":line-start", sample={"case": case, "pushes": [show(e[2]) for e in ps]})
        if case in ("LF", "CRLF", "CR"):
            if not ps:
                r.violation(key + ":no-line-start", "the path that consumes %s pushes no line start: the following "
                            "text stays on the previous line — every position after it has the wrong line number and "
                            "column (e.g. text \"a%sb\": offset of `b` must be line 1, column 0)" % (
                                desc, {"LF": "\\n", "CRLF": "\\r\\n", "CR": "\\r"}[case]), wh)
            elif len(ps) > 1:
                r.violation(key + ":line-start-count", "the path that consumes %s pushes %d line starts (one line "
                            "break): later line numbers are off by one" % (desc, len(ps)), wh)
            else:
                v = subst(canon(sub(ps[0][2], L.g.get(pos))))
                if not is_zero(sub(v, want)):
                    r.violation(key + ":line-start-value", "the path that consumes %s pushes the line start `%s` + %s, "
                                "but the terminator ends %s bytes after `%s`: the next line starts inside/after the "
                                "wrong character" % (desc, pos, show(v), show(want), pos), wh)
        elif case == "other":
            if ps:
                r.violation(key + ":spurious-line-start", "a character that is not a line terminator pushes a line "
                            "start", wh)
        elif case == "other?":
            if ps:
                analysis(r, key + ":line-start", "a path pushes a line start for a character that is not compared "
                         "with a terminator", wh)
        else:
            analysis(r, key, "cannot classify an iteration path of %s (consumed %d characters)" % (
                last(p), len(consumed)), wh)
    for case, eol in (("LF", "\\n"), ("CR", "\\r"), ("CRLF", "\\r\\n")):
        r.instance("%s:%s:handled" % (p, case))
        if case not in cases:
            if case == "CRLF" and "CR" in cases and "LF" in cases:
                r.violation("%s:CRLF:two-breaks" % p, "no path consumes '\\r' and the following '\\n' together: "
                            "\"\\r\\n\" is counted as two line breaks (text \"a\\r\\nb\": `b` must be on line 1, not 2)", wh)
            else:
                r.violation("%s:%s:unhandled" % (p, case), "no iteration path recognises the line terminator \"%s\": "
                            "texts using it have a single line in the table" % eol, wh)
    r.floor("iteration paths of the line-table loop", npaths, 4)
    # what the table holds: the unit of the pushed values
    u = CONST
    for s in L.cont:
        for e in pushes(s, lo):
            u = join(u, U.unit(e[2]))
    cx.entry_unit = u
    r.instance(p + ":entry-unit", sample={"unit": ushow(u)})
    if u != BYTES:
        msg = ("the pushed line starts are %s, not byte offsets: they are compared with span offsets (bytes) and used "
               "to slice the text" % ushow(u))
        if is_unknown(u):
            analysis(r, p + ":entry-unit", msg, wh)
        else:
            r.violation(p + ":entry-unit", msg, wh)
    r.observe("running position `%s`, table `%s`, iteration paths by case: %s; table entries are %s" % (
        pos, tab, dict(sorted(cases.items())), ushow(u)))


# --------------------------------------------------------------------------- R1: units
def position_sites(ex):
    """[(line, line-term, character-term)] of every Position built on any evaluated path"""
    out = []
    for (_k, s, _t, _L, lo) in ex.states():
        for e in s.log[lo:]:
            if e[0] == "watch" and e[1] == POS_NEW and len(e[2]) == 2:
                out.append((e[3], e[2][0], e[2][1]))
            elif e[0] == "mk" and e[1][0] == "rec" and e[1][1] == POS:
                d = dict(e[1][2])
                if F_LINE in d and F_CHAR in d:
                    out.append((None, d[F_LINE], d[F_CHAR]))
    return out


def rule_r1(chk, cx):
    r = chk.rule("C20.R1", "code units: every Position.character the server builds is a count of UTF-16 code units "
                           "(or a constant), Position.line a line number; the position→offset function compares the "
                           "client's column with a UTF-16 accumulator, returns bytes, and advances both accumulators "
                           "together by len_utf16()/len_utf8() of the same iterated char")
    r.anchor("offset→position function (returns lsp Position from text, line table, offset)", len(cx.off2pos) >= 1)
    r.anchor("position→offset function (takes an lsp Position, returns an integer offset)", len(cx.pos2off) >= 1)
    nsites = 0
    for fn in sorted(cx.ls.hir):
        fb = cx.ls.hir[fn]
        if "{closure" in fn or not mentions(fb["body"], POS):
            continue
        ex = cx.explore(fn, "units")
        if isinstance(ex, Unsupported):
            analysis(r, fn + ":unsupported", "%s builds an lsp Position but %s — outside the evaluator's fragment, the "
                     "unit of its column is NOT decided" % (fn, ex), where(fb))
            continue
        U = Units(cx, cx.ptypes(fn), ex)
        seen = {}
        bad = {}
        for (line, lt, ct) in position_sites(ex):
            seen.setdefault(line, []).append((lt, ct))
        if not seen:
            analysis(r, fn + ":no-site", "%s mentions lsp Position but no construction was reached on any path" % fn,
                     where(fb))
        not_evaluated(r, fn, fb, "Position", {POS_NEW}, seen)
        for line in sorted(seen, key=lambda x: x or 0):
            nsites += 1
            cu, lu = CONST, CONST
            for (lt, ct) in seen[line]:
                cu, lu = join(cu, U.unit(ct)), join(lu, U.unit(lt))
            r.instance("%s:Position@%s" % (fn, line), nontrivial=(cu != CONST),
                       sample={"fn": fn, "character": show(seen[line][-1][1])[:120], "unit": ushow(cu),
                               "line unit": ushow(lu)})
            wh = where(fb, line)
            if is_unknown(cu):
                analysis(r, fn + ":Position.character:unknown", "cannot derive the unit of the column `%s`: %s" % (
                    show(seen[line][-1][1])[:100], ushow(cu)), wh)
            elif cu not in (U16, CONST):
                bad.setdefault(cu, []).append((line, seen[line][-1][1]))
            if is_unknown(lu):
                analysis(r, fn + ":Position.line:unknown", "cannot derive the unit of the line `%s`: %s" % (
                    show(seen[line][-1][0])[:100], ushow(lu)), wh)
            elif lu not in (LINES, CONST):
                r.violation("%s:Position.line:%s" % (fn, lu if isinstance(lu, str) else "mixed"),
                            "%s builds an editor position whose line `%s` is %s, not a line number" % (
                                last(fn), show(seen[line][-1][0])[:100], ushow(lu)), wh)
        for cu, lst in sorted(bad.items(), key=repr):
            r.violation("%s:Position.character:%s" % (fn, cu if isinstance(cu, str) else "mixed"),
                        "%s builds editor positions (lines %s) whose column, e.g. `%s`, counts %s, not UTF-16 code "
                        "units (no position encoding is negotiated, so the client reads UTF-16): %s" % (
                            last(fn), ", ".join(str(l) for (l, _t) in lst), show(lst[0][1])[:100], ushow(cu),
                            "for a character outside the BMP before the offset the column is too small, e.g. text "
                            "`😀x`: `x` is at UTF-16 column 2 but character column 1" if cu == CHARS else
                            "for a non-ASCII character before the offset on the same line the column is too large, "
                            "e.g. text `\"ä\" x`: `x` is at UTF-16 column 4 but byte column 5"),
                        where(fb, lst[0][0]))
    # (2 = the conversion function and the whole-document edit; the 4 diagnostic sites are the known finding)
    r.floor("Position construction sites in the language server (distinct source lines)", nsites, 2)
    # ---- the reverse direction
    nloops = 0
    for fn in cx.pos2off:
        fb = cx.ls.hir.get(fn)
        if fb is None:
            analysis(r, fn + ":no-hir", "%s has no HIR body" % fn)
            continue
        wh = where(fb)
        ex = cx.explore(fn, "units")
        if isinstance(ex, Unsupported):
            analysis(r, fn + ":unsupported", "%s: %s" % (fn, ex), wh)
            continue
        pt = cx.ptypes(fn)
        U = Units(cx, pt, ex)
        posp = [n for n, ty in pt.items() if ty == POS]
        colterm = ("fld", ("param", posp[0]), F_CHAR) if len(posp) == 1 else None

        def has_col(t):
            return colterm is not None and subterm_of(colterm, t)

        # (1) comparisons with the client's column
        ncmp = 0
        for (_k, s, _t, _L, _lo) in ex.states():
            for (cnd, _pol) in s.pc:
                if cnd[0] != "bin" or cnd[1] not in ("Eq", "Ne", "Lt", "Le", "Gt", "Ge"):
                    continue
                for a, b in ((cnd[2], cnd[3]), (cnd[3], cnd[2])):
                    if has_col(a) and not has_col(b):
                        ub = U.unit(b)
                        if ub == CONST:
                            continue
                        ncmp += 1
                        r.instance("%s:column-compare:%s" % (fn, show(b)[:40]),
                                   sample={"compare": show(cnd)[:100], "unit": ushow(ub)})
                        if is_unknown(ub):
                            analysis(r, fn + ":column-compare:unknown", "cannot derive the unit of `%s`, which is "
                                     "compared with the client's column: %s" % (show(b)[:60], ushow(ub)), wh)
                        elif ub != U16:
                            r.violation("%s:column-compare:%s" % (fn, ub if isinstance(ub, str) else "mixed"),
                                        "%s compares the client's column (UTF-16 code units) with `%s`, which counts "
                                        "%s: after a non-ASCII character the scan stops at the wrong character (text "
                                        "\"äb\", position (0,1) must give offset 2)" % (
                                            last(fn), show(b)[:60], ushow(ub)), wh)
        r.floor("comparisons of an accumulator with Position.character in %s" % last(fn), ncmp, 1)
        # (2) returned offsets are bytes
        for (s, t) in ex.rets:
            u = U.unit(t)
            r.instance("%s:returns:%s" % (fn, show(t)[:60]), nontrivial=(u != CONST),
                       sample={"returns": show(t)[:100], "unit": ushow(u)})
            if is_unknown(u):
                analysis(r, fn + ":return-unit:unknown", "cannot derive the unit of the returned offset `%s`: %s" % (
                    show(t)[:80], ushow(u)), wh)
            elif u not in (BYTES, CONST):
                r.violation("%s:return-unit:%s" % (fn, u if isinstance(u, str) else "mixed"),
                            "%s returns `%s`, which is %s — not a byte offset into the text: for a line with a "
                            "non-ASCII character before the column the offset is wrong / not a char boundary" % (
                                last(fn), show(t)[:80], ushow(u)), wh)
        # (3) pairing inside the column loop
        for L in ex.loops:
            if L.kind != "For":
                continue
            names = sorted({n for (_sym, (L2, n)) in ex.symmap.items() if L2 is L})
            rows = []
            bad = None
            for s in L.cont + [x[1] for x in L.exits if x[0] in ("break", "ret")]:
                row = {}
                for n in names:
                    cur = s.get(n)
                    if cur is None:
                        continue
                    d = sub(cur, L.g.get(n))
                    if is_zero(d):
                        continue
                    c0, parts = S.lin_parts(d)
                    ok = c0 == 0 and len(parts) == 1
                    a = list(parts.items())[0] if ok else None
                    if ok and a[1] == 1 and a[0][0] == "app" and last(a[0][1]) in ("len_utf16", "len_utf8") and a[0][2]:
                        row[n] = (U16 if last(a[0][1]) == "len_utf16" else BYTES, a[0][2][0])
                    else:
                        bad = (n, d)
                rows.append(row)
            if not any(rows):
                continue
            nloops += 1
            key = "%s:column-loop" % fn
            r.instance(key, sample={"loop over": show(L.it)[:100] if L.it else None,
                                    "advances": [{n: v[0] for n, v in row.items()} for row in rows][:4]})
            if bad:
                analysis(r, key + ":advance", "`%s` advances by `%s` in the column loop — not a single "
                         "len_utf16()/len_utf8()" % (bad[0], show(bad[1])[:60]), wh)
                continue
            for row in rows:
                for n, (_u, x) in row.items():
                    if x != L.item:
                        r.violation(key + ":measures-other-char", "`%s` advances by the length of `%s`, which is not "
                                    "the character of this iteration" % (n, show(x)[:60]), wh)
            a16 = {n for row in rows for n, v in row.items() if v[0] == U16}
            a8 = {n for row in rows for n, v in row.items() if v[0] == BYTES}
            if len(a16) == 1 and len(a8) == 1:
                n16, n8 = list(a16)[0], list(a8)[0]
                for row in rows:
                    if (n16 in row) != (n8 in row):
                        r.violation(key + ":unpaired-advance", "a path through the column loop advances `%s` but not "
                                    "`%s`: the UTF-16 count and the byte offset stop describing the same character "
                                    "(the offset returned for column k is one character off)" % (
                                        n16 if n16 in row else n8, n8 if n16 in row else n16), wh)
            elif a16 and a8:
                analysis(r, key + ":accumulators", "the column loop has %d UTF-16 and %d byte accumulators" % (
                    len(a16), len(a8)), wh)
            # with a single kind of accumulator the comparison / return-unit checks above report the mismatch
    r.floor("column loops (UTF-16 / byte accumulators) in position→offset functions", nloops, 1)


# --------------------------------------------------------------------------- R2: clamping
def implied_in_bounds(idx, base, guards):
    """do the path conditions imply idx < len(base)?  (a - b <= c constraints, matched up to a constant)"""
    def is_len(t):
        return t[0] == "app" and last(t[1]) == "len" and len(t[2]) == 1 and t[2][0] == base
    for (cnd, pol) in guards:
        if cnd[0] != "bin":
            continue
        op, a, b = cnd[1], cnd[2], cnd[3]
        if not pol:
            op = {"Lt": "Ge", "Le": "Gt", "Gt": "Le", "Ge": "Lt", "Eq": "Ne", "Ne": "Eq"}.get(op)
        if op in ("Gt", "Ge"):
            op, a, b = {"Gt": "Lt", "Ge": "Le"}[op], b, a
        if op not in ("Lt", "Le") or not is_len(b):
            continue
        # a (<|<=) len(base);  idx = a - d  ⇒  idx <= len - (1|0) - d
        d = as_const(sub(a, idx))
        if d is None:
            continue
        slack = (1 if op == "Lt" else 0) + d
        if slack >= 1:
            return show(cnd) if pol else "not " + show(cnd)
    return None


def rule_r2(chk, cx):
    r = chk.rule("C20.R2", "clamping: in the position→offset function every index into the line table that derives from "
                           "the client's position is preceded, on its path, by a comparison with the table's length "
                           "that implies it is in bounds (an out-of-range line is clamped, not an index panic)")
    if not r.anchor("position→offset function", len(cx.pos2off) >= 1):
        return
    n = 0
    for fn in cx.pos2off:
        fb = cx.ls.hir.get(fn)
        ex = cx.explore(fn, "units")
        if fb is None or isinstance(ex, Unsupported):
            analysis(r, fn + ":unsupported", "%s: %s" % (fn, ex))
            continue
        pt = cx.ptypes(fn)
        U = Units(cx, pt, ex)
        seen = {}
        for (_k, s, _t, _L, lo) in ex.states():
            for e in s.log[lo:]:
                if e[0] != "index" or not U.is_table(e[1]):
                    continue
                client = any(strip_ref(pt.get(param_root(a) or "", "")) in (POS, RANGE) for a in S.atoms(e[2]))
                g = implied_in_bounds(e[2], e[1], s.pc[:e[3]])
                k = (show(e[1]), show(e[2]))
                cur = seen.get(k)
                seen[k] = (client, g if (cur is None or cur[1] is not None) else None)
        for (tb, ix), (client, g) in sorted(seen.items()):
            if client:
                n += 1
            r.instance("%s:%s[%s]" % (fn, tb, ix), nontrivial=client, sample={"index": "%s[%s]" % (tb, ix), "guard": g})
            if client and g is None:
                r.violation("%s:%s[%s]:unguarded" % (fn, tb, ix),
                            "%s indexes `%s[%s]` with a value taken from the client's position and no dominating "
                            "comparison with `%s.len()` that keeps it in bounds: a position whose line is past the "
                            "last line (e.g. text \"a\", position (5,0)) panics with an index-out-of-bounds instead of "
                            "being clamped to the end of the document" % (last(fn), tb, ix, tb), where(fb))
        # the early exit taken when the line is out of range stays inside the document
    r.floor("line-table indices derived from the client's position", n, 2)
    r.observe("not decided: that the slices content[table[i]..table[i+1]] are in bounds and on char boundaries (follows "
              "from the table's values, R5 + the table belonging to this text, R4); arithmetic overflow of line + 1")


# --------------------------------------------------------------------------- R3: the measured slice is the line
def rule_r3(chk, cx):
    r = chk.rule("C20.R3", "the measured slice is the reported line: offset→position measures content[S..offset] where, "
                           "for the binary search of the same table with the same offset, Ok(i) ⇒ line i, S ∈ {offset, "
                           "table[i]} and Err(i) ⇒ line i-1, S = table[i-1]; position→offset walks the chars of "
                           "content[table[line] .. table[line+1] | content.len()] and returns table[line] + bytes walked "
                           "(or content.len() / table[line])")
    n1 = n2 = 0
    for fn in cx.off2pos:
        fb = cx.ls.hir[fn]
        wh = where(fb)
        ex = cx.explore(fn, "units")
        if isinstance(ex, Unsupported):
            analysis(r, fn + ":unsupported", "%s: %s" % (fn, ex), wh)
            continue
        pt = cx.ptypes(fn)
        U = Units(cx, pt, ex)
        ti, tbi, oi = cx.sig_roles(cx.ls_fns[fn])
        pn = [S.pat_names(p)[0] for (p, _ty) in fb["params"]]
        text, table, off = ("param", pn[ti]), ("param", pn[tbi]), ("param", pn[oi])
        for (s, t) in ex.rets:
            sites = [e for e in s.log if e[0] == "watch" and e[1] == POS_NEW]
            if t[0] != "app" or t[1] != POS_NEW or len(t[2]) != 2:
                analysis(r, fn + ":shape", "%s returns `%s`, not a Position::new(line, column)" % (fn, show(t)[:80]), wh)
                continue
            lt, ct = t[2]
            sl = ct
            while sl[0] == "app" and len(sl[2]) == 1 and last(sl[1]) in ("count", "encode_utf16", "chars", "char_indices", "bytes"):
                sl = sl[2][0]
            rng = sl[2] if sl[0] == "idx" else None
            if not (sl[0] == "idx" and sl[1] == text and rng[0] == "rec" and last(rng[1]) == "Range"):
                analysis(r, fn + ":shape", "the column of %s is `%s`, not a count over a slice `%s[a..b]` — the "
                         "line-slice clause is not decided for it" % (last(fn), show(ct)[:80], pn[ti]), wh)
                continue
            d = dict(rng[2])
            A, B = d.get("start"), d.get("end")
            bs = [e for e in s.log if e[0] == "call" and last(e[1] or "") == "binary_search"]
            mt = [e for e in s.log if e[0] == "matched" and bs and e[1] == bs[0][4]]
            if len(bs) != 1 or len(mt) != 1:
                analysis(r, fn + ":search", "%s does not find the line with exactly one binary search on this path" %
                         last(fn), wh)
                continue
            n1 += 1
            arm = last(mt[0][2])
            key = "%s:%s" % (fn, arm)
            r.instance(key, sample={"arm": arm, "line": show(lt), "slice": "%s[%s..%s]" % (pn[ti], show(A), show(B))})
            if tuple(bs[0][3]) != (table, off):
                r.violation(key + ":search-operands", "the line is searched with `%s`, not in the line table `%s` with "
                            "the offset `%s` that is being converted" % (
                                ", ".join(show(x) for x in bs[0][3]), pn[tbi], pn[oi]), wh)
                continue
            if B != off:
                r.violation(key + ":slice-end", "the measured prefix ends at `%s`, not at the offset `%s`: the column is "
                            "not the distance from the line start to the offset" % (show(B), pn[oi]), wh)
            i = ("proj", bs[0][4], mt[0][2], 0)
            if mt[0][2] == S.OK:
                want_line, starts = i, (off, ("idx", table, i))
            else:
                want_line = sub(i, const(1))
                starts = (("idx", table, want_line),)
            if lt != want_line:
                r.violation(key + ":line", "on the %s arm the reported line is `%s`, but the line containing the offset "
                            "is `%s` (binary search: Ok(i) = start of line i, Err(i) = inside line i-1): every "
                            "position on that arm is reported on the wrong line" % (arm, show(lt), show(want_line)), wh)
            if A not in starts:
                r.violation(key + ":line-start", "on the %s arm the measured prefix starts at `%s`, not at the start "
                            "`%s` of the reported line: the column counts characters of another line (or the slice "
                            "panics because start > offset)" % (arm, show(A), show(starts[-1])), wh)
    for fn in cx.pos2off:
        fb = cx.ls.hir.get(fn)
        ex = cx.explore(fn, "units")
        if fb is None or isinstance(ex, Unsupported):
            analysis(r, fn + ":unsupported", "%s: %s" % (fn, ex))
            continue
        wh = where(fb)
        pt = cx.ptypes(fn)
        text = [("param", n) for n, ty in pt.items() if strip_ref(ty) == "str"]
        table = [("param", n) for n, ty in pt.items() if strip_ref(ty) == "[u32]"]
        posp = [("param", n) for n, ty in pt.items() if ty == POS]
        if not (len(text) == len(table) == len(posp) == 1):
            analysis(r, fn + ":params", "%s: cannot identify text / table / position parameters" % fn, wh)
            continue
        text, table, posp = text[0], table[0], posp[0]
        line = ("fld", posp, F_LINE)
        start = ("idx", table, line)
        ends = (("idx", table, add(line, const(1))), None)
        loop_of = {}
        for L in ex.loops:
            if L.kind != "For" or L.it is None:
                continue
            itt = L.it
            if not (itt[0] == "app" and last(itt[1]) == "chars" and len(itt[2]) == 1):
                continue
            n2 += 1
            sl = itt[2][0]
            key = "%s:line-slice" % fn
            r.instance(key + "@%d" % L.idx, sample={"loop over": show(itt)[:120]})
            if not (sl[0] == "idx" and sl[1] == text and sl[2][0] == "rec" and last(sl[2][1]) == "Range"):
                analysis(r, key, "the column loop of %s iterates over `%s`, not over the chars of a slice of `%s`" % (
                    last(fn), show(itt)[:80], text[1]), wh)
                continue
            d = dict(sl[2][2])
            A, E = d.get("start"), d.get("end")
            loop_of[L.idx] = A
            if A != start:
                r.violation(key + ":start", "the column loop starts at `%s`, not at the start `%s` of the addressed "
                            "line: columns are counted from another line" % (show(A), show(start)), wh)
            is_len = E is not None and E[0] == "app" and E[1] in STR_LEN and E[2] == (text,)
            if E != ends[0] and not is_len:
                r.violation(key + ":end", "the column loop ends at `%s`, not at the start of the next line `%s` / the "
                            "end of the text: a column past the end of the line is not clamped to the line" % (
                                show(E), show(ends[0])), wh)
        for (s, t) in ex.rets:
            key = "%s:returns" % fn
            r.instance(key + ":" + show(t)[:60], sample={"returns": show(t)[:100]})
            if t[0] == "app" and t[1] in STR_LEN and t[2] == (text,):
                continue                                    # clamped to the end of the document
            c0, parts = S.lin_parts(t)
            syms = [a for a in parts if a[0] == "sym"]
            rest = [a for a in parts if a[0] != "sym"]
            ok = c0 == 0 and rest == [start] and parts[start] == 1 and len(syms) <= 1 and all(parts[a] == 1 for a in syms)
            if ok and syms:
                hit = ex.symmap.get(syms[0])
                ok = hit is not None and loop_of.get(hit[0].idx) == start
            if not ok:
                if rest and rest[0][0] == "idx" and rest[0][1] == table and rest != [start]:
                    r.violation(key + ":base", "%s returns `%s`: the bytes walked are not added to the start `%s` of "
                                "the addressed line" % (last(fn), show(t)[:80], show(start)), wh)
                else:
                    analysis(r, key + ":shape", "%s returns `%s` — not content.len(), table[line] or table[line] + "
                             "bytes walked on that line" % (last(fn), show(t)[:80]), wh)
    r.floor("offset→position return paths (binary-search arms)", n1, 2)
    r.floor("position→offset column loops", n2, 1)


# --------------------------------------------------------------------------- R4: ranges
def span_points(cx, t):
    """{(accessor name, receiver term)} of the Span accessors applied inside t"""
    return {(cx.span_acc[x[1]], x[2][0]) for x in S.subterms(t) if x[0] == "app" and x[1] in cx.span_acc and x[2]}


def replace_points(cx, t):
    """t with every Span accessor application replaced by a marker on its receiver"""
    if not isinstance(t, tuple):
        return t
    if t and t[0] == "app" and t[1] in cx.span_acc and t[2]:
        return ("SPAN-POINT", t[2][0])
    if t and t[0] == "lin":
        out = const(t[1])
        for a, k in t[2]:
            out = add(out, S.scale(replace_points(cx, a), k))
        return out
    return tuple(replace_points(cx, x) for x in t)


def leaves(t):
    return {y for y in S.subterms(t) if y[0] in ("param", "sym", "obj", "free")}


def callee_bag(t):
    return sorted(x[1] for x in S.subterms(t) if x[0] == "app")


def range_sites(ex):
    out = []
    for (_k, s, _t, _L, lo) in ex.states():
        for e in s.log[lo:]:
            if e[0] == "watch" and e[1] == RANGE_NEW and len(e[2]) == 2:
                out.append((e[3], e[2][0], e[2][1]))
            elif e[0] == "mk" and e[1][0] == "rec" and e[1][1] == RANGE:
                d = dict(e[1][2])
                if "start" in d and "end" in d:
                    out.append((None, d["start"], d["end"]))
    return out


def rule_r4(chk, cx):
    r = chk.rule("C20.R4", "ranges: a Range's start and end are the same computation applied to start()/end() of one "
                           "span; symbol ranges use the content and line table of one file object that is the element's "
                           "own; `range` ← the element's whole span, `selection_range` ← a span derived from the same "
                           "element; every SourceFile stores the table built from its own content")
    # ---- (a) Range constructions
    nr = 0
    for fn in sorted(cx.ls.hir):
        fb = cx.ls.hir[fn]
        if "{closure" in fn or not mentions(fb["body"], RANGE):
            continue
        ex = cx.explore(fn, "calls")
        if isinstance(ex, Unsupported):
            analysis(r, fn + ":unsupported", "%s builds an lsp Range but %s" % (fn, ex), where(fb))
            continue
        seen = {}
        for (line, st, en) in range_sites(ex):
            seen.setdefault(line, set()).add((st, en))
        if not seen:
            analysis(r, fn + ":no-site", "%s mentions lsp Range but no construction was reached on any path" % fn,
                     where(fb))
        not_evaluated(r, fn, fb, "Range", {RANGE_NEW}, seen)
        for line in sorted(seen, key=lambda x: x or 0):
            for (st, en) in sorted(seen[line], key=repr):
                ps, pe = span_points(cx, st), span_points(cx, en)
                wh = where(fb, line)
                key = "%s:Range" % fn
                if not ps and not pe:
                    r.instance("%s@%s" % (key, line), nontrivial=False, sample={"fn": fn, "range": "no span involved"})
                    continue
                nr += 1
                r.instance("%s@%s" % (key, line), sample={"fn": fn, "start": show(st)[:100], "end": show(en)[:100]})
                if {a for (a, _x) in ps} != {"start"}:
                    r.violation(key + ".start:not-from-span-start", "%s computes the start of a range from %s of the "
                                "span, not from start() alone" % (last(fn), sorted(a for (a, _x) in ps) or "nothing"), wh)
                    continue
                ends = {a for (a, _x) in pe}
                if not (ends == {"end"} or ends == {"start", "len"}):
                    r.violation(key + ".end:not-from-span-end", "%s computes the end of a range from %s of the span, "
                                "not from end(): every reported range is empty or ends at the wrong place (the range "
                                "of `fn foo() {}` must end after `}`, not at `fn`)" % (
                                    last(fn), sorted(ends) or "nothing"), wh)
                    continue
                if {x for (_a, x) in ps} != {x for (_a, x) in pe}:
                    r.violation(key + ":different-spans", "%s takes the start and the end of a range from different "
                                "spans (%s / %s)" % (last(fn), ", ".join(sorted(show(x)[:40] for (_a, x) in ps)),
                                                     ", ".join(sorted(show(x)[:40] for (_a, x) in pe))), wh)
                    continue
                if ends == {"end"} and replace_points(cx, st) != replace_points(cx, en):
                    if callee_bag(st) == callee_bag(en):
                        r.violation(key + ":start-end-differ", "%s converts the start and the end of a span with "
                                    "different operands (`%s` vs `%s`): the two ends are measured against different "
                                    "content / line tables" % (last(fn), show(st)[:80], show(en)[:80]), wh)
                    else:
                        analysis(r, key + ":start-end-differ", "%s computes start and end of a range by different "
                                 "computations (`%s` vs `%s`) — not compared" % (last(fn), show(st)[:80], show(en)[:80]), wh)
    r.floor("Range constructions from a span", nr, 1)
    # ---- (e) the table stored in a file object is the table of its content
    try:
        fe = cx.F.crate(FE)
    except Exception:
        fe = None
    nctor = 0
    if r.anchor("facts for dora_frontend (owner of the per-file line table)", fe is not None) and cx.builder:
        T = Types(fe)
        for path, b in sorted(fe.mir.items()):
            body = Body(b)
            if not body.calls_to(cx.builder):
                continue
            defs = simple_defs(body)
            for blk in body.blocks:
                if blk["c"]:
                    continue
                for s_ in blk["s"]:
                    if not (s_[0] == "a" and s_[2][0] == "agg" and s_[2][1][0] == "adt"):
                        continue
                    adt = fe.adt(s_[2][1][1])
                    if not adt or adt["path"] != s_[2][1][1] or adt["kind"] != "struct":
                        continue
                    fields = adt["variants"][0]["fields"]
                    for fi, op in enumerate(s_[2][2]):
                        o = trace_through(body, op, defs)
                        if not (o[0] == "call" and cfg.callee_name(cfg.callee_of(o[1]["f"])) == cx.builder):
                            continue
                        nctor += 1
                        cx.table_fields.add(fields[fi]["name"])
                        cx.file_adt = adt["path"]
                        key = "%s:%s.%s" % (path, last(adt["path"]), fields[fi]["name"])
                        src = trace_through(body, o[1]["a"][0], defs)
                        texts = [(fj, trace_through(body, op2, defs)) for fj, op2 in enumerate(s_[2][2])
                                 if re.search(r"(^|<)alloc::string::String>*$", fields[fj]["ty"])
                                 or strip_ref(fields[fj]["ty"]) in ("str", "alloc::string::String")]
                        r.instance(key, sample={"ctor": path, "table field": fields[fi]["name"],
                                                "text fields": [fields[fj]["name"] for fj, _o in texts]})

                        def same(a, b_):
                            return a[0] == b_[0] and a[0] in ("param", "local") and a[1] == b_[1]
                        if not texts:
                            analysis(r, key, "%s stores a line table but no text field was recognised" % path,
                                     "%s:%d" % (b["file"], s_[3]))
                        elif not any(same(src, o2) for (_fj, o2) in texts):
                            r.violation(key + ":table-of-other-text", "%s builds a %s whose `%s` is computed from a "
                                        "text that is not the one stored in the same object: every position in that "
                                        "file is converted with the line table of another text" % (
                                            path, last(adt["path"]), fields[fi]["name"]), "%s:%d" % (b["file"], s_[3]))
        # nobody else writes the table / text fields
        if cx.file_adt:
            watch = set(cx.table_fields)
            for c in (fe, cx.ls):
                Tc = Types(c) if c is not fe else T
                Tc.adts.setdefault(cx.file_adt, fe.adt(cx.file_adt))
                for path, b in c.mir.items():
                    body = Body(b)
                    for blk in body.blocks:
                        if blk["c"]:
                            continue
                        for s_ in blk["s"]:
                            if s_[0] != "a":
                                continue
                            pls = [s_[1]] + ([s_[2][2]] if s_[2][0] == "ref" and s_[2][1] else [])
                            for pl in pls:
                                if not any(pr[1:] in watch for pr in pl[1] if pr.startswith(".")):
                                    continue
                                for (_i, f) in Tc.field_hits(body, pl, cx.file_adt, tuple(watch)):
                                    analysis(r, "%s:writes-%s" % (path, f), "%s writes / mutably borrows %s.%s after "
                                             "construction: the table may no longer belong to the text" % (
                                                 path, last(cx.file_adt), f), "%s:%d" % (b["file"], s_[3]))
    r.floor("file-object constructions that store a line table", nctor, 1)
    # ---- (b)/(c) callers of the conversion functions
    ncalls = nsym = 0
    name_fns = {}
    for fn in sorted(cx.ls.hir):
        fb = cx.ls.hir[fn]
        if "{closure" in fn or fn in cx.converters:
            continue
        if not call_lines(fb["body"], set(cx.converters)):
            continue
        ex = cx.explore(fn, "calls")
        if isinstance(ex, Unsupported):
            analysis(r, fn + ":unsupported", "%s converts spans to ranges but %s" % (fn, ex), where(fb))
            continue
        wh = where(fb)
        calls = {}
        for (_k, s, _t, _L, lo) in ex.states():
            for e in s.log[lo:]:
                if e[0] == "watch" and e[1] in cx.converters:
                    calls[("app", e[1], e[2])] = e[3]
        files = {}
        not_evaluated(r, fn, fb, "conversion", set(cx.converters), set(calls.values()))
        for call, line in sorted(calls.items(), key=lambda kv: kv[1]):
            ti, tbi, oi = cx.sig_roles(cx.ls_fns[call[1]])
            C, Tt, Sp = call[2][ti], call[2][tbi], call[2][oi]
            ncalls += 1
            key = "%s:%s" % (fn, last(call[1]))
            r.instance("%s@%d" % (key, line), sample={"content": show(C)[:80], "table": show(Tt)[:80], "span": show(Sp)[:80]})
            whl = where(fb, line)
            # functions whose result is used as the (name) span: checked per element kind below
            for y in S.subterms(Sp):
                if y[0] == "app" and y[1] in cx.ls.hir and y[1] not in cx.converters:
                    idx = Sp[2] if Sp[0] == "fld" and Sp[2].isdigit() else None
                    name_fns.setdefault(y[1], set()).add(idx)
            X = None
            if Tt[0] == "fld" and Tt[2] in cx.table_fields:
                X = Tt[1]
            elif Tt[0] == "app" and Tt[1] == cx.builder and Tt[2] == (C,):
                continue
            else:
                analysis(r, key + ":table-origin", "%s passes `%s` as line table — neither a file object's table field "
                         "(%s) nor the table built from the very content" % (
                             last(fn), show(Tt)[:60], ", ".join(sorted(cx.table_fields)) or "none known"), whl)
                continue
            files[call] = X
            if not subterm_of(X, C):
                r.violation(key + ":content-and-line-table-from-different-files",
                            "%s converts a span with the content `%s` but the line table of `%s`: the range is "
                            "computed against another file's line table — it lies outside the document (or the slice "
                            "panics)" % (last(fn), show(C)[:70], show(X)[:70]), whl)
                continue
            # the file is looked up in a container (first argument) by a key: the span must derive from that key
            keyl = leaves(X) - (leaves(X[2][0]) if X[0] == "app" and X[2] else set())
            if not subterm_of(X, Sp) and keyl and not (keyl & leaves(Sp)):
                r.violation(key + ":span-of-another-object", "%s converts the span `%s` with the file `%s`, but the "
                            "span is not derived from that file nor from what the file was looked up with (%s)" % (
                                last(fn), show(Sp)[:70], show(X)[:70], ", ".join(sorted(show(x) for x in keyl))), whl)
        # the symbol literal
        for (_k, s, _t, _L, lo) in ex.states():
            for e in s.log[lo:]:
                if not (e[0] == "mk" and e[1][0] == "rec"):
                    continue
                d = dict(e[1][2])
                if F_RANGE not in d or F_SEL not in d:
                    continue
                nsym += 1
                key = "%s:%s" % (fn, last(e[1][1]))
                rg, sel = d[F_RANGE], d[F_SEL]
                r.instance(key, sample={"range": show(rg)[:100], "selection_range": show(sel)[:100]})
                if not (rg[0] == "app" and sel[0] == "app" and rg[1] in cx.converters and rg[1] == sel[1]):
                    analysis(r, key + ":shape", "`range` / `selection_range` of %s are not both results of the same "
                             "span→range conversion" % last(e[1][1]), wh)
                    continue
                ti, tbi, oi = cx.sig_roles(cx.ls_fns[rg[1]])
                if (rg[2][ti], rg[2][tbi]) != (sel[2][ti], sel[2][tbi]):
                    r.violation(key + ":ranges-of-different-documents", "`range` and `selection_range` are converted "
                                "with different content / line tables (`%s` vs `%s`): the selection range cannot lie "
                                "inside the symbol's range" % (show(rg[2][tbi])[:60], show(sel[2][tbi])[:60]), wh)
                    continue
                X = files.get(rg)
                sp = rg[2][oi]
                if X is None:
                    continue
                whole = sp[0] == "app" and len(sp[2]) == 1 and sp[2][0][0] == "app" and subterm_of(sp[2][0], X)
                if not whole:
                    analysis(r, key + ":range-span", "`range` is converted from `%s`, not from an accessor of the "
                             "element object whose file is used" % show(sp)[:80], wh)
                    continue
                elem = sp[2][0]
                roots = {y for y in S.subterms(elem) if y[0] == "param"}
                sroots = {y for y in S.subterms(sel[2][oi]) if y[0] == "param"}
                if not roots <= sroots:
                    r.violation(key + ":selection-of-another-element", "`selection_range` is converted from `%s`, which "
                                "does not derive from the element (`%s`) whose span is the `range`" % (
                                    show(sel[2][oi])[:80], show(elem)[:60]), wh)
    r.floor("span→range conversions in symbol providers", ncalls, 4)
    r.floor("symbol literals with range and selection_range", nsym, 1)
    # ---- (d) name spans belong to the matched element
    narms = 0
    for fn, idxs in sorted(name_fns.items()):
        fb = cx.ls.hir[fn]
        wh = where(fb)
        ex = cx.explore(fn, "calls")
        if isinstance(ex, Unsupported):
            analysis(r, fn + ":unsupported", "%s computes name spans but %s" % (fn, ex), wh)
            continue
        if len(idxs) != 1 or None in idxs:
            analysis(r, fn + ":result-shape", "the span is not taken from one tuple field of %s's result" % fn, wh)
            continue
        idx = int(list(idxs)[0])
        arms = {}
        for (s, t) in ex.rets:
            ms = [e for e in s.log if e[0] == "matched" and e[1][0] == "param"]
            if len(ms) != 1:
                if t[0] == "ctor" and t[1] == S.SOME:
                    analysis(r, fn + ":arm", "a path of %s returns a span without matching on the element id" % fn, wh)
                continue
            if not (t[0] == "ctor" and t[1] == S.SOME and t[2] and t[2][0][0] == "tup" and len(t[2][0][1]) > idx):
                continue
            sp = t[2][0][1][idx]
            payload = any(y[0] == "proj" and y[1] == ms[0][1] and y[2] == ms[0][2] for y in S.subterms(sp))
            arms.setdefault(ms[0][2], []).append((payload, sp))
        for variant, lst in sorted(arms.items()):
            narms += 1
            r.instance("%s:%s" % (fn, last(variant)), sample={"arm": last(variant), "span": show(lst[0][1])[:100]})
            if not all(p for (p, _sp) in lst):
                bad = [sp for (p, sp) in lst if not p][0]
                r.violation("%s:%s:name-span-not-of-this-element" % (fn, last(variant)),
                            "the %s arm of %s returns the span `%s`, which does not derive from the matched element's "
                            "id: the selection range is not the name of the symbol whose range it is reported with" % (
                                last(variant), last(fn), show(bad)[:80]), wh)
    r.floor("element-kind arms returning a name span", narms, 24)
    r.observe("not decided: that the name node lies inside the element's span (parser property), that File::content of "
              "SourceFile::ast is the text the table was built from, value-level containment of child ranges in parents")


# --------------------------------------------------------------------------- entry
def run(chk, F):
    cx = Cx(F)
    chk.assumptions.append("span offsets are byte offsets into the file's text (C16); the client uses the default "
                           "UTF-16 position encoding (the server negotiates none)")
    # R5 first: it derives the unit of the line-table entries that R1 relies on (rules are reported in this order)
    rule_r5(chk, cx)
    # the struct fields that hold a line table (reported by R4) are needed by R1's units for `file.line_starts[..]`
    try:
        fe = F.crate(FE)
        pre_fill_table_fields(cx, fe)
    except Exception:
        pass
    rule_r1(chk, cx)
    rule_r2(chk, cx)
    rule_r3(chk, cx)
    rule_r4(chk, cx)
    # spans that reach the position conversion lie on character boundaries: computed spans follow the consumed text
    from rules import c06_spans
    c06_spans.run(chk, F, rid="C20.R6")
    chk.rules.sort(key=lambda r: r.name)


def pre_fill_table_fields(cx, fe):
    """struct fields initialised from the table builder (same derivation as R4 (e), without reporting)"""
    for path, b in fe.mir.items():
        body = Body(b)
        if not body.calls_to(cx.builder or "?"):
            continue
        defs = simple_defs(body)
        for blk in body.blocks:
            for s_ in blk["s"]:
                if s_[0] == "a" and s_[2][0] == "agg" and s_[2][1][0] == "adt":
                    adt = fe.adt(s_[2][1][1])
                    if not adt or adt["path"] != s_[2][1][1] or adt["kind"] != "struct":
                        continue
                    for fi, op in enumerate(s_[2][2]):
                        o = trace_through(body, op, defs)
                        if o[0] == "call" and cfg.callee_name(cfg.callee_of(o[1]["f"])) == cx.builder:
                            cx.table_fields.add(adt["variants"][0]["fields"][fi]["name"])

"""C02.R16 — boots code generators (pkgs/boots/codegen/{x64,arm64}.dora): inside an arm of a dispatch on the
instruction's value / operation / source type, an assembler instruction that reads one of the instruction's typed input
registers uses the operand-width form of the arm's type.

Widths of assembler methods are derived from pkgs/boots/assembler/{arm64,x64}.dora (the `sf` literal / FLOAT_TYPE_*
argument of the encoders, REX.W of the x64 emitters, through wrappers), falling back to the mnemonic's size marker.
"""
import re

import doraq

CG = {"arm64": "pkgs/boots/codegen/arm64.dora", "x64": "pkgs/boots/codegen/x64.dora"}
ASM = {"arm64": ("pkgs/boots/assembler/arm64.dora", "AssemblerArm64"),
       "x64": ("pkgs/boots/assembler/x64.dora", "AssemblerX64")}

# value bits of Dora's scalar types as operands; UInt8/Bool live zero-extended in 32-bit registers, so both the byte
# form and the 32-bit form read the whole value (the code base merges them with Int32 arms)
TYPE_BITS = {"Int64": {64}, "Ptr": {64}, "Address": {64}, "Int32": {32}, "Char": {32},
             # UInt8/Bool are kept zero-extended in their registers (every 8/32-bit write clears the upper bits), so
             # the byte, 32-bit and 64-bit forms all read the whole value
             "UInt8": {8, 32, 64}, "Bool": {8, 32, 64},
             "Float32": {32}, "Float64": {64}}
VALUE_BITS = {"Int64": 64, "Ptr": 64, "Address": 64, "Int32": 32, "Char": 32, "UInt8": 8, "Bool": 8, "Float32": 32,
              "Float64": 64}
TYPE_SOURCES = {"get_value_type": "value", "get_operation_type": "operation", "get_source_type": "source"}

# extension instructions read a source narrower than the form they are encoded in (that is their purpose): the source
# width is the letter in the mnemonic, not sf / REX.W.  arm64: sxt?/uxt? + b/h/w;  x64: movsx/movzx + source letter
_A64_EXT = re.compile(r"^[su]xt([bhw])$")
_X64_EXT = re.compile(r"^mov[sz]x([bwl])[wlq]?$")
_LETTER = {"b": 8, "h": 16, "w": 32, "l": 32, "q": 64}


def mnemonic(n):
    return n.split("_")[0]


class AsmWidths:
    """assembler method → {'gp': bits|None, 'fp': bits|None, 'params': [(name, type)], 'mem': bool}"""

    def __init__(self, D, arch):
        self.arch = arch
        f, cont = ASM[arch]
        t = D.get(f)
        self.ok = t is not None
        self.fns = {}
        self.enc = {}
        if t is None:
            return
        for fn in doraq.functions(t, f):
            if fn.container == cont and fn.body is not None:
                self.fns.setdefault(fn.name, fn)
            elif fn.qual.startswith("encoding::"):
                self.enc[fn.name] = [p for p, _t in fn.params()]
        self._memo = {}
        self.derived = 0
        self.by_name = 0

    def params(self, name):
        fn = self.fns.get(name)
        return fn.params() if fn else None

    def _derive(self, name, depth=0):
        fn = self.fns.get(name)
        gp, fp, byte = set(), set(), False
        if fn is None or depth > 5:
            return gp, fp
        for c in doraq.calls(fn.body):
            if self.arch == "arm64":
                if c.callee.startswith("encoding::") and c.name in self.enc:
                    ps = self.enc[c.name]
                    if "sf" in ps and ps.index("sf") < len(c.args):
                        v = doraq.lit_value(c.args[ps.index("sf")])
                        if v in (0, 1):
                            gp.add(64 if v == 1 else 32)
                    if "ty" in ps and ps.index("ty") < len(c.args):
                        tx = doraq.text(c.args[ps.index("ty")])
                        if tx.endswith("FLOAT_TYPE_SINGLE"):
                            fp.add(32)
                        elif tx.endswith("FLOAT_TYPE_DOUBLE"):
                            fp.add(64)
                elif c.callee.startswith("self.") and c.callee.count(".") == 1:
                    callee = self.fns.get(c.name)
                    if callee is None:
                        continue
                    ps = [p for p, _t in callee.params()]
                    if "sf" in ps and ps.index("sf") < len(c.args):
                        v = doraq.lit_value(c.args[ps.index("sf")])
                        if v in (True, False):
                            gp.add(64 if v else 32)
                        continue
                    g2, f2 = self._derive(c.name, depth + 1)
                    gp |= g2
                    fp |= f2
            else:
                if not (c.callee.startswith("self.") and c.callee.count(".") == 1):
                    continue
                if c.name in ("emit_rex", "emit_rex_optional") and c.args:
                    v = doraq.lit_value(c.args[0])
                    if v in (True, False):
                        gp.add(64 if v else 32)
                    continue
                if c.name.startswith("emit_") and "byte" in c.name and "rex" in c.name:
                    byte = True
                if c.name.startswith("emit_") and c.name in self.fns:
                    if re.search(r"0x4[89A-Fa-f]i32", doraq.text(self.fns[c.name].body)) and "rex64" in c.name:
                        gp.add(64)
                    g2, f2 = self._derive(c.name, depth + 1)
                    gp |= g2
        if byte:
            gp = {8}
        return gp, fp

    def width(self, name):
        if name in self._memo:
            return self._memo[name]
        gp, fp = self._derive(name)
        g = gp.pop() if len(gp) == 1 else None
        f = fp.pop() if len(fp) == 1 else None
        mn = mnemonic(name)
        src = "derived" if (g is not None or f is not None) else "name"
        if self.arch == "arm64":
            m = _A64_EXT.match(mn)
            if m:
                g = _LETTER[m.group(1)]
            elif re.match(r"^[su]m(ul|add|sub|neg)l$", mn):
                g = 32      # ISA fact: the widening multiplies (SMULL Xd, Wn, Wm …) read 32-bit sources whatever sf says
            if g is None:
                if name.endswith("_w"):
                    g = 32
                elif name + "_w" in self.fns:
                    g = 64
            # conversions between the files name both sides: scvtf_si_sw / fcvtzs_wd: w/x = integer side, s/d = float
            m2 = re.search(r"_(?:si_)?([sd])([wx])$|_([wx])([sd])$", name)
            if m2:
                fl = m2.group(1) or m2.group(4)
                it = m2.group(2) or m2.group(3)
                if f is None:
                    f = 32 if fl == "s" else 64
                if g is None:
                    g = 32 if it == "w" else 64
            if f is None:
                if name.endswith("_s"):
                    f = 32
                elif name.endswith("_d"):
                    f = 64
            if re.match(r"^(ld|st)", mn):
                # loads/stores: the transferred register's width is the access size (b/h suffix, _w, _s/_d, else 64)
                if mn[-1] in "bh" and len(mn) > 3:
                    g = 8 if mn[-1] == "b" else 16
                elif name.endswith("_w"):
                    g = 32
                elif not (name.endswith("_s") or name.endswith("_d")):
                    g = 64
        else:
            mn = re.sub(r"^lock$", "", mn) or mnemonic(name[5:]) if name.startswith("lock_") else mn
            base = mn[1:] if mn.startswith("v") and len(mn) > 3 else mn       # VEX forms: v + the SSE mnemonic
            m = _X64_EXT.match(base)
            mc = re.match(r"^cvt(?:t)?(si|ss|sd)2(si|ss|sd)([dq])?$", base)
            mm = re.match(r"^mov([dq])$", base)
            if m:
                g = _LETTER[m.group(1)]
            elif mc:
                # cvt<src>2<dst>[d|q]: ss/sd name the float side(s) — the source for float→float —, d/q the integer side
                fl = mc.group(1) if mc.group(1) != "si" else mc.group(2)
                f = 32 if fl == "ss" else 64
                if mc.group(3):
                    g = 32 if mc.group(3) == "d" else 64
            elif mm and re.search(r"_(rx|xr)$", name):
                g = f = 32 if mm.group(1) == "d" else 64          # movd/movq between a GP and an XMM register
            else:
                if g is None:
                    # REX.W = 0 covers the 32-, 16- and 8-bit forms: the size letter of the mnemonic decides
                    m3 = re.match(r"^[a-z]+?([bwlq])$", base)
                    if m3 and not re.search(r"(ss|sd|ps|pd)$", base):
                        g = _LETTER[m3.group(1)]
                        src = "name"
                if re.search(r"ss$", base):
                    f = 32
                elif re.search(r"sd$", base):
                    f = 64
        if src == "derived":
            self.derived += 1
        else:
            self.by_name += 1
        self._memo[name] = {"gp": g, "fp": f}
        return self._memo[name]


_INPUT = re.compile(r"\.get_input\((\d+)\w*\)\.get_(float_)?register\(\)$")
_OUTPUT = re.compile(r"\.get_output\(\)\.get_(float_)?register\(\)$")
_ADDR_PARAMS = ("rn", "rm", "addr", "address", "base", "opnd", "mem")


def acceptable(types):
    sets = [TYPE_BITS[t] for t in types if t in TYPE_BITS]
    if not sets or len(sets) != len(types):
        return None
    inter = set.intersection(*sets)
    return inter or set.union(*sets)


def scan(D, arch, W, mem_insn):
    """→ (sites, stats): every assembler call inside a type-dispatch arm that takes a typed input register"""
    f = CG[arch]
    t = D.get(f)
    sites = []
    stats = {"emitters": 0, "dispatches": 0}
    if t is None:
        return sites, stats
    for fn in doraq.functions(t, f):
        if fn.body is None or not fn.name.startswith("emit_"):
            continue
        found = [False]

        def walk(n, env, ctx):
            if not doraq.is_node(n):
                return
            k = n[0]
            if k == "BLOCK_EXPR":
                env = dict(env)
                for c in doraq.nodes(n):
                    walk(c, env, ctx)
                return
            if k == "LET":
                ns = doraq.nodes(n)
                if len(ns) >= 2:
                    for c in ns[1:]:
                        walk(c, env, ctx)
                    name, init = doraq.text(ns[0]), doraq.text(ns[-1])
                    m = _INPUT.search(init)
                    if m:
                        env[name] = ("input", int(m.group(1)), "fp" if m.group(2) else "gp")
                    elif _OUTPUT.search(init):
                        env[name] = ("output",)
                    elif init in env:
                        env[name] = env[init]
                    else:
                        m2 = re.search(r"\.(get_value_type|get_operation_type|get_source_type)\(\)$", init)
                        if m2:
                            env[name] = ("type", TYPE_SOURCES[m2.group(1)], init.rsplit(".", 1)[0])
                        else:
                            env.pop(name, None)
                return
            if k == "MATCH_EXPR":
                ns = doraq.nodes(n)
                scr = doraq.text(ns[0]) if ns else ""
                kind = None
                m2 = re.search(r"\.(get_value_type|get_operation_type|get_source_type)\(\)$", scr)
                if m2:
                    kind = TYPE_SOURCES[m2.group(1)]
                elif scr in env and env[scr][0] == "type":
                    kind = env[scr][1]
                if kind:
                    if not found[0]:
                        found[0] = True
                    stats["dispatches"] += 1
                    for (ptxt, pat, body) in doraq.direct_match_arms(n):
                        tys = re.findall(r"Type::(\w+)", ptxt)
                        walk(body, env, ctx + [(kind, tuple(tys), body)] if tys else ctx)
                    return
            if k == "IF_EXPR":
                ns = doraq.nodes(n)
                if len(ns) >= 2:
                    ctxt = doraq.text(ns[0])
                    parts = [x.strip("() ") for x in ctxt.split("||")]
                    kinds, tys = set(), []
                    for part in parts:
                        m3 = re.match(r"^(.+?)==Type::(\w+)$", part.replace(" ", ""))
                        if not m3:
                            kinds = None
                            break
                        subj = m3.group(1)
                        m4 = re.search(r"\.(get_value_type|get_operation_type|get_source_type)\(\)$", subj)
                        if m4:
                            kinds.add((TYPE_SOURCES[m4.group(1)], subj))
                        elif subj in env and env[subj][0] == "type":
                            kinds.add((env[subj][1], subj))
                        else:
                            kinds = None
                            break
                        tys.append(m3.group(2))
                    if kinds and len(kinds) == 1:
                        kind, subj = list(kinds)[0]
                        found[0] = True
                        stats["dispatches"] += 1
                        walk(ns[0], env, ctx)
                        walk(ns[1], env, ctx + [(kind, tuple(tys), ns[1])])
                        if len(ns) > 2:
                            els = ns[2]
                            ectx = ctx
                            if els[0] == "BLOCK_EXPR":
                                first = doraq.nodes(els)[:1]
                                if first:
                                    m5 = re.match(r"^assert\((.+?)==Type::(\w+)\);?$", doraq.text(first[0]).replace(" ", ""))
                                    if m5 and m5.group(1) == subj.replace(" ", ""):
                                        ectx = ctx + [(kind, (m5.group(2),), els)]
                            walk(els, env, ectx)
                        return
            if k in ("METHOD_CALL_EXPR", "CALL_EXPR"):
                c = doraq.Call(n)
                if c.callee.startswith("self.asm.") and ctx:
                    ps = W.params(c.name)
                    for i, a in enumerate(c.args):
                        tx = doraq.text(a)
                        v = env.get(tx)
                        if v is None:
                            m = _INPUT.search(tx)
                            if m and tx.count("(") == 3:
                                v = ("input", int(m.group(1)), "fp" if m.group(2) else "gp")
                        if v is None or v[0] != "input":
                            continue
                        pname = ps[i][0] if ps and i < len(ps) else None
                        if mem_insn(c.name) and pname in _ADDR_PARAMS:
                            continue
                        sites.append({"fn": fn, "call": c, "arg": i, "param": pname, "input": v[1], "cls": v[2],
                                      "ctx": list(ctx), "text": doraq.text(n)})
            for c in doraq.nodes(n):
                walk(c, env, ctx)

        walk(fn.body, {}, [])
        if found[0]:
            stats["emitters"] += 1
    return sites, stats


def governing(ctx):
    """the dispatch that types the inputs: a source-type dispatch if there is one, else the innermost"""
    for c in reversed(ctx):
        if c[0] == "source":
            return c
    for c in reversed(ctx):
        if c[0] == "operation":
            return c
    return ctx[-1]


def _addr_regs(body, arch, W, mem_insn):
    """texts of the registers a block uses as (part of) a memory address"""
    out = set()
    for c in doraq.calls(body):
        if not c.callee.startswith("self.asm."):
            continue
        ps = W.params(c.name)
        for i, a in enumerate(c.args):
            tx = doraq.text(a)
            pname = ps[i][0] if ps and i < len(ps) else None
            if arch == "arm64" and mem_insn(c.name) and pname in _ADDR_PARAMS:
                out.add(tx)
            if "Address::" in tx or "MemOperand::" in tx:
                out.update(re.findall(r"[A-Za-z_][A-Za-z0-9_]*", tx))
    return out


def a64_mem(n):
    return bool(re.match(r"^(ld|st|swp|cas)", mnemonic(n)))


def run(chk, F):
    r = chk.rule("C02.R16", "boots code generators (x64.dora, arm64.dora): inside an arm of a dispatch on the "
                            "instruction's value/operation/source type, an assembler instruction that reads a typed "
                            "input register uses the operand-width form of that type (Int64/Ptr: 64-bit, Int32/Char: "
                            "32-bit, UInt8/Bool: any, zero-extended; Float32/Float64: single/double); a conversion to "
                            "a narrower type may read at the destination's width; address computations are exempt")
    D = F.dora()
    for arch in ("arm64", "x64"):
        f = CG[arch]
        W = AsmWidths(D, arch)
        if not (r.anchor(f, D.get(f)) and r.anchor(ASM[arch][0], W.ok)):
            continue
        mem = a64_mem if arch == "arm64" else (lambda n: False)
        sites, stats = scan(D, arch, W, mem)
        r.floor("%s emitters with a type dispatch" % arch, stats["emitters"], 45)
        r.floor("%s type dispatches" % arch, stats["dispatches"], 70)
        r.floor("%s assembler methods with a width" % arch, sum(
            1 for n in W.fns if any(v is not None for v in W.width(n).values())), 150)
        addr_cache = {}
        n = 0
        # sibling arms: (dispatch position, instruction name) → widths of the arms it occurs in
        sib = {}
        for s_ in sites:
            g = governing(s_["ctx"])
            bits = {VALUE_BITS.get(t) for t in g[1]}
            sib.setdefault((s_["fn"].name, s_["call"].name, s_["input"]), set()).update(b for b in bits if b)
        for s_ in sites:
            fn, c = s_["fn"], s_["call"]
            g = governing(s_["ctx"])
            acc = acceptable(g[1])
            key = "%s::%s:%s:%s" % (f, fn.qual, "|".join(g[1]), c.name)
            where = "%s:%d" % (f, c.line)
            if acc is None:
                r.instance(key, nontrivial=False)
                continue        # Unit / Reference-like arms: no scalar operand width
            body = g[2]
            if id(body) not in addr_cache:
                addr_cache[id(body)] = _addr_regs(body, arch, W, mem)
            first = doraq.text(c.args[0]) if c.args else None
            if s_["arg"] != 0 and first in addr_cache[id(body)] and first is not None:
                r.instance(key + ":address-computation", nontrivial=False)
                continue        # computes an address from an object input (the result is used as a base register)
            w = W.width(c.name)[s_["cls"]]
            n += 1
            r.instance(key, sample={"fn": fn.name, "types": g[1], "dispatch": g[0], "insn": c.name, "input": s_["input"],
                                    "bits": w})
            if w is None:
                r.violation(key + ":width-unknown", "cannot determine the %s operand width of `%s`" % (s_["cls"], c.name),
                            where)
                continue
            allowed = set(acc)
            if g[0] == "source":
                dest = [x for x in s_["ctx"] if x[0] == "value"]
                if dest:
                    db = [VALUE_BITS.get(t) for t in dest[-1][1]]
                    sb = [VALUE_BITS.get(t) for t in g[1]]
                    if all(db) and all(sb) and max(db) < min(sb):
                        allowed |= acceptable(dest[-1][1]) or set()      # truncation reads the low part by definition
            if w in allowed:
                continue
            same = sib.get((fn.name, c.name, s_["input"]), set())
            vb = min(VALUE_BITS.get(t, 0) for t in g[1])
            others = sorted(b for b in same if b != vb)
            twin = " — the identical instruction is also used in the arm for the %d-bit type" % others[0] if others else ""
            if w > vb:
                what = ("the upper %d bits of the register are not part of the %s value (32-bit values are kept "
                        "zero-extended, so a negative Int32 is read as a large positive number)" % (w - vb, "/".join(g[1])))
            else:
                what = "only the low %d bits of the %d-bit value take part" % (w, vb)
            r.violation("%s:input-read-as-%d-bits" % (key, w),
                        "%s: in the %s arm (%s type) `%s` reads input %d as a %d-bit operand: %s%s" % (
                            fn.name, "|".join(g[1]), g[0], c.name, s_["input"], w, what, twin), where)
        r.floor("%s typed-input reads checked" % arch, n, 180)

"""C07 — every x86-64 instruction is encoded as the instruction that was requested.

Static analysis over a common emit-IR (rules/c07_ir.py) of dora-asm/src/x64.rs (HIR facts) and
pkgs/boots/assembler/x64.dora (Dora tree).  Every public instruction method is evaluated on *symbolic* operands,
all helpers inlined from their bodies down to the buffer primitives, every syntactic path enumerated.

  R1  operand-flow consistency: the register whose low bits reach ModRM.reg / ModRM.rm / opcode+r is the one whose
      high bit reaches REX.R / REX.B (VEX.R/B); an Address supplies both the ModRM/SIB bytes and the X/B bits
  R2  jump arithmetic: backward displacement constant = bytes emitted; forward placeholders have the width of
      their JumpDistance; resolve_jumps pairs kind ↔ +k ↔ width; RIP-relative disp32 ends the instruction
  R3  sibling agreement Rust ↔ Dora per method: same bytes, same operand flow, same W, same force-REX conditions
  R4  Address constructors: SIB-required / displacement-required special cases present and agreeing; rex bits
      of an Address come from the registers whose low bits it stores
"""
import facts as factsmod

from rules import c07_ir as ir
from rules.c07_ir import Known, Unsupported, b_not, desc, single_atom, to_bits

RS_PREFIX = "dora_asm::x64::"
DORA_X64 = "pkgs/boots/assembler/x64.dora"
DORA_ASM = "pkgs/boots/assembler.dora"

# ISA facts (Intel SDM vol. 2, 2.1.1 / 2.2.1 / 2.3.5) — frozen because they are the architecture, not the repository:
LEGACY_PREFIXES = {0x66, 0xF2, 0xF3, 0xF0}   # operand-size / REPNE / REP / LOCK precede REX; REX must be last before the opcode
REX_BASE, REX_MASK = 0x40, 0xF0              # REX = 0100WRXB
VEX3, VEX2 = 0xC4, 0xC5                      # C4 [~R ~X ~B mmmmm] [W ~vvvv L pp] / C5 [~R ~vvvv L pp]
RM_SIB = 4                                   # ModRM.rm = 100 (mod != 11): a SIB byte follows
RM_DISP32 = 5                                # mod = 00, rm (or SIB.base) = 101: no base register, disp32 follows
SIB_NO_INDEX = 4                             # SIB.index = 100 with REX.X = 0: no index register


# ---------------------------------------------------------------------------------------------------------
# loading
# ---------------------------------------------------------------------------------------------------------
class Side:
    def __init__(self, tag, prog):
        self.tag = tag
        self.P = prog
        self.ev = ir.Evaluator(prog)
        self._paths = {}
        self.kval = {}
        for nm in prog.globals:
            try:
                v = self.ev.global_(nm)
            except Exception:
                continue
            if v[0] == "kreg" and v[2] is not None:
                self.kval[nm] = (v[2], v[3])

    def paths(self, fn):
        k = fn.key
        if k not in self._paths:
            try:
                self._paths[k] = (self.ev.paths(fn), None)
            except Unsupported as e:
                self._paths[k] = (None, str(e))
            except RecursionError:
                self._paths[k] = (None, "recursion")
            except Exception as e:      # an IR shape the evaluator does not know: unanalysed, never a crash
                self._paths[k] = (None, "%s: %s" % (type(e).__name__, e))
        return self._paths[k]

    def live_paths(self, fn):
        """paths that neither panic nor contradict themselves (e.g. `reg.needs_rex()` and `reg == RAX`)"""
        paths, err = self.paths(fn)
        if paths is None:
            return None, err
        return [p for p in paths if not p.panics and not Known(p.facts).infeasible(self.kval)], None

    def instruction_methods(self):
        out = []
        for f in self.P.methods("AssemblerX64"):
            if f.pub and f.has_self and not mentions_self_field(f.body, "buffer"):
                out.append(f)
        out.sort(key=lambda f: f.name)
        return out


def mentions_self_field(e, field):
    if isinstance(e, tuple):
        if len(e) == 3 and e[0] == "field" and e[1] == ("var", "self") and e[2] == field:
            return True
        return any(mentions_self_field(x, field) for x in e)
    if isinstance(e, list):
        return any(mentions_self_field(x, field) for x in e)
    return False


def load_sides(F):
    c = F.crate("dora_asm")
    cache = {}

    def read_line(f, l):
        if f not in cache:
            try:
                cache[f] = factsmod.read_repo(f).splitlines()
            except OSError:
                cache[f] = []
        return cache[f][l - 1] if 0 < l <= len(cache[f]) else ""
    rsP = ir.rust_program(c, RS_PREFIX, read_line)
    D = F.dora()
    trees = []
    if DORA_X64 in D:
        trees.append((DORA_X64, D[DORA_X64], True))
    if DORA_ASM in D:
        trees.append((DORA_ASM, D[DORA_ASM], False))
    drP = ir.dora_program(trees)
    return Side("rs", rsP), Side("dora", drP)


# ---------------------------------------------------------------------------------------------------------
# rendering
# ---------------------------------------------------------------------------------------------------------
def r_bool(e):
    if isinstance(e, bool):
        return "1" if e else "0"
    k = e[0]
    if k == "hi":
        return "hi(%s)" % e[1]
    if k == "not":
        return "!" + r_bool(e[1])
    if k in ("or", "and"):
        return "(" + (" || " if k == "or" else " && ").join(r_bool(x) for x in e[1]) + ")"
    if k == "cmp":
        return "%s %s %s" % (r_atom(e[2]), {"lt": "<", "le": "<=", "gt": ">", "ge": ">=", "eq": "==", "ne": "!="}[e[1]], e[3])
    if k == "eqk":
        return "%s == %s" % (e[1], e[2])
    if k == "arexnz":
        return "%s.rex != 0" % e[1]
    if k == "arexbit":
        return "%s.rex.%s" % (e[1], "BX"[e[2]] if e[2] < 2 else e[2])
    if k == "eqpath":
        return "== " + e[2]
    if k == "pred":
        nm = pred_name(e)
        return nm[0] if nm else "cond"
    return k


def r_atom(a):
    k = a[0]
    if k in ("lo", "val", "nval"):
        return "%s(%s)" % ({"lo": "low3", "val": "num", "nval": "~num"}[k], a[1])
    if k == "b":
        return r_bool(a[1])
    if k == "arex":
        return "%s.rex" % a[1]
    if k == "ab":
        return "%s.bytes[%s]" % (a[1], "1.." if a[2] != 0 else "0")
    return "?"


def r_bits(v):
    b = to_bits(v)
    parts = ["%02x" % (b[1] & 0xFFFFFFFF)] if (b[1] or not b[2]) else []
    for (s, a) in b[2]:
        parts.append(r_atom(a) + ("<<%d" % s if s else ""))
    return "|".join(parts)


def r_path(p):
    out = []
    for e in p.events:
        if e[0] == "emit":
            out.append(("[%s]" % r_bits(e[2])) if e[1] == 1 else "[imm%d]" % (8 * e[1]))
        elif e[0] == "jumprec":
            out.append("{jump:%s}" % (e[1],))
    return " ".join(out)


def r_facts(p):
    fs = []
    for (e, pol) in p.facts:
        s = r_bool(e)
        fs.append(s if pol else "!(%s)" % s)
    return ", ".join(fs) if fs else "always"


def pred_name(e):
    """('pred', desc) → (name, param names) for simple predicates on operands / self fields"""
    name = [None]
    params = []

    def walk(d):
        if isinstance(d, tuple):
            if len(d) >= 2 and d[0] == "mcall" and isinstance(d[1], str) and name[0] is None:
                name[0] = d[1]
            if len(d) == 2 and d[0] == "sfield" and name[0] is None:
                name[0] = "self." + d[1]
            if len(d) == 2 and d[0] == "param":
                params.append(d[1])
            if len(d) == 3 and d[0] == "reg":
                params.append(d[1])
                return
            for x in d:
                walk(x)
    walk(e[1])
    if name[0] is None:
        return None
    return (name[0], tuple(params))


# ---------------------------------------------------------------------------------------------------------
# decoding one path into prefix bits and operand fields
# ---------------------------------------------------------------------------------------------------------
class Unanalysable(Exception):
    pass


def const_byte(v):
    b = to_bits(v)
    if b[2]:
        return None
    return b[1] & 0xFF if 0 <= b[1] < 256 else None


def bit_of(b, k):
    """value of bit k of a prefix byte: python bool or boolexpr"""
    srcs = []
    if (b[1] >> k) & 1:
        srcs.append(True)
    for (s, a) in b[2]:
        if a[0] == "b":
            if s == k:
                srcs.append(a[1])
        elif a[0] == "arex" and s == 0:
            if k in (0, 1):
                srcs.append(("arexbit", a[1], k))
        elif a[0] == "nval":
            if s <= k < s + 4:
                raise Unanalysable("bit %d inside a register number" % k)
        else:
            raise Unanalysable("prefix byte with an operand term %s" % (a[0],))
    if not srcs:
        return False
    if len(srcs) == 1:
        return srcs[0]
    return ir.b_join("or", srcs)


def neg(bv):
    return (not bv) if isinstance(bv, bool) else b_not(bv)


def is_rex(b):
    if b[1] & ~0xFF or (b[1] & REX_MASK) != REX_BASE:
        return False
    for (s, a) in b[2]:
        if a[0] == "b" and s <= 3:
            continue
        if a[0] == "arex" and s == 0:
            continue
        return False
    return True


class Dec:
    def __init__(self):
        self.legacy = []
        self.prefix = None
        self.W = self.R = self.X = self.B = False
        self.vvvv = None
        self.mmmmm = None
        self.regf = None            # P whose low bits are at shift 3 of an opcode/ModRM byte
        self.rmf = None             # ('reg', P) | ('addr', A)
        self.problems = []          # (field, message)


def decode(path):
    d = Dec()
    emits = [e for e in path.events if e[0] == "emit"]
    i = 0
    while i < len(emits) and emits[i][1] == 1 and const_byte(emits[i][2]) in LEGACY_PREFIXES:
        d.legacy.append(const_byte(emits[i][2]))
        i += 1
    if i < len(emits) and emits[i][1] == 1 and not emits[i][3]:
        b = to_bits(emits[i][2])
        cb = const_byte(emits[i][2])
        if is_rex(b):
            d.prefix = "rex"
            d.W, d.R, d.X, d.B = bit_of(b, 3), bit_of(b, 2), bit_of(b, 1), bit_of(b, 0)
            i += 1
        elif cb == VEX3:
            if i + 2 >= len(emits):
                raise Unanalysable("truncated VEX3")
            b1, b2 = to_bits(emits[i + 1][2]), to_bits(emits[i + 2][2])
            d.prefix = "vex3"
            d.R, d.X, d.B = neg(bit_of(b1, 7)), neg(bit_of(b1, 6)), neg(bit_of(b1, 5))
            d.mmmmm = b1[1] & 0x1F
            d.W = bit_of(b2, 7)
            d.vvvv = vvvv_of(b2)
            i += 3
        elif cb == VEX2:
            if i + 1 >= len(emits):
                raise Unanalysable("truncated VEX2")
            b1 = to_bits(emits[i + 1][2])
            d.prefix = "vex2"
            d.R = neg(bit_of(b1, 7))
            d.vvvv = vvvv_of(b1)
            i += 2
    rest = emits[i:]
    if d.prefix == "rex" and rest and rest[0][1] == 1 and const_byte(rest[0][2]) in LEGACY_PREFIXES:
        d.problems.append(("REX", "a legacy prefix byte %02x follows the REX prefix; REX must immediately precede the "
                                  "opcode, otherwise it is ignored" % const_byte(rest[0][2])))
    j = 0
    while j < len(rest):
        e = rest[j]
        b = to_bits(e[2])
        for (s, a) in b[2]:
            k = a[0]
            if k == "lo":
                if e[1] != 1 or e[3]:
                    raise Unanalysable("register bits in a multi-byte/loop emit")
                if s == 3:
                    if d.regf is not None:
                        raise Unanalysable("two ModRM.reg fields")
                    d.regf = a[1]
                elif s == 0:
                    if d.rmf is not None:
                        raise Unanalysable("two ModRM.rm/opcode-register fields")
                    d.rmf = ("reg", a[1])
                else:
                    raise Unanalysable("register low bits at bit %d" % s)
            elif k == "ab":
                if a[2] == 0 and s == 0 and not e[3]:
                    if d.rmf is not None:
                        raise Unanalysable("two ModRM.rm fields")
                    d.rmf = ("addr", a[1])
                    nxt = rest[j + 1] if j + 1 < len(rest) else None
                    ok = False
                    if nxt is not None and nxt[3]:
                        na = single_atom(to_bits(nxt[2]))
                        ok = na is not None and na[0] == "ab" and na[1] == a[1] and na[2] in (1, ("from", 1))
                    if not ok:
                        d.problems.append(("SIB/disp", "the ModRM byte of address `%s` is not followed by its remaining "
                                                       "encoded bytes (from index 1)" % a[1]))
                    else:
                        j += 1
                else:
                    raise Unanalysable("address byte outside emit_address shape")
            elif k in ("val", "nval", "arex", "arexm", "inv"):
                raise Unanalysable("operand term %s outside a prefix" % k)
            elif k == "b":
                if mentions_operand(a[1]):
                    raise Unanalysable("operand condition bit outside a prefix")
        j += 1
    return d


def vvvv_of(b):
    for (s, a) in b[2]:
        if a[0] == "nval":
            if s != 3:
                raise Unanalysable("inverted register number at bit %d" % s)
            return ("reg", a[1])
        if a[0] != "b":
            raise Unanalysable("VEX payload term %s" % a[0])
    return ("const", (~(b[1] >> 3)) & 15)


def mentions_operand(e):
    if isinstance(e, tuple):
        if e and e[0] in ("hi", "arexbit", "arexnz", "cmp", "eqk"):
            return True
        return any(mentions_operand(x) for x in e)
    return False


class Capped:
    """reports the first `cap` violations of a rule in full and folds the rest into one (a broken shared helper
    makes every method that inlines it fail; the output of bin/check stays short)"""

    def __init__(self, r, cap=12):
        self.r = r
        self.cap = cap
        self.seen = set()
        self.more = []

    def violation(self, key, msg, where=None):
        if key in self.seen:
            return
        self.seen.add(key)
        if len(self.seen) <= self.cap:
            self.r.violation(key, msg, where)
        else:
            self.more.append(key)

    def flush(self):
        if self.more:
            self.r.violation("further-violations", "%d further violations of the same rule (a shared helper is probably "
                                                   "broken): %s" % (len(self.more), " ".join(self.more)[:1500]))


# ---------------------------------------------------------------------------------------------------------
# R1
# ---------------------------------------------------------------------------------------------------------
def check_path(side, fn, path, d):
    """→ [(field, message)]"""
    K = Known(path.facts)
    out = list(d.problems)
    where = "on the path [%s]" % r_facts(path)
    pname = {"rex": "REX", "vex2": "VEX", "vex3": "VEX", None: "REX"}[d.prefix]

    def resolve(bv):
        if isinstance(bv, tuple) and bv[0] == "hi" and bv[1] in K.pinned:
            kv = side.kval.get(K.pinned[bv[1]])
            return (kv[0] > 7) if kv else "fixed"
        return bv

    def equiv(bv, P, bit, field):
        if P in K.pinned:
            return
        bv = resolve(bv)
        if bv == ("hi", P) or bv == "fixed":
            return
        if isinstance(bv, bool):
            if K.hi.get(P) is bv:
                return
            if not bv:
                out.append((bit, "%s %s takes the low three bits of `%s`, but %s.%s is 0 (%s): for %s = r8–r15/xmm8–xmm15 "
                                 "the instruction encodes register number %s-8" % (
                                     where, field, P, pname, bit,
                                     "no prefix is emitted" if d.prefix is None else "the prefix carries a constant 0",
                                     P, P)))
            else:
                out.append((bit, "%s %s.%s is the constant 1 but %s holds `%s`, which is not known to be r8–r15 there"
                            % (where, pname, bit, field, P)))
            return
        if isinstance(bv, tuple) and bv[0] == "hi":
            out.append((bit, "%s %s holds the low three bits of `%s` but %s.%s is taken from `%s`: with %s in r8–r15 and "
                             "%s below 8 (or vice versa) a different register is encoded" % (
                                 where, field, P, pname, bit, bv[1], P, bv[1])))
            return
        out.append((bit, "%s %s holds `%s` but %s.%s is %s" % (where, field, P, pname, bit, r_bool(bv))))

    def must_be_zero(bv, bit, why):
        bv = resolve(bv)
        if bv is False or bv == "fixed":
            return
        if isinstance(bv, tuple) and bv[0] == "hi" and K.hi.get(bv[1]) is False:
            return
        if isinstance(bv, tuple) and bv[0] == "arexbit" and (bv[1] in K.arexzero):
            return
        src = r_bool(bv) if not isinstance(bv, bool) else "the constant 1"
        out.append((bit, "%s %s.%s is fed from %s but %s" % (where, pname, bit, src, why)))

    # ModRM.reg ↔ R
    if d.regf is not None:
        equiv(d.R, d.regf, "R", "ModRM.reg")
    else:
        must_be_zero(d.R, "R", "no register reaches ModRM.reg (opcode extension or no ModRM byte)")
    # ModRM.rm / opcode register / Address ↔ B, X
    if d.rmf is None:
        must_be_zero(d.B, "B", "no register reaches ModRM.rm / the opcode register field")
        must_be_zero(d.X, "X", "there is no SIB byte")
    elif d.rmf[0] == "reg":
        equiv(d.B, d.rmf[1], "B", "ModRM.rm/opcode register")
        must_be_zero(d.X, "X", "ModRM.rm is a register (no SIB index)")
    else:
        A = d.rmf[1]
        for (bv, bit, k) in ((d.B, "B", 0), (d.X, "X", 1)):
            if bv == ("arexbit", A, k):
                continue
            known0 = A in K.arexzero or K_arexbit(K, A, k) is False
            if bv is False and known0:
                continue
            if bv is False:
                out.append((bit, "%s the ModRM/SIB bytes come from address `%s` but its %s bit is dropped (%s): a base/index "
                                 "register r8–r15 inside the address is encoded as register-8" % (
                                     where, A, bit, "no prefix" if d.prefix is None else "constant 0 in the prefix")))
            else:
                out.append((bit, "%s the ModRM/SIB bytes come from address `%s` but %s.%s is %s" % (
                    where, A, pname, bit, r_bool(bv) if not isinstance(bv, bool) else "constant 1")))
    # every register/address operand must reach a field (otherwise the requested operand is silently ignored)
    if path.nbytes():
        used = {d.regf}
        if d.rmf is not None:
            used.add(d.rmf[1])
        if d.vvvv is not None and d.vvvv[0] == "reg":
            used.add(d.vvvv[1])
        regs, addrs = method_sig(fn, side.P)
        for nm in regs + addrs:
            if nm not in used and nm not in K.pinned:
                out.append(("operand(%s)" % nm, "%s operand `%s` reaches no ModRM/SIB/opcode-register/VEX.vvvv field: the "
                                                "instruction is encoded without it (%s)" % (where, nm, r_path(path))))
    return out


def K_arexbit(K, A, k):
    for (e, pol) in K.preds:
        if e == ("arexbit", A, k):
            return pol
    return None


def method_sig(fn, prog):
    regs = [nm for (nm, ty) in fn.params if ty in prog.regtypes]
    addrs = [nm for (nm, ty) in fn.params if ty == "Address"]
    return regs, addrs


def run_r1(chk, sides):
    r = chk.rule("C07.R1", "per instruction method and path: the register feeding ModRM.reg/ModRM.rm/opcode+r is the one "
                           "feeding REX.R/REX.B (VEX.R/B); an Address supplies ModRM/SIB bytes and X/B bits together")
    analysed = {}
    cap = Capped(r)
    for side in sides:
        P = side.P
        ok = r.anchor("%s:AssemblerX64::emit_rex" % side.tag, P.fns.get("AssemblerX64::emit_rex"))
        ok = r.anchor("%s:register types (low_bits + needs_rex*)" % side.tag, len(P.regtypes) >= 2) and ok
        if not ok:
            continue
        ims = side.instruction_methods()
        n_all = len(ims)
        n_op = n_ok = n_paths = 0
        unan = []
        for fn in ims:
            regs, addrs = method_sig(fn, P)
            has_op = bool(regs or addrs)
            n_op += has_op
            paths, err = side.live_paths(fn)
            if paths is None:
                unan.append("%s (%s)" % (fn.name, err))
                continue
            decs = []
            try:
                for p in paths:
                    decs.append((p, decode(p)))
            except Unanalysable as e:
                unan.append("%s (%s)" % (fn.name, e))
                continue
            except Exception as e:
                unan.append("%s (%s: %s)" % (fn.name, type(e).__name__, e))
                continue
            n_ok += 1
            analysed[(side.tag, fn.name)] = decs
            flows = set()
            for (p, d) in decs:
                n_paths += 1
                for (field, msg) in check_path(side, fn, p, d):
                    cap.violation("%s:%s" % (fn.path, field), msg, fn.where)
                flows.add((d.prefix, d.regf, d.rmf))
            r.instance("%s:%s" % (side.tag, fn.name), nontrivial=has_op,
                       sample={"method": fn.path, "paths": len(decs),
                               "flows": sorted(str(f) for f in flows)[:3]})
        tagname = {"rs": "Rust", "dora": "Dora"}[side.tag]
        r.floor("%s instruction methods" % tagname, n_all, {"rs": 205, "dora": 208}[side.tag])
        r.floor("%s methods with a register/address operand" % tagname, n_op, 190)
        r.floor("%s methods analysed on every path" % tagname, n_ok, {"rs": 203, "dora": 206}[side.tag])
        for u in unan:
            r.observe("unanalysed: %s %s" % (side.tag, u))
        r.observe("%s: %d instruction methods, %d with a register/address operand, %d analysed (%d paths), %d unanalysed"
                  % (tagname, n_all, n_op, n_ok, n_paths, len(unan)))
    cap.flush()
    return analysed


# ---------------------------------------------------------------------------------------------------------
# R2
# ---------------------------------------------------------------------------------------------------------
def contains_const(d, vals):
    if isinstance(d, tuple):
        if len(d) == 2 and d[0] == "c" and not isinstance(d[1], bool) and d[1] in vals:
            return True
        return any(contains_const(x, vals) for x in d)
    return False


def resolve_table(r, side):
    """kind → width, from resolve_jumps"""
    fn = side.P.fns.get("AssemblerX64::resolve_jumps")
    if not r.anchor("%s:AssemblerX64::resolve_jumps" % side.tag, fn):
        return None
    paths, err = side.paths(fn)
    if not r.anchor("%s:resolve_jumps analysable" % side.tag, paths is not None):
        return None
    variants = side.P.enums.get("JumpDistance") or []
    table = {}
    for p in paths:
        if p.panics:
            continue
        kind = None
        for (e, pol) in p.facts:
            if e[0] == "eqpath" and "JumpDistance::" in e[2]:
                v = e[2].rsplit("::", 1)[-1]
                if pol:
                    kind = v
                elif len(variants) == 2 and v in variants:
                    kind = [x for x in variants if x != v][0]
        writes = []
        lastpos = None
        for e in p.events:
            if e[0] == "setpos":
                lastpos = e[1]
            elif e[0] == "emit" and e[3]:
                writes.append((e[1], e[2], lastpos))
            elif e[0] == "patch":
                writes.append((e[1], e[3], e[2]))
        if kind is None or not writes:
            continue
        key = "%s::resolve_jumps:%s" % (fn.path.rsplit("::", 1)[0], kind)
        r.instance("%s:resolve:%s" % (side.tag, kind), sample={"kind": kind, "writes": [(w[0], desc(w[1])[:3]) for w in writes]})
        if len(writes) != 1:
            r.violation(key + ":writes", "resolve_jumps writes %d values for a %s jump (expected exactly one)" % (len(writes), kind), fn.where)
            continue
        (w, val, pos) = writes[0]
        if val[0] != "lin":
            r.violation(key + ":base", "the value patched for a %s jump is not `target - (offset + k)`" % kind, fn.where)
            continue
        if val[2] != w:
            r.violation(key + ":base", "%s jump: the displacement is computed relative to offset+%d but %d byte(s) are "
                                       "written there — the CPU adds the displacement to the address after those %d byte(s), "
                                       "so every resolved %s jump lands %+d byte(s) off" % (kind, val[2], w, w, kind, w - val[2]), fn.where)
        if not (pos is not None and pos[0] == "opq" and pos[1] == val[1]):
            r.violation(key + ":position", "%s jump: the displacement is computed from a different offset than the one "
                                           "that is patched" % kind, fn.where)
        if w == 1:
            has_range = any(e[0] == "assert" and contains_const(e[1], {-128}) and contains_const(e[1], {127, 128})
                            for e in p.events)
            if not has_range:
                r.violation(key + ":range", "%s (1-byte) displacement is written without a -128..127 range assertion: a "
                                            "longer forward jump would be silently truncated" % kind, fn.where)
        table[kind] = w
    return table


def implied_atoms(cond, truth):
    """atoms whose truth value follows from `cond == truth`: conjuncts of a true `and`, disjuncts of a false `or`"""
    if isinstance(cond, bool) or not isinstance(cond, tuple) or not cond:
        return []
    if cond[0] == "not":
        return implied_atoms(cond[1], not truth)
    if cond[0] == "and" and truth:
        return [x for c in cond[1] for x in implied_atoms(c, True)]
    if cond[0] == "or" and not truth:
        return [x for c in cond[1] for x in implied_atoms(c, False)]
    if cond[0] in ("and", "or"):
        return []
    return [(cond, truth)]


def lin_bound(cond, taken):
    """upper bound on d = position(at entry) - target implied by a path fact `lin op const`, or None.
    lin = sign * (position_n + k) - sign * target  =  sign * (d + n + k)"""
    if not (isinstance(cond, tuple) and cond and cond[0] == "pred" and isinstance(cond[1], tuple) and len(cond[1]) == 3):
        return None
    op, a, b = cond[1]
    if not (isinstance(a, tuple) and a and a[0] == "lin" and isinstance(a[1], tuple) and a[1][0] == "pos"
            and isinstance(b, tuple) and b and b[0] == "c"):
        return None
    if not taken:
        op = {"lt": "ge", "le": "gt", "gt": "le", "ge": "lt", "eq": "ne", "ne": "eq"}[op]
    n, k, sign, c = a[1][1], a[2], (a[4] if len(a) > 4 else 1), b[1]
    # sign*(d + n + k) op c
    if sign == 1:
        if op == "lt":
            return c - 1 - n - k
        if op == "le":
            return c - n - k
    else:
        # -(d+n+k) op c  <=>  d+n+k op' -c
        if op == "gt":
            return -c - 1 - n - k
        if op == "ge":
            return -c - n - k
    return None


def run_r2(chk, sides):
    r = chk.rule("C07.R2", "backward-jump constants equal the bytes the branch emits; forward placeholders have the width of "
                           "their JumpDistance; resolve_jumps pairs kind/+k/width; a RIP-relative disp32 ends the instruction")
    for side in sides:
        tagname = {"rs": "Rust", "dora": "Dora"}[side.tag]
        table = resolve_table(r, side)
        if table is None:
            continue
        if not r.anchor("%s:JumpDistance kinds resolved" % side.tag, len(table) >= 2):
            continue
        # emit_label_address: ModRM mod=00 rm=101 (RIP-relative), then the Far placeholder
        ela = side.P.fns.get("AssemblerX64::emit_label_address")
        if r.anchor("%s:AssemblerX64::emit_label_address" % side.tag, ela):
            paths, err = side.paths(ela)
            if r.anchor("%s:emit_label_address analysable" % side.tag, paths is not None):
                for p in paths:
                    em = [e for e in p.events if e[0] == "emit"]
                    r.instance("%s:emit_label_address:modrm" % side.tag)
                    b = to_bits(em[0][2]) if em else None
                    if b is None or (b[1] & 0xC7) != RM_DISP32 or any(s != 3 for (s, _a) in b[2]):
                        r.violation("%s:modrm" % ela.path, "emit_label_address must emit ModRM with mod=00, rm=101 "
                                                           "(RIP-relative disp32); found %s" % (r_bits(em[0][2]) if em else "nothing"), ela.where)
        backward = set()
        label_users = set()
        for fn in side.instruction_methods():
            paths, err = side.paths(fn)
            if paths is None:
                continue
            for p in paths:
                if p.panics:
                    continue
                total = p.nbytes()
                seen = 0
                evs = p.events
                for idx, e in enumerate(evs):
                    if e[0] == "emit":
                        v = e[2]
                        if v[0] == "lin" and v[1][0] == "pos":
                            backward.add(fn.name)
                            n, k = v[1][1], v[2]
                            key = "%s:backward(%d-byte displacement)" % (fn.path, e[1])
                            r.instance("%s:%s:backward:%d" % (side.tag, fn.name, e[1]),
                                       sample={"method": fn.path, "k": k, "emitted": total - n})
                            if k != total - n:
                                r.violation(key, "the branch adds %d to the current position but emits %d byte(s) from there to "
                                                 "the end of the instruction (%s): every backward jump on this path lands %+d "
                                                 "byte(s) off its label" % (k, total - n, r_path(p), (total - n) - k), fn.where)
                            sign = v[4] if len(v) > 4 else 1
                            if len(v) > 4 and sign != -1:
                                r.violation(key + ":sign", "the emitted displacement grows with the current position: a "
                                            "backward displacement is target - (position + length)", fn.where)
                            # the displacement must fit the field on this path: d = position(at entry) - target >= 0,
                            # emitted = -(d + n + k); the path's comparisons on position-derived values bound d
                            if e[1] == 1:
                                dmax = None
                                # assertions that are compiled into release builds hold on every path that goes on
                                held = [(a[1], True) for a in evs[:idx] if a[0] == "assert" and not (len(a) > 2 and a[2])]
                                for (cond, taken) in list(p.facts) + held:
                                    for (atom, truth) in implied_atoms(cond, taken):
                                        b = lin_bound(atom, truth)
                                        if b is not None:
                                            dmax = b if dmax is None else min(dmax, b)
                                need = 128 - n - k
                                r.instance("%s:%s:backward:%d:range" % (side.tag, fn.name, e[1]),
                                           sample={"method": fn.path, "d_max_on_path": dmax, "d_max_encodable": need})
                                if dmax is None:
                                    r.violation(key + ":range", "the 8-bit backward displacement is emitted without a "
                                                "range test on this path: a label more than %d bytes back is silently "
                                                "truncated" % need, fn.where)
                                elif dmax > need:
                                    r.violation(key + ":range", "the short form is taken for distances up to %d byte(s) "
                                                "from the label, but its displacement -(distance + %d) only fits 8 bits up "
                                                "to %d: a backward jump of exactly %d byte(s) is encoded as %+d and lands "
                                                "%d bytes past its label" % (dmax, n + k, need, dmax, 256 - (dmax + n + k),
                                                                             256), fn.where)
                        seen += e[1]
                    elif e[0] == "jumprec":
                        label_users.add(fn.name)
                        kind, pos = e[1], e[2]
                        key = "%s:forward(%s)" % (fn.path, kind)
                        r.instance("%s:%s:forward:%s" % (side.tag, fn.name, kind), sample={"method": fn.path, "kind": kind})
                        after = [x for x in evs[idx + 1:] if x[0] == "emit"]
                        w = table.get(kind)
                        if w is None:
                            r.violation(key, "jump recorded with a distance kind resolve_jumps does not handle", fn.where)
                            continue
                        if pos is None or pos[0] != "lin" or pos[1][0] != "pos" or pos[2] != 0 or pos[3] or pos[1][1] != seen:
                            r.violation(key, "the recorded jump offset is not the position of the placeholder that follows", fn.where)
                        if len(after) != 1 or after[0][1] != w or after[0][3]:
                            r.violation(key, "a %s jump is patched with %d byte(s) by resolve_jumps, but the method emits %s "
                                             "after recording it: %s" % (
                                                 kind, w,
                                                 "nothing" if not after else "+".join("%d" % a[1] for a in after) + " byte(s)",
                                                 "the displacement is RIP-relative to the end of the placeholder, so nothing "
                                                 "may follow it" if len(after) > 1 else "placeholder and patch widths differ"),
                                        fn.where)
        r.floor("%s jump emitters with a backward branch" % tagname, len(backward), 4)
        r.floor("%s label/jump-table users" % tagname, len(label_users), 14)
        r.observe("%s: resolve_jumps table %s; backward emitters %s; %d label users" % (
            tagname, sorted(table.items()), sorted(backward), len(label_users)))


# ---------------------------------------------------------------------------------------------------------
# R3
# ---------------------------------------------------------------------------------------------------------
NAME_AT_1 = {"lo", "val", "nval", "hi", "eqk", "arex", "arexm", "arexnz", "arexbit", "ab", "param", "addr"}


def rename(d, pos):
    if isinstance(d, tuple):
        if d and d[0] == "reg" and len(d) == 3 and d[1] in pos:
            return ("reg", pos[d[1]])
        if d and d[0] in NAME_AT_1 and len(d) > 1 and isinstance(d[1], str) and d[1] in pos:
            return (d[0], pos[d[1]]) + tuple(rename(x, pos) for x in d[2:])
        return tuple(rename(x, pos) for x in d)
    return d


def deps(d, pos, acc=None):
    acc = set() if acc is None else acc
    if isinstance(d, tuple):
        if len(d) >= 2 and d[0] in ("param", "reg", "addr") and isinstance(d[1], str) and d[1] in pos:
            acc.add(pos[d[1]])
        for x in d:
            deps(x, pos, acc)
    return acc


def norm_value(v, pos):
    if v[0] == "lin" and v[1][0] == "pos":
        return ("disp",)
    b = to_bits(v)
    terms = []
    for (s, a) in b[2]:
        if a[0] == "opq":
            terms.append((s, ("opq", tuple(sorted(deps(a[1], pos))))))
        elif a[0] == "ab":
            terms.append((s, ("ab", pos.get(a[1], a[1]), 0 if a[2] == 0 else "tail")))
        else:
            terms.append((s, rename(a, pos)))
    return (b[1] & 0xFFFFFFFFFFFFFFFF, tuple(sorted(terms, key=repr)))


def unordered(d):
    """or/and are commutative: compare their operands as sets"""
    if isinstance(d, tuple):
        if len(d) == 2 and d[0] in ("or", "and") and isinstance(d[1], tuple):
            return (d[0], frozenset(unordered(x) for x in d[1]))
        return tuple(unordered(x) for x in d)
    return d


def norm_fact(e, pol, pos, shared):
    k = e[0]
    if k == "pred":
        pn = pred_name(e)
        if pn is None or not (pn[0] in shared or pn[0].startswith("self.")):
            return None
        return (("pred", pn[0], tuple(sorted(pos.get(x, x) for x in pn[1]))), pol)
    if k == "eqpath" or k == "matcharm":
        return None
    if not mentions_operand(e) and k not in ("hi", "or", "and", "not"):
        return None
    return (unordered(rename(e, pos)), pol)


def norm_path(p, fn, shared):
    pos = {nm: "p%d" % i for i, (nm, _t) in enumerate(fn.params)}
    fs = set()
    for (e, pol) in p.facts:
        nf = norm_fact(e, pol, pos, shared)
        if nf is not None:
            fs.add(nf)
    evs = []
    for e in p.events:
        if e[0] == "emit":
            evs.append(("emit", e[1], norm_value(e[2], pos), e[3]))
        elif e[0] == "jumprec":
            evs.append(("jump", e[1]))
    return (frozenset(fs), tuple(evs))


def opcode_sig(np):
    return tuple((e[1], e[2][0] if e[0] == "emit" and e[2] != ("disp",) else None) for e in np[1] if e[0] == "emit")


def run_r3(chk, sides):
    r = chk.rule("C07.R3", "for every instruction method present in both assemblers: identical byte sequence, operand "
                           "flow, REX.W/VEX.W and force-REX conditions on every path (parameters mapped by position)")
    rs, dr = sides
    a = {f.name: f for f in rs.instruction_methods()}
    b = {f.name: f for f in dr.instruction_methods()}
    common = sorted(set(a) & set(b))
    # operand predicates are compared only when both languages define the predicate (Immediate::is_int8 ...);
    # `Label::is_bound()` vs `if let Some(..) = self.offset(..)` are language idioms for the same test
    shared = {f.name for f in rs.P.fns.values()} & {f.name for f in dr.P.fns.values()}
    only_rs = sorted(set(a) - set(b))
    only_dr = sorted(set(b) - set(a))
    compared = 0
    cap = Capped(r)
    for nm in common:
        fa, fb = a[nm], b[nm]
        pa, ea = rs.live_paths(fa)
        pb, eb = dr.live_paths(fb)
        if pa is None or pb is None:
            r.observe("unanalysed: %s (%s)" % (nm, ea or eb))
            continue
        ta = [(ty in rs.P.regtypes, ty == "Address") for (_n, ty) in fa.params]
        tb = [(ty in dr.P.regtypes, ty == "Address") for (_n, ty) in fb.params]
        key = "%s|%s" % (fa.path, fb.path.rsplit("::", 1)[-1])
        compared += 1
        r.instance(nm, nontrivial=any(x[0] or x[1] for x in ta), sample={"method": nm, "rust_paths": len(pa), "dora_paths": len(pb)})
        if ta != tb:
            cap.violation("%s:signature" % key, "operand kinds differ: Rust %s vs Dora %s" % (fa.params, fb.params), fb.where)
            continue
        na = {norm_path(p, fa, shared) for p in pa}
        nb = {norm_path(p, fb, shared) for p in pb}
        if na == nb:
            continue
        oa, ob = {opcode_sig(x) for x in na}, {opcode_sig(x) for x in nb}
        only_a = [p for p in pa if norm_path(p, fa, shared) not in nb]
        only_b = [p for p in pb if norm_path(p, fb, shared) not in na]
        field = "bytes" if oa != ob else "operand-flow/conditions"
        msg = "the two assemblers encode `%s` differently (%s). Rust-only path: %s  ||  Dora-only path: %s" % (
            nm, field,
            ("[%s] %s" % (r_facts(only_a[0]), r_path(only_a[0]))) if only_a else "-",
            ("[%s] %s" % (r_facts(only_b[0]), r_path(only_b[0]))) if only_b else "-")
        cap.violation("%s:%s" % (key, field), msg, fb.where)
    cap.flush()
    r.floor("methods present in both assemblers and compared", compared, 198)
    if only_rs:
        r.observe("Rust only (%d): %s" % (len(only_rs), " ".join(only_rs)))
    if only_dr:
        r.observe("Dora only (%d): %s" % (len(only_dr), " ".join(only_dr)))


# ---------------------------------------------------------------------------------------------------------
# R4
# ---------------------------------------------------------------------------------------------------------
def consts_with_low(side, low):
    return {nm for nm, (n, ty) in side.kval.items() if ty == "Register" and n & 7 == low}


def acalls(p):
    return [(e[1], e[2]) for e in p.events if e[0] == "acall"]


def run_r4(chk, sides):
    r = chk.rule("C07.R4", "Address: rex bits come from the registers whose low bits are stored; constructors add a SIB byte "
                           "exactly when rm=100 (rsp/r12), never use mod=00 with an rbp/r13 base, and agree Rust↔Dora")
    norm_ctor = {}
    asserts = {}
    for side in sides:
        P = side.P
        tagname = {"rs": "Rust", "dora": "Dora"}[side.tag]
        # (a) set_modrm / set_sib: which register sets which rex bit
        for (mname, layout) in (("set_modrm", {0: 0}), ("set_sib", {0: 0, 3: 1})):
            fn = P.fns.get("Address::" + mname)
            if not r.anchor("%s:Address::%s" % (side.tag, mname), fn):
                continue
            paths, err = side.paths(fn)
            if not r.anchor("%s:Address::%s analysable" % (side.tag, mname), paths is not None):
                continue
            for p in paths:
                if p.panics:
                    continue
                K = Known(p.facts)
                rexor = 0
                bad = False
                field_regs = {}
                for e in p.events:
                    if e[0] != "store":
                        continue
                    tgt = e[1]
                    if tgt == "rex":
                        b = to_bits(e[2])
                        if any(a[0] != "arex" for (_s, a) in b[2]):
                            bad = True
                        rexor |= b[1]
                    elif isinstance(tgt, tuple) and tgt[0] == "bytes":
                        b = to_bits(e[2])
                        for (s, a) in b[2]:
                            if a[0] == "lo":
                                field_regs[s] = a[1]
                r.instance("%s:%s:%s" % (side.tag, mname, p.decisions), sample={"fn": fn.path, "rex|=": rexor, "fields": field_regs})
                key = "%s:rex" % fn.path
                if bad or rexor & ~0x43:
                    r.violation(key, "Address.rex receives something other than the constants 0x40/0x41/0x42 (bits W/R must "
                                     "never come from an Address: the emitters OR it into their REX byte)", fn.where)
                for shift, bit in layout.items():
                    P_ = field_regs.get(shift)
                    if P_ is None:
                        r.violation(key, "%s stores no register at bit %d of the ModRM/SIB byte" % (mname, shift), fn.where)
                        continue
                    want = K.hi.get(P_)
                    got = bool(rexor >> bit & 1)
                    if want is None or want != got:
                        r.violation(key, "%s: register `%s` goes to bits %d..%d of the byte, but rex bit %s is %s on the path "
                                         "[%s] — a r8–r15 %s is encoded as register-8 (or a low register as +8)" % (
                                             mname, P_, shift, shift + 2, "BX"[bit], "set" if got else "not set", r_facts(p),
                                             "base" if bit == 0 else "index"), fn.where)
                extra = [s for s in field_regs if s not in layout]
                if extra:
                    r.violation(key, "%s stores a register at unexpected bit %s" % (mname, extra), fn.where)
        # (b) constructors
        sib_regs = consts_with_low(side, RM_SIB)
        disp_regs = consts_with_low(side, RM_DISP32)
        noindex = {nm for nm, (n, ty) in side.kval.items() if ty == "Register" and n == SIB_NO_INDEX}
        if not r.anchor("%s:register constants with low bits 100 and 101" % side.tag,
                        len(sib_regs) == 2 and len(disp_regs) == 2 and len(noindex) == 1):
            continue
        ctors = [f for f in P.methods("Address") if f.pub and not f.has_self]
        n_ctor = 0
        for fn in sorted(ctors, key=lambda f: f.name):
            paths, err = side.paths(fn)
            if paths is None:
                r.observe("unanalysed: %s Address::%s (%s)" % (side.tag, fn.name, err))
                continue
            live = [p for p in paths if not p.panics]
            if not any(acalls(p) for p in live):
                continue
            n_ctor += 1
            pos = {nm: "p%d" % i for i, (nm, _t) in enumerate(fn.params)}
            normed = set()
            for p in live:
                K = Known(p.facts)
                calls = acalls(p)
                r.instance("%s:Address::%s:%s" % (side.tag, fn.name, p.decisions),
                           sample={"ctor": fn.path, "path": r_facts(p), "calls": [c[0] for c in calls]})
                key = "%s" % fn.path
                pathdesc = "on the path [%s]" % r_facts(p)
                modrm = [c for c in calls if c[0] == "set_modrm"]
                sib = [c for c in calls if c[0] == "set_sib"]
                d8 = [c for c in calls if c[0] == "set_disp8"]
                d32 = [c for c in calls if c[0] == "set_disp32"]
                if len(modrm) != 1 or len(sib) > 1 or calls[0][0] != "set_modrm" or len(modrm[0][1]) != 2:
                    r.violation(key + ":shape", "%s expected exactly one set_modrm first and at most one set_sib" % pathdesc, fn.where)
                    continue
                mode, rmreg = modrm[0][1]

                def may_be(reg, names):
                    """can register value `reg` be one of the constants `names` on this path?"""
                    if reg[0] == "kreg":
                        return reg[1] in names
                    if reg[0] == "reg":
                        nm = reg[1]
                        if nm in K.oneof:
                            return bool(K.oneof[nm] & names)
                        return not names <= K.noteq.get(nm, set())
                    return True

                def must_be(reg, names):
                    if reg[0] == "kreg":
                        return reg[1] in names
                    if reg[0] == "reg":
                        return reg[1] in K.oneof and K.oneof[reg[1]] <= names
                    return False
                # SIB-required: rm = 100
                if sib:
                    if not must_be(rmreg, sib_regs):
                        r.violation(key + ":sib", "%s a SIB byte is appended although ModRM.rm is not known to be 100 (%s): the "
                                                  "CPU would read the SIB byte as displacement/next instruction" % (
                                                      pathdesc, "/".join(sorted(sib_regs))), fn.where)
                    if calls.index(sib[0]) != 1:
                        r.violation(key + ":sib", "%s set_sib is not directly after set_modrm" % pathdesc, fn.where)
                elif may_be(rmreg, sib_regs):
                    r.violation(key + ":sib", "%s ModRM.rm may be 100 (base %s) but no SIB byte is appended: the CPU expects a "
                                              "SIB byte after rm=100 and would consume the displacement/next byte as SIB" % (
                                                  pathdesc, "/".join(sorted(sib_regs))), fn.where)
                # index register must not be rsp (100 without REX.X = "no index")
                if sib and len(sib[0][1]) == 3:
                    idx = sib[0][1][1]
                    if idx[0] == "reg":
                        asserted = any(e[0] == "assert" and isinstance(e[1], tuple) and e[1] == ("not", ("eqk", idx[1], list(noindex)[0]))
                                       for e in p.events)
                        if not asserted:
                            r.violation(key + ":index", "%s index register `%s` is not asserted to differ from %s (SIB.index=100 "
                                                        "without REX.X means no index)" % (pathdesc, idx[1], list(noindex)[0]), fn.where)
                # displacement-required: mod=00 with base 101
                base = sib[0][1][2] if sib and len(sib[0][1]) == 3 else rmreg
                if mode[0] != "c":
                    r.violation(key + ":mod", "%s ModRM.mod is not a constant" % pathdesc, fn.where)
                    continue
                m = mode[1]
                if m == 0:
                    if base[0] == "kreg" and base[1] in disp_regs:
                        # deliberate no-base / RIP-relative form: needs disp32
                        if len(d32) != 1 or d8:
                            r.violation(key + ":disp", "%s mod=00 with base %s means disp32 follows, but the constructor stores %s"
                                        % (pathdesc, base[1], "no disp32" if not d32 else "a disp8 too"), fn.where)
                    else:
                        if may_be(base, disp_regs):
                            r.violation(key + ":disp", "%s mod=00 is chosen while the base register may be %s: [rbp]/[r13] without "
                                                       "displacement does not exist — the CPU reads it as disp32/RIP-relative and "
                                                       "consumes the next four bytes" % (pathdesc, "/".join(sorted(disp_regs))), fn.where)
                        if d8 or d32:
                            r.violation(key + ":disp", "%s mod=00 but a displacement is stored" % pathdesc, fn.where)
                elif m == 1:
                    if len(d8) != 1 or d32:
                        r.violation(key + ":disp", "%s mod=01 requires exactly one disp8" % pathdesc, fn.where)
                elif m == 2:
                    if len(d32) != 1 or d8:
                        r.violation(key + ":disp", "%s mod=10 requires exactly one disp32" % pathdesc, fn.where)
                else:
                    r.violation(key + ":mod", "%s ModRM.mod=%s is not a memory form" % (pathdesc, m), fn.where)
                # normal form for the sibling comparison
                nf = set()
                for (e, pol) in p.facts:
                    nf.add((rename(strip_opq(e), pos), pol))
                nc = tuple((c[0], tuple(rename(strip_opq(desc(a)), pos) for a in c[1])) for c in calls)
                normed.add((frozenset(nf), nc))
                for e in p.events:
                    if e[0] == "assert" and mentions_operand(e[1]):
                        asserts.setdefault(fn.name, {}).setdefault(side.tag, set()).add(r_bool(rename(e[1], {})))
            norm_ctor.setdefault(fn.name, {})[side.tag] = (normed, fn)
        r.floor("%s Address constructors" % tagname, n_ctor, 4)
    for nm, bytag in sorted(norm_ctor.items()):
        if len(bytag) < 2:
            r.observe("Address::%s exists only in %s" % (nm, "/".join(bytag)))
            continue
        (na, fa), (nb, fb) = bytag["rs"], bytag["dora"]
        aa, ab = asserts.get(nm, {}).get("rs", set()), asserts.get(nm, {}).get("dora", set())
        if aa != ab:
            r.observe("Address::%s register preconditions differ (not a violation): Rust-only asserts {%s}, Dora-only {%s}"
                      % (nm, ", ".join(sorted(aa - ab)), ", ".join(sorted(ab - aa))))
        r.instance("sibling:Address::%s" % nm, sample={"ctor": nm, "paths": len(na)})
        if na != nb:
            da = sorted(repr(x) for x in na - nb)
            db = sorted(repr(x) for x in nb - na)
            r.violation("%s|dora:sibling" % fa.path, "Address::%s takes different decisions in the two assemblers. Rust-only: %s || "
                                                     "Dora-only: %s" % (nm, da[0][:300] if da else "-", db[0][:300] if db else "-"), fb.where)


def strip_opq(d):
    """drop language-specific noise from opaque descriptions (type names, conversion wrappers)"""
    if isinstance(d, tuple):
        if d and d[0] == "reg" and len(d) == 3:
            return ("reg", d[1])
        if d and d[0] == "kreg" and len(d) == 4:
            return ("kreg", d[1])
        if d and d[0] == "opq" and len(d) == 2:
            return strip_opq(d[1])
        if d and d[0] == "path" and len(d) == 2 and isinstance(d[1], str):
            return ("path", ir.short_path(d[1]))
        return tuple(strip_opq(x) for x in d)
    return d


# ---------------------------------------------------------------------------------------------------------
def run(chk, F):
    sides = load_sides(F)
    run_r1(chk, sides)
    run_r2(chk, sides)
    run_r3(chk, sides)
    run_r4(chk, sides)
    # guarded narrowing casts of operand values (coordinator's rule, rules/narrowcast.py)
    from rules import narrowcast
    narrowcast.run(chk, F, "C07.R5", "dora_asm::x64", "x64 assembler (Rust)")
    chk.assumptions += [
        "register operands are numbered 0..15 (Register::new asserts it; the constants are 0..15), so `n & 7` / `n > 7` are "
        "the low three bits / the extension bit",
        "the buffer primitives emit_u8/emit_byte/emit_u32/emit_int32/emit_u64/emit_int64 append exactly the number of bytes "
        "their name states (AssemblerBuffer is outside the analysed files)",
        "not decided: that an opcode byte is the right opcode for the mnemonic (pinned by the unit tests for one operand "
        "combination per method)",
    ]

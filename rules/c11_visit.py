"""HIR access-path engine for C11.R1 (traversal completeness of the exhaustiveness visitor).

A *slot* is a field position of the sema Expr/Stmt enums (transitively through the sema structs the variants
wrap) whose type can hold an expression, statement or pattern id, written as a tuple of names with the
container wrappers (Option/Vec/Box/tuples) dropped:  ("Expr::Match", "0", "arms", "value").

The engine evaluates the visitor functions symbolically: every local is bound to the access path it was
read from (`let`, `if let Some(x) = e.f`, `for x in &e.f`, `match` arms, closure parameters of iterator
adaptors) and every call of a *sink* (the visitors themselves, the pattern converters) with an argument that
has a path is a hit for that slot.  Calls of other functions of the same module are evaluated inline with
the parameters bound to the argument paths.  A hit carries the conditions it lies under that are not mere
unwrapping of the path itself (Option tests, loops over the field are unwrapping; `if flag`, match guards,
statements after an early `continue`/`return` are restrictions)."""
import re

import hirq

ID_RE = re.compile(r"id_arena::Id<([\w:]+)>")
PATH_RE = re.compile(r"[A-Za-z_][\w]*(?:::[A-Za-z_][\w]*)+")

# methods through which a value keeps denoting "the (elements of the) field it was read from".
# (std adaptor names: frozen because they are the standard library's, not the repository's)
TRANSPARENT = {"iter", "iter_mut", "into_iter", "as_ref", "as_deref", "as_slice", "as_mut", "clone", "cloned", "copied",
               "unwrap", "expect", "rev", "deref", "borrow", "to_vec", "to_owned", "enumerate", "by_ref", "peekable"}
# adaptors whose closure argument receives the elements of the receiver
ELEMENTWISE = {"for_each", "map", "any", "all", "filter", "filter_map", "flat_map", "find", "inspect", "try_for_each"}
OPTION_PATHS = ("core::option::Option::Some", "core::result::Result::Ok", "alloc::boxed::Box")
OPTION_TESTS = {"is_some", "is_none"}


def last(p):
    return p.rsplit("::", 1)[-1]


class Slots:
    """enumerate id-carrying field positions from the ADT facts"""

    def __init__(self, crate, kinds, scope_prefix):
        """kinds: {enum path of the id's target: 'expr'|'stmt'|'pattern'}"""
        self.adts = dict((a["path"], a) for a in crate.items["adts"])
        self.kinds = kinds
        self.scope = scope_prefix
        self.slots = {}          # path tuple -> (kind, type string)
        self.uninterpreted = []  # fields whose type mentions an id but that could not be decomposed

    def root(self, enum_path):
        e = self.adts[enum_path]
        short = last(enum_path)
        for v in e["variants"]:
            for f in v["fields"]:
                self._field(("%s::%s" % (short, v["name"]), f["name"]), f["ty"], (enum_path,))

    def _field(self, path, ty, seen):
        rest = ty
        for m in ID_RE.finditer(ty):
            k = self.kinds.get(m.group(1))
            if k:
                self.slots[path] = (k, ty)
        rest = ID_RE.sub("", ty)
        for m in PATH_RE.finditer(rest):
            p = m.group(0)
            a = self.adts.get(p)
            if a is None or not p.startswith(self.scope) or p in seen:
                continue
            if a["kind"] == "struct":
                for f in a["variants"][0]["fields"]:
                    self._field(path + (f["name"],), f["ty"], seen + (p,))
            elif a["kind"] == "enum":
                for v in a["variants"]:
                    for f in v["fields"]:
                        self._field(path + ("@" + v["name"], f["name"]), f["ty"], seen + (p,))


class Hit:
    __slots__ = ("path", "kind", "callee", "conds", "fn", "line")

    def __init__(self, path, kind, callee, conds, fn, line):
        self.path, self.kind, self.callee, self.conds, self.fn, self.line = path, kind, callee, tuple(conds), fn, line


class Engine:
    def __init__(self, crate, module, sinks, root_enums):
        """sinks: {fn path: {param index: kind}};  root_enums: {enum path: short name} (variants start a path)"""
        self.c = crate
        self.module = module
        self.sinks = sinks
        self.root_enums = root_enums
        self.hits = []
        self.bound = set()        # paths that were bound to a name somewhere
        self.opaque = []          # (path prefix, why) — constructs that were not interpreted
        self._active = set()

    # ---- paths ---------------------------------------------------------------------------------------
    def path_of(self, e, env):
        e = hirq.unmacro(e)
        if not hirq.is_node(e):
            return None
        k = e[0]
        if k == "local":
            return env.get(e[1])
        if k == "field":
            p = self.path_of(e[1], env)
            return p + (e[2],) if p is not None else None
        if k == "addr":
            return self.path_of(e[2], env)
        if k == "un" and e[1] == "Deref":
            return self.path_of(e[2], env)
        if k == "cast":
            return self.path_of(e[1], env)
        if k == "block" and not e[1] and e[2] is not None:
            return self.path_of(e[2], env)
        if k == "index":
            p = self.path_of(e[1], env)
            if p is not None:
                self.opaque.append((p, "indexing `%s`" % hirq.render(e)))
            return None
        if k == "mcall":
            if e[3] in TRANSPARENT:
                return self.path_of(e[4], env)
            if e[3] in ("first", "last", "get", "nth", "next_back", "pop"):
                p = self.path_of(e[4], env)
                if p is not None:
                    self.opaque.append((p, "partial access `.%s()`" % e[3]))
            return None
        if k == "call":
            d = hirq.def_path(e[2])
            if d and last(d) in ("into_iter", "next", "iter") and e[3]:
                return self.path_of(e[3][0], env)
            if d in OPTION_PATHS and e[3]:
                return self.path_of(e[3][0], env)
            return None
        if k == "match":
            ps = set()
            for (pat, guard, body) in e[2]:
                if diverges(body):
                    continue
                env2 = dict(env)
                self.bind(pat, self.path_of(e[1], env), env2)
                ps.add(self.path_of(body, env2))
            return ps.pop() if len(ps) == 1 else None
        return None

    def bind(self, pat, path, env):
        if not hirq.is_node(pat):
            return
        k = pat[0]
        if k == "pbind":
            if path is not None:
                env[pat[1]] = path
                self.bound.add(path)
            else:
                env.pop(pat[1], None)
            if pat[2] is not None:
                self.bind(pat[2], path, env)
        elif k == "pref":
            self.bind(pat[1], path, env)
        elif k == "por":
            for q in pat[1]:
                self.bind(q, path, env)
        elif k == "ptuple":
            for q in pat[1]:
                self.bind(q, path, env)
        elif k in ("pts", "pstruct"):
            d = hirq.def_path(pat[1]) or ""
            subs = [(str(i), q) for i, q in enumerate(pat[2])] if k == "pts" else [(f, q) for f, q in pat[2]]
            if d in OPTION_PATHS:
                for (_f, q) in subs:
                    self.bind(q, path, env)
                return
            owner = d.rsplit("::", 1)[0]
            if owner in self.root_enums:
                nfields = None
                a = next((x for x in self.c.items["adts"] if x["path"] == owner), None)
                if a:
                    v = next((v for v in a["variants"] if v["name"] == last(d)), None)
                    nfields = len(v["fields"]) if v else None
                if k == "pts" and nfields is not None and len(subs) != nfields:
                    return          # `..` inside a tuple-variant pattern: positions unknown, nothing is bound
                for (f, q) in subs:
                    self.bind(q, ("%s::%s" % (self.root_enums[owner], last(d)), f), env)
            elif path is not None:
                for (f, q) in subs:
                    self.bind(q, path + (f,), env)

    # ---- evaluation ------------------------------------------------------------------------------------
    def run_fn(self, fn_path, env, conds):
        b = self.c.hir.get(fn_path)
        if b is None:
            return
        key = (fn_path, tuple(sorted(env.items())))
        if key in self._active:
            return
        self._active.add(key)
        try:
            self.ev(b["body"], dict(env), list(conds), fn_path)
        finally:
            self._active.discard(key)

    def _cond(self, cond, env, fn):
        """evaluate a condition: returns (restriction text | None, env for the then-branch)"""
        c = hirq.unmacro(cond)
        env2 = dict(env)
        if hirq.is_node(c) and c[0] == "letx":
            p = self.path_of(c[2], env)
            self.ev(c[2], env, [], fn)
            self.bind(c[1], p, env2)
            if p is not None and hirq.def_path(c[1][1] if len(c[1]) > 1 else None) in OPTION_PATHS:
                return None, env2
            return "if let %s = %s" % (hirq.render(c[1]), hirq.render(c[2])), env2
        if hirq.is_node(c) and c[0] == "bin" and c[1] == "And":
            r1, env2 = self._cond(c[2], env, fn)
            r2, env3 = self._cond(c[3], env2, fn)
            rs = [x for x in (r1, r2) if x]
            return (" && ".join(rs) if rs else None), env3
        return hirq.render(c), env2

    def ev_block(self, e, env, conds, fn):
        conds = list(conds)
        for s in e[1]:
            self.ev(s, env, conds, fn)
            ex = early_exit(s)
            if ex:
                conds.append("after early exit `%s`" % ex)
        if e[2] is not None:
            self.ev(e[2], env, conds, fn)

    def ev(self, e, env, conds, fn):
        e = hirq.unmacro(e) if hirq.is_node(e) and e[0] == "macro" and e[1] != "matches!" else e
        if not hirq.is_node(e):
            if isinstance(e, list):
                for x in e:
                    self.ev(x, env, conds, fn)
            return
        k = e[0]
        if k == "block":
            self.ev_block(e, dict(env), conds, fn)
        elif k == "let":
            if e[2] is not None:
                self.ev(e[2], env, conds, fn)
            self.bind(e[1], self.path_of(e[2], env) if e[2] is not None else None, env)
            if e[3] is not None:
                self.ev(e[3], env, conds, fn)
        elif k == "if":
            r, env2 = self._cond(e[1], env, fn)
            c0 = hirq.unmacro(e[1])
            if not (hirq.is_node(c0) and c0[0] == "letx"):
                self.ev(e[1], env, conds, fn)
            self.ev(e[2], env2, conds + ([r] if r else []), fn)
            if e[3] is not None:
                self.ev(e[3], dict(env), conds + (["not (%s)" % r] if r else []), fn)
        elif k == "match":
            p = self.path_of(e[1], env)
            self.ev(e[1], env, conds, fn)
            for (pat, guard, body) in e[2]:
                env2 = dict(env)
                self.bind(pat, p, env2)
                extra = []
                roots = [d for d in hirq.pat_paths(pat) if d.rsplit("::", 1)[0] in self.root_enums]
                opt = any(d in OPTION_PATHS or d.startswith("core::option::Option::") for d in hirq.pat_paths(pat))
                if not roots and not (p is not None and (opt or hirq.pat_is_wild(pat))) and not (
                        e[3] == "ForLoopDesugar"):
                    if not hirq.pat_is_wild(pat):
                        extra.append("match arm `%s` of `%s`" % (hirq.render(pat), hirq.render(e[1])))
                if guard is not None:
                    self.ev(guard, env2, conds, fn)
                    extra.append("arm guard `%s`" % hirq.render(guard))
                self.ev(body, env2, conds + extra, fn)
        elif k == "closure":
            env2 = dict(env)
            for q in e[2]:
                self.bind(q, None, env2)
            self.ev(e[3], env2, conds, fn)
        elif k in ("call", "mcall"):
            cs = hirq.CallSite(e)
            args = cs.all_args()
            # closures handed to element-wise adaptors receive the receiver's elements
            if cs.is_method and cs.name in ELEMENTWISE:
                rp = self.path_of(cs.recv, env)
                self.ev(cs.recv, env, conds, fn)
                for a in cs.args:
                    a0 = hirq.unmacro(a)
                    if hirq.is_node(a0) and a0[0] == "closure":
                        env2 = dict(env)
                        for q in a0[2]:
                            self.bind(q, rp, env2)
                        self.ev(a0[3], env2, conds, fn)
                    else:
                        self.ev(a, env, conds, fn)
                return
            for a in args:
                self.ev(a, env, conds, fn)
            if not cs.is_method and cs.callee is None:
                self.ev(e[2], env, conds, fn)
            callee = cs.callee
            if callee in self.sinks:
                for idx, kind in self.sinks[callee].items():
                    if idx < len(args):
                        p = self.path_of(args[idx], env)
                        if p is not None:
                            self.hits.append(Hit(p, kind, callee, conds, fn, cs.line))
            elif callee and callee.startswith(self.module + "::") and callee in self.c.hir:
                b = self.c.hir[callee]
                env2 = {}
                for i, (ppat, _ty) in enumerate(b["params"]):
                    if i < len(args):
                        p = self.path_of(args[i], env)
                        if p is not None and hirq.is_node(ppat) and ppat[0] == "pbind":
                            env2[ppat[1]] = p
                if env2:
                    self.run_fn(callee, env2, conds)
        elif k == "loop":
            self.ev(e[2], dict(env), conds, fn)
        else:
            for x in e[1:]:
                if isinstance(x, list):
                    self.ev(x, env, conds, fn)


def diverges(e):
    e = hirq.unmacro(e)
    if not hirq.is_node(e):
        return False
    if e[0] in ("ret", "continue", "break"):
        return True
    if hirq.is_panic_body(e):
        return True
    if e[0] == "block":
        if e[2] is not None:
            return diverges(e[2])
        return bool(e[1]) and diverges(e[1][-1])
    if e[0] == "if":
        return e[3] is not None and diverges(e[2]) and diverges(e[3])
    return False


def early_exit(s):
    """statement that can leave the enclosing loop/function before the following statements: text or None.
    The unwrap idiom `let x = match opt { Some(v) => v, None => continue }` is reported too (the caller
    decides); plain value matches are not."""
    s0 = hirq.unmacro(s)
    if not hirq.is_node(s0):
        return None
    if s0[0] in ("ret", "continue", "break"):
        return s0[0]
    if s0[0] == "if":
        if any(x is not None and diverges(x) and not hirq.is_panic_body(x) for x in (s0[2], s0[3])):
            return "if %s { %s }" % (hirq.render(s0[1]), "…exit…")
    if s0[0] == "let" and s0[2] is not None:
        return early_exit(s0[2])
    if s0[0] == "match":
        for (pat, guard, body) in s0[2]:
            if diverges(body) and not hirq.is_panic_body(body) and s0[3] != "ForLoopDesugar":
                return "match %s { %s => …exit… }" % (hirq.render(s0[1]), hirq.render(pat))
    if s0[0] == "block":
        for x in s0[1]:
            r = early_exit(x)
            if r:
                return r
    return None

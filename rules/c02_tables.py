"""C02 — the table / ABI / handler-coverage half ("both code generators accept the same bytecode and are fed the same
layout constants").  Static analysis only; rules R3, R4, R5 live here, R7 in c02_natives.py.

  R3  handler coverage: every visit_* the bytecode dispatcher can invoke is overridden (non-panicking) by the baseline
      compiler; the optimizing compiler's `match` covers every BytecodeInstruction variant; every opcode the front end
      can emit has a live handler in both; every Intrinsic that can reach a back end is handled by both
  R4  ABI mirror: dora_compiler::abi layouts == dora_runtime layouts == constants in pkgs/boots/interface.dora
  R5  inverse table pairs (rules/tables.py): Trap, ThreadState, AOT code kind, collector, shape visitor, shape kind,
      known shape kind; the trap message table is total
  R7  native signature agreement (c02_natives.run_r7)

Entry point: run_tables(chk, F).
"""
import re

import doraq
import hirq
from hirq import def_path, is_node, last
from rules import tables
from rules import c02_util as U
from rules import c18_dora as DD
from rules import c02_natives

BC = "dora_bytecode"
OPC_ENUM = "dora_bytecode::data::BytecodeOpcode"
INSN_ENUM = "dora_bytecode::data::BytecodeInstruction"
VISITOR = "dora_bytecode::reader::BytecodeVisitor"
WRITER = "dora_bytecode::writer::BytecodeWriter"
READER = "dora_bytecode::reader::BytecodeReader"
INTRINSIC = "dora_bytecode::opcode::Intrinsic"
CANNON = "dora_cannon_compiler::codegen::CannonCodeGen"
BOOTS_BUILDER = "pkgs/boots/bytecode_graph_builder.dora"
BOOTS_INTRINSICS = "pkgs/boots/bytecode_graph_builder/intrinsics.dora"
BOOTS_INSN = "pkgs/boots/bytecode/instruction.dora"
BOOTS_OPCODES = "pkgs/boots/bytecode/opcode.dora"


def _where(b):
    return "%s:%s" % (b.get("file"), b.get("line")) if b else None


# =============================================================================================== R3 (a) baseline

def dispatcher_calls(r, bc):
    """{instruction variant: set(visitor method)}, set(all visitor methods any function of dora_bytecode calls on a
    `T: BytecodeVisitor`) — read off the resolved method calls, not off the trait's method list"""
    per_variant, every = {}, set()
    wild = []
    found = []
    for path, b in bc.hir.items():
        mine = set()
        for cs in hirq.calls(b["body"]):
            if cs.callee and cs.callee.startswith(VISITOR + "::"):
                mine.add(last(cs.callee))
        if not mine:
            continue
        every |= mine
        for m in U.matches_on(b["body"], INSN_ENUM + "::", min_arms=8):
            found.append(path)
            for (pat, guard, body) in hirq.match_arms(m):
                vs = [last(p) for p in hirq.pat_paths(pat) if p.startswith(INSN_ENUM + "::")]
                calls = {last(cs.callee) for cs in hirq.calls(body)
                         if cs.callee and cs.callee.startswith(VISITOR + "::")}
                if not vs:
                    if hirq.pat_is_wild(pat):
                        wild.append((path, U.is_panic_expr(body), calls))
                    continue
                for v in vs:
                    per_variant.setdefault(v, set()).update(calls)
                    if guard is not None:
                        per_variant[v].add("?guard")
    return per_variant, every, wild, found


def cannon_impl(r, cc):
    ims = [im for im in cc.items["impls"]
           if im.get("trait") == VISITOR and U.strip_generics(im.get("self_ty")) == CANNON]
    if not r.anchor("impl BytecodeVisitor for CannonCodeGen", len(ims) == 1):
        return None
    return {name: path for (name, path) in ims[0]["methods"]}


def run_r3_baseline(r, F, bc, cc):
    a_ins = bc.adt(INSN_ENUM)
    if not r.anchor(INSN_ENUM, a_ins):
        return None
    variants = [v["name"] for v in a_ins["variants"]]
    per_variant, every, wild, found = dispatcher_calls(r, bc)
    if not r.anchor("dispatcher: a match over BytecodeInstruction that calls BytecodeVisitor methods", found):
        return None
    for (path, panics, _calls) in wild:
        r.violation("%s:wildcard-arm" % path,
                    "the dispatcher has a catch-all arm%s: a new BytecodeInstruction variant would not reach its "
                    "visitor method" % (" that panics" if panics else ""), path)
    impl = cannon_impl(r, cc)
    if impl is None:
        return None
    trait_defaults = {}
    for t in bc.items["traits"]:
        if t["path"] == VISITOR:
            trait_defaults = {n: d for (n, d) in t["methods"]}
    r.anchor("trait " + VISITOR, trait_defaults)

    def handler_state(m):
        """'ok' | 'default-panics' | 'panics' | 'no-such-method'"""
        if m in impl:
            return "panics" if U.always_panics(cc, impl[m]) else "ok"
        if m not in trait_defaults:
            return "no-such-method"
        dflt = VISITOR + "::" + m
        if trait_defaults[m] and dflt in bc.hir and not U.always_panics(bc, dflt):
            return "ok"                                # a default that does nothing (visit_instruction)
        return "default-panics"

    handled = {}
    for v in variants:
        key = "CannonCodeGen:%s" % v
        ms = sorted(per_variant.get(v, ()))
        r.instance(key, nontrivial=bool(ms), sample={"variant": v, "dispatches_to": ms,
                                                     "overridden": [m for m in ms if m in impl]})
        if not ms:
            r.violation("dispatcher:%s:no-arm" % v, "BytecodeInstruction::%s is decoded by the reader but no dispatcher "
                        "arm forwards it to a visitor method" % v, found[0])
            handled[v] = False
            continue
        ok = True
        for m in ms:
            st = handler_state(m)
            if st == "default-panics":
                ok = False
                r.violation("%s:%s:not-overridden" % (CANNON, m),
                            "the dispatcher calls %s for BytecodeInstruction::%s but `impl BytecodeVisitor for "
                            "CannonCodeGen` does not override it: the trait default is unimplemented!() and the baseline "
                            "compiler panics on the first %s instruction" % (m, v, v), "dora-cannon-compiler/src/codegen.rs")
            elif st == "panics":
                # a deliberate `unreachable!()` override is legitimate for an opcode nobody produces: the variant
                # counts as unhandled and the producer clause (c) decides whether that matters
                ok = False
                r.observe("CannonCodeGen::%s (BytecodeInstruction::%s) is overridden with a bare panic" % (m, v))
            elif st != "ok":
                ok = False
                r.violation("ANALYSIS:%s:%s" % (CANNON, m), "dispatcher calls %s: %s" % (m, st), None)
        handled[v] = ok
    # methods called outside a per-variant arm (visit_instruction in the read loop)
    for m in sorted(every - {x for s in per_variant.values() for x in s}):
        r.instance("CannonCodeGen:%s" % m, nontrivial=True)
        if handler_state(m) != "ok":
            r.violation("%s:%s:not-overridden" % (CANNON, m), "the read loop calls %s on every instruction but the "
                        "baseline compiler does not provide it" % m, "dora-cannon-compiler/src/codegen.rs")
    vestigial = sorted(set(trait_defaults) - every)
    if vestigial:
        r.observe("trait methods no dispatcher arm calls (vestigial, not required): %s" % ", ".join(vestigial))
    extra = sorted(set(impl) - every)
    if extra:
        r.observe("CannonCodeGen overrides methods the dispatcher never calls: %s" % ", ".join(extra))
    r.floor("BytecodeInstruction variants", len(variants), 70)
    r.floor("visitor methods the dispatcher can invoke", len(every), 70)
    return {"variants": variants, "handled": handled, "per_variant": per_variant}


# =============================================================================================== R3 (b) optimizing

def boots_builder_fns(D):
    out = {}
    for fp in (BOOTS_BUILDER, BOOTS_INTRINSICS):
        t = D.get(fp)
        if t is not None:
            for f in doraq.functions(t, fp):
                out.setdefault(f.name, f)
    return out


def run_r3_boots(r, F, D, rust_variants):
    t = D.get(BOOTS_BUILDER)
    ti = D.get(BOOTS_INSN)
    if not (r.anchor(BOOTS_BUILDER, t) and r.anchor(BOOTS_INSN, ti)):
        return None
    dvars = None
    for n in doraq.walk(ti):
        if n[0] == "ENUM" and doraq.ident(n) == last(INSN_ENUM):
            dvars = list(DD.enum_variants(ti, doraq.ident(n)))
    if not r.anchor("enum BytecodeInstruction in " + BOOTS_INSN, dvars):
        return None
    key = "boots:BytecodeInstruction:variant-set"
    r.instance(key, nontrivial=True, sample={"rust": len(rust_variants), "dora": len(dvars)})
    if set(dvars) != set(rust_variants):
        r.violation(key, "the Dora enum BytecodeInstruction and the Rust enum differ: only Rust %s, only Dora %s"
                    % (sorted(set(rust_variants) - set(dvars)), sorted(set(dvars) - set(rust_variants))), BOOTS_INSN)
    fns = boots_builder_fns(D)
    # the dispatching match: the `match` naming the most BytecodeInstruction variants
    best, best_fn = None, None
    for f in doraq.functions(t, BOOTS_BUILDER):
        for m in doraq.walk(f.node):
            if m[0] != "MATCH_EXPR":
                continue
            arms = doraq.direct_match_arms(m)
            named = {p.split("::")[-1] for (_t, pat, _b) in arms for p in U.dora_pattern_paths(pat)
                     if p.startswith(last(INSN_ENUM) + "::")}
            if len(named) >= 8 and (best is None or len(named) > best[0]):
                best, best_fn = (len(named), arms), f
    if not r.anchor("BytecodeGraphBuilder: match over BytecodeInstruction", best):
        return None
    handled = {v: False for v in dvars}
    seen = set()
    for (_txt, pat, body) in best[1]:
        for p in U.dora_pattern_paths(pat):
            if p == "_":
                pan = U.dora_always_panics(body, fns)
                missing = sorted(set(dvars) - seen)
                if pan and missing:
                    r.violation("%s::%s:catch-all" % (BOOTS_BUILDER, best_fn.name),
                                "catch-all arm panics and stands in for %s" % ", ".join(missing), best_fn.where())
                elif missing:
                    r.observe("boots %s: catch-all arm covers %s" % (best_fn.name, ", ".join(missing)))
                    for v in missing:
                        handled[v] = True
                continue
            v = p.split("::")[-1]
            seen.add(v)
            if v in handled:
                handled[v] = not U.dora_always_panics(body, fns)
    for v in dvars:
        key = "boots:%s" % v
        r.instance(key, nontrivial=True, sample={"variant": v, "arm": v in seen, "live": handled[v]})
        if v not in seen and not handled[v]:
            r.violation("%s::%s:%s:no-arm" % (BOOTS_BUILDER, best_fn.name, v),
                        "the optimizing compiler's instruction match has no arm for BytecodeInstruction::%s" % v,
                        best_fn.where())
        elif not handled[v]:
            r.observe("boots: the arm for BytecodeInstruction::%s is a bare panic" % v)
    r.floor("BytecodeInstruction variants (Dora)", len(dvars), 70)
    return {"handled": handled, "fn": best_fn, "fns": fns}


# =============================================================================================== R3 (c) producer

def writer_opcodes(bc):
    """{writer method path: set(opcode variant)}: the pub methods of BytecodeWriter whose body names BytecodeOpcode
    variants in expression position (the byte they emit)"""
    out = {}
    for f in bc.items["fns"]:
        if f.get("container") != "impl" or f.get("trait") or U.strip_generics(f.get("self_ty")) != WRITER:
            continue
        b = bc.hir.get(f["path"])
        if b is None or not f.get("pub"):
            continue
        ops = {last(n[2]) for (n, _p) in U.expr_walk(b["body"])
               if n[0] == "def" and n[2].startswith(OPC_ENUM + "::")}
        if ops:
            out[f["path"]] = ops
    return out


def opcode_to_instruction(r, bc):
    """{opcode variant: instruction variant} from the arms of the reader's decoding match"""
    out = {}
    for path, b in bc.hir.items():
        if not U.strip_generics(path).startswith(READER + "::"):
            continue
        for m in U.matches_on(b["body"], OPC_ENUM + "::", min_arms=8):
            for (pat, _g, body) in hirq.match_arms(m):
                ops = [last(p) for p in hirq.pat_paths(pat) if p.startswith(OPC_ENUM + "::")]
                built = set()
                for n in hirq.walk(body):
                    if n[0] == "struct" and (def_path(n[1]) or "").startswith(INSN_ENUM + "::"):
                        built.add(last(def_path(n[1])))
                    elif n[0] == "def" and n[2].startswith(INSN_ENUM + "::"):
                        built.add(last(n[2]))
                for o in ops:
                    if len(built) == 1:
                        out[o] = next(iter(built))
                    else:
                        r.observe("reader arm %s builds %s" % (o, sorted(built) or "nothing"))
    return out


def run_r3_producer(r, F, bc, base, boots):
    fe = F.crate("dora_frontend")
    wops = writer_opcodes(bc)
    op2ins = opcode_to_instruction(r, bc)
    if not (r.anchor("BytecodeWriter emit methods naming a BytecodeOpcode", wops) and
            r.anchor("BytecodeReader: opcode -> BytecodeInstruction arms", op2ins)):
        return
    # call sites of the emit methods in the front end, and who calls the function holding the site
    callers = {}
    sites = {}
    for path, b in fe.hir.items():
        for cs in hirq.calls(b["body"]):
            if not cs.callee:
                continue
            if cs.callee in wops:
                sites.setdefault(cs.callee, set()).add(path)
            elif cs.callee.startswith("dora_frontend::") and cs.callee != path:
                callers.setdefault(cs.callee, set()).add(path)
    emitted = {}
    dead = []
    for w, holders in sorted(sites.items()):
        live = sorted(h for h in holders if callers.get(h))
        if not live:
            dead.append(last(w))
            continue
        for o in wops[w]:
            emitted.setdefault(o, set()).update(live)
    if dead:
        r.observe("front-end wrappers of %s are never called: those opcodes are not produced through them" %
                  ", ".join(dead))
    never = sorted(set(op2ins) - set(emitted))
    if never:
        r.observe("opcodes no live front-end site emits: %s" % ", ".join(never))
    for o in sorted(emitted):
        key = "producer:%s" % o
        ins = op2ins.get(o)
        r.instance(key, nontrivial=True, sample={"opcode": o, "instruction": ins, "emit_sites": len(emitted[o]),
                                                 "baseline": base["handled"].get(ins), "boots":
                                                     boots["handled"].get(ins) if boots else None})
        if ins is None:
            r.violation("%s:no-reader-arm" % key, "the front end emits opcode %s but the bytecode reader has no arm "
                        "that decodes it into an instruction" % o, sorted(emitted[o])[0])
            continue
        if not base["handled"].get(ins):
            r.violation("%s:no-baseline-handler" % key,
                        "the front end emits %s (e.g. in %s) but the baseline compiler has no live handler for "
                        "BytecodeInstruction::%s" % (o, sorted(emitted[o])[0], ins), "dora-cannon-compiler/src/codegen.rs")
        if boots is not None and not boots["handled"].get(ins):
            r.violation("%s:no-boots-handler" % key,
                        "the front end emits %s (e.g. in %s) but the optimizing compiler has no live arm for "
                        "BytecodeInstruction::%s" % (o, sorted(emitted[o])[0], ins), BOOTS_BUILDER)
    r.floor("opcodes the front end emits", len(emitted), 68)
    r.floor("writer emit methods", len(wops), 68)


# =============================================================================================== R3 (d) intrinsics

BYTECODE_OP_PRED = "dora_frontend::sema::functions::emit_as_bytecode_operation"


def intrinsic_assignments(r, fe):
    """{intrinsic variant: [declaration path | None]}: where the front end attaches an intrinsic to a function.
    A site is `<..>.intrinsic.set(Intrinsic::X)` or a call of a helper that does that with its parameter; the string
    literal passed next to the variant is the declaration path ('Trait for Type#method' = trait impl)."""
    helpers = {}            # fn path -> index of the parameter that reaches `.intrinsic.set(param)`
    direct = []

    def is_intrinsic_set(n):
        return n[0] == "mcall" and n[3] == "set" and is_node(hirq.strip(n[4])) and hirq.strip(n[4])[0] == "field" \
            and hirq.strip(n[4])[2] == "intrinsic" and len(n[5]) == 1
    for path, b in fe.hir.items():
        pnames = [p[0][1] if is_node(p[0]) and p[0][0] == "pbind" else None for p in b["params"]]
        for n in hirq.walk(b["body"]):
            if not is_intrinsic_set(n):
                continue
            arg = n[5][0]
            ln = hirq.local_name(arg)
            d = def_path(arg)
            if ln is not None and ln in pnames:
                helpers[path] = pnames.index(ln)
            elif d and d.startswith(INTRINSIC + "::"):
                direct.append((last(d), None, path))
    out = {}
    for (v, p, _site) in direct:
        out.setdefault(v, []).append(p)
    for path, b in fe.hir.items():
        for cs in hirq.calls(b["body"]):
            if cs.callee in helpers and not cs.is_method:
                idx = helpers[cs.callee]
                if idx >= len(cs.args):
                    continue
                d = def_path(cs.args[idx])
                if not (d and d.startswith(INTRINSIC + "::")):
                    r.observe("%s: %s called with a non-literal intrinsic" % (path, last(cs.callee)))
                    continue
                strs = [hirq.strip(a)[2] for a in cs.args
                        if is_node(hirq.strip(a)) and hirq.strip(a)[0] == "lit" and hirq.strip(a)[1] == "str"]
                out.setdefault(last(d), []).append(strs[0] if len(strs) == 1 else None)
    return out, helpers


def bytecode_op_intrinsics(r, fe):
    b = fe.hir.get(BYTECODE_OP_PRED)
    if not r.anchor(BYTECODE_OP_PRED, b):
        return None
    ms = U.matches_on(b["body"], INTRINSIC + "::", min_arms=1)
    if not r.anchor(BYTECODE_OP_PRED + ": match over Intrinsic", len(ms) == 1):
        return None
    out = set()
    for (pat, _g, body) in hirq.match_arms(ms[0]):
        e = hirq.strip(body)
        if is_node(e) and e[0] == "lit" and e[1] == "bool" and e[2] in (True, "true"):
            out.update(last(p) for p in hirq.pat_paths(pat))
    return out


def cannon_intrinsics(r, cc):
    """variants with a live arm in the baseline compiler's intrinsic dispatch; also checks that every nested
    re-dispatch on the same value (`match intrinsic { A => .., _ => unreachable!() }`) names all variants of the
    enclosing arm"""
    cands = []
    for path, b in cc.hir.items():
        if not U.strip_generics(path).startswith(CANNON + "::"):
            continue
        for m in U.matches_on(b["body"], INTRINSIC + "::", min_arms=20):
            cands.append((len(m[2]), path, m))
    if not r.anchor("CannonCodeGen: match over Intrinsic (intrinsic dispatch)", cands):
        return None
    cands.sort(key=lambda x: -x[0])
    _n, path, m = cands[0]
    scrut = hirq.local_name(m[1])
    live, dead = set(), set()
    where = _where(cc.hir[path])
    for (pat, guard, body) in hirq.match_arms(m):
        vs = [last(p) for p in hirq.pat_paths(pat) if p.startswith(INTRINSIC + "::")]
        if not vs:
            if hirq.pat_is_wild(pat) and not U.is_panic_expr(body):
                r.observe("baseline intrinsic dispatch has a live catch-all arm")
            continue
        if U.is_panic_expr(body) or U._body_panics(cc, body, 2):
            dead.update(vs)
            continue
        live.update(vs)
        # nested re-dispatch inside the arm, and in a callee that receives the same value
        for (inner, owner) in _redispatches(cc, body, scrut):
            named = set()
            wild_panics = False
            for (ip, _ig, ib) in hirq.match_arms(inner):
                ps = [last(p) for p in hirq.pat_paths(ip) if p.startswith(INTRINSIC + "::")]
                named.update(ps)
                if not ps and hirq.pat_is_wild(ip) and U.is_panic_expr(ib):
                    wild_panics = True
            if wild_panics:
                for v in vs:
                    if v not in named:
                        live.discard(v)
                        dead.add(v)
                        r.violation("%s:%s:inner-dispatch" % (owner, v),
                                    "Intrinsic::%s is routed to this code by the outer dispatch but the inner `match` "
                                    "on the same value has no arm for it and its catch-all panics" % v, where)
    return {"live": live, "dead": dead, "path": path, "where": where}


def _redispatches(cc, body, scrut):
    """(match node, owner path) for matches on `scrut` inside `body` and inside same-crate callees that receive
    `scrut` as an argument (one level)"""
    out = []
    for n in hirq.walk(body):
        if n[0] == "match" and scrut and hirq.local_name(n[1]) == scrut:
            out.append((n, "CannonCodeGen::emit_invoke_intrinsic"))
        if n[0] in ("call", "mcall") and scrut:
            cs = hirq.CallSite(n)
            b = cc.hir.get(cs.callee) if cs.callee else None
            if b is None:
                continue
            args = cs.args
            params = b["params"][1:] if cs.is_method else b["params"]
            for i, a in enumerate(args):
                if hirq.local_name(a) == scrut and i < len(params) and is_node(params[i][0]) \
                        and params[i][0][0] == "pbind":
                    pn = params[i][0][1]
                    for k in hirq.walk(b["body"]):
                        if k[0] == "match" and hirq.local_name(k[1]) == pn:
                            out.append((k, "CannonCodeGen::" + last(cs.callee)))
    return out


def boots_intrinsics(r, D, by_discr):
    """variants with a live arm in boots' intrinsic dispatch, and variants boots deliberately treats as plain calls"""
    t = D.get(BOOTS_INTRINSICS)
    to = D.get(BOOTS_OPCODES)
    if not (r.anchor(BOOTS_INTRINSICS, t) and r.anchor(BOOTS_OPCODES, to)):
        return None
    consts = doraq.consts(to)
    fns = boots_builder_fns(D)

    def variant_of(ptxt):
        v = consts.get(ptxt.split("::")[-1])
        return by_discr.get(v) if isinstance(v, int) else None
    best = None
    for f in doraq.functions(t, BOOTS_INTRINSICS):
        for m in doraq.walk(f.node):
            if m[0] != "MATCH_EXPR":
                continue
            arms = doraq.direct_match_arms(m)
            n = sum(1 for (_t, pat, _b) in arms for p in U.dora_pattern_paths(pat) if variant_of(p))
            if n >= 20 and (best is None or n > best[0]):
                best = (n, arms, f)
    if not r.anchor("boots: match over the INTRINSIC_* constants (intrinsic dispatch)", best):
        return None
    live, dead = set(), set()
    default_panics = None
    for (_txt, pat, body) in best[1]:
        for p in U.dora_pattern_paths(pat):
            if p == "_":
                default_panics = _dora_contains_panic(body)
                continue
            v = variant_of(p)
            if v is None:
                r.violation("%s:%s:unresolved" % (BOOTS_INTRINSICS, p), "arm pattern %s is not an INTRINSIC_* constant "
                            "of %s with a Rust Intrinsic of that number" % (p, BOOTS_OPCODES), best[2].where())
                continue
            (dead if U.dora_always_panics(body, fns) else live).add(v)
    # the guard in front of the dispatch: `fn is_intrinsic(i) { i >= 0 && i != opc::INTRINSIC_X }` — the named
    # constants are sent down the ordinary call path instead
    plain = set()
    guards = [f for f in doraq.functions(t, BOOTS_INTRINSICS) if f.body is not None and f.return_type() == "Bool"
              and len(f.params()) == 1]
    for f in guards:
        for n in doraq.walk(f.body):
            if n[0] == "BIN_EXPR" and any(doraq.is_tok(k) and k[1] == "!=" for k in doraq.kids(n)):
                for x in doraq.nodes(n):
                    v = variant_of(doraq.text(x)) if x[0] == "PATH_EXPR" else None
                    if v:
                        plain.add(v)
    return {"live": live, "dead": dead, "plain": plain, "default_panics": default_panics, "fn": best[2]}


def _dora_contains_panic(body):
    for cs in doraq.calls(body):
        if cs.recv is None and re.sub(r"\[.*\]$", "", cs.callee).split("::")[-1] in U.DORA_DIVERGES:
            return True
    return False


def _dora_fn_with_body(D, decl_path):
    """`pkg::Type#method` -> True when some `impl Type[..] { fn method .. { body } }` exists under pkgs/"""
    if not decl_path or "#" not in decl_path:
        return False
    ty, meth = decl_path.rsplit("#", 1)
    ty = ty.split(" for ")[-1].split("::")[-1]
    for fp, t in D.items():
        for f in doraq.functions(t, fp):
            if f.name == meth and f.container and re.sub(r"\[.*$", "", f.container.split(" for ")[-1]).split("::")[-1] == ty \
                    and f.body is not None:
                return True
    return False


# Reproducing programs for the defects known on the pinned tree (message text only; the rule does not depend on it)
REPRO = {
    "ArrayGet": "use std::traits::IndexGet; use std::string::Stringable; "
                "fn get_it[T: IndexGet[Index = Int64, Item = Int64]](x: T, i: Int64): Int64 { x.get(i) } "
                "fn main() { let a = Array[Int64]::new(1, 2, 3); println(get_it[Array[Int64]](a, 1).to_string()); }",
    "ArraySet": "use std::traits::IndexSet; "
                "fn set_it[T: IndexSet[Index = Int64, Item = Int64]](x: T, i: Int64, v: Int64) { x.set(i, v); } "
                "fn main() { let a = Array[Int64]::new(1, 2, 3); set_it[Array[Int64]](a, 1, 7); }",
    "CharEq": "fn eq[T: std::traits::Equals](a: T, b: T): Bool { a == b } "
              "fn main() { if eq[Char]('a', 'a') { println(\"eq\"); } }",
}


def _generic_repro(v, decl):
    if v in REPRO:
        return "reproduce with: " + REPRO[v]
    if " for " in decl and "#" in decl:
        tr, rest = decl.split(" for ", 1)
        ty, meth = rest.rsplit("#", 1)
        return ("reproduce with a function `fn f[T: %s](x: T, ..) { x.%s(..) }` instantiated as f[%s]"
                % (tr, meth, ty.split("::")[-1]))
    return "reproduce with a generic function bounded by the trait and instantiated with the implementing type"


def run_r3_intrinsics(r, F, D, bc, cc):
    fe = F.crate("dora_frontend")
    a = bc.adt(INTRINSIC)
    if not r.anchor(INTRINSIC, a):
        return
    variants = [v["name"] for v in a["variants"]]
    by_discr = {v["discr"]: v["name"] for v in a["variants"]}
    assigned, helpers = intrinsic_assignments(r, fe)
    r.anchor("front end: sites that attach an Intrinsic to a function", assigned)
    bops = bytecode_op_intrinsics(r, fe)
    cn = cannon_intrinsics(r, cc)
    bo = boots_intrinsics(r, D, by_discr)
    if bops is None or cn is None or bo is None or not assigned:
        return
    n_reach = 0
    for v in variants:
        sites = assigned.get(v)
        via_trait = bool(sites) and any(p is None or " for " in p for p in sites)
        # An intrinsic reaches a back end as an Invoke* of its function when the front end keeps the call
        # (emit_as_bytecode_operation is false), or when the function is a trait-impl method: a generic call
        # `T: Trait` is an InvokeGeneric* that the back end resolves to that method after specialisation.
        reaches = bool(sites) and (v not in bops or via_trait)
        c_ok = v in cn["live"]
        b_ok = v in bo["live"] or v in bo["plain"]
        key = "Intrinsic::%s" % v
        r.instance(key, nontrivial=True, sample={"intrinsic": v, "declared_on": sites, "bytecode_op": v in bops,
                                                 "reaches_backend": reaches, "baseline": c_ok, "boots": b_ok})
        if not sites:
            r.observe("Intrinsic::%s is never attached to a function by the front end (baseline %s, boots %s)"
                      % (v, "handles" if c_ok else "panics", "handles" if b_ok else "panics"))
            continue
        if not reaches:
            if c_ok != b_ok:
                r.observe("Intrinsic::%s cannot reach a back end (lowered to bytecode by the front end, declared on %s) "
                          "and only %s has an arm" % (v, sites, "the baseline" if c_ok else "boots"))
            continue
        n_reach += 1
        decl = next((p for p in sites if p), "a derived trait impl")
        how = "a direct call of " + decl
        if v in bops and via_trait:
            how = "a generic call through the trait; " + _generic_repro(v, decl)
        if not c_ok:
            r.violation("%s:baseline-panics" % key,
                        "Intrinsic::%s (%s) reaches the back end through %s, but CannonCodeGen's intrinsic dispatch "
                        "panics for it" % (v, decl, how), cn["where"])
        if not b_ok:
            r.violation("%s:boots-unhandled" % key,
                        "Intrinsic::%s (%s) reaches the back end through %s, but boots' emit_intrinsic has no arm for it%s"
                        % (v, decl, how, ": the catch-all stops with fatal_error(\"unknown intrinsic\")"
                           if bo["default_panics"] else ""), bo["fn"].where())
        if v in bo["plain"]:
            p = next((p for p in sites if p), None)
            ok = _dora_fn_with_body(D, p)
            r.instance(key + ":boots-plain-call", nontrivial=True, sample={"intrinsic": v, "declaration": p, "body": ok})
            r.observe("Intrinsic::%s: boots' is_intrinsic() excludes it, the call is compiled as an ordinary call of %s"
                      % (v, p))
            if not ok:
                r.violation(key + ":boots-plain-call:no-body", "boots compiles Intrinsic::%s as an ordinary call but "
                            "its declaration %s has no Dora body to call" % (v, p), bo["fn"].where())
    r.floor("Intrinsic variants", len(variants), 150)
    r.floor("intrinsics attached to a function by the front end", len(assigned), 150)
    r.floor("intrinsics that can reach a back end", n_reach, 100)
    r.floor("intrinsics with a live baseline arm", len(cn["live"]), 140)
    r.floor("intrinsics with a live boots arm", len(bo["live"]), 140)


def run_r3(chk, F):
    r = chk.rule("C02.R3", "every instruction/intrinsic the front end can produce has a live (non-panicking) handler "
                           "in the baseline and in the optimizing compiler; the dispatcher's visitor calls are all "
                           "overridden by CannonCodeGen")
    bc = F.crate(BC)
    cc = F.crate("dora_cannon_compiler")
    D = F.dora()
    base = run_r3_baseline(r, F, bc, cc)
    boots = run_r3_boots(r, F, D, base["variants"]) if base else None
    if base:
        run_r3_producer(r, F, bc, base, boots)
    run_r3_intrinsics(r, F, D, bc, cc)




# =============================================================================================== R4 ABI mirror

INTERFACE = "pkgs/boots/interface.dora"

# ABI-mirror struct pairs are found by name: `X` / `XLayout` in dora_compiler::abi  <->  repr(C) `X` in dora_runtime.
# Field-name aliases (reason: the Dora constant is named after the GC phase, the Rust field after what it stores):
FIELD_ALIAS = {"MARKING": "CONCURRENTMARKING"}


def _fields(a):
    return a["variants"][0]["fields"] if a and a.get("variants") else []


def mirror_pairs(dc, rt):
    """[(abi adt, runtime adt)]: non-generic struct `N`/`NLayout` of dora_compiler::abi and the repr(C) struct `N` of
    dora_runtime with at least two fields"""
    out = []
    rts = {}
    for a in rt.items["adts"]:
        if a["kind"] == "struct":
            rts.setdefault(last(a["path"]), []).append(a)
    for a in dc.items["adts"]:
        if a["kind"] != "struct" or not a["path"].startswith("dora_compiler::abi::"):
            continue
        n = last(a["path"])
        base = n[:-len("Layout")] if n.endswith("Layout") else n
        for b in rts.get(base, []):
            if len(_fields(a)) >= 2 and len(_fields(b)) >= 2:
                out.append((a, b))
    return out


def run_r4(chk, F):
    r = chk.rule("C02.R4", "the hand-mirrored ABI agrees: dora_compiler::abi layouts == dora_runtime layouts (field by "
                           "field) == the constants of pkgs/boots/interface.dora; trap codes, header sizes, size "
                           "limits, bit numbers and global states included")
    dc = F.crate("dora_compiler")
    rt = F.crate("dora_runtime")
    D = F.dora()
    crates = [dc, rt]
    it = D.get(INTERFACE)
    if not r.anchor(INTERFACE, it):
        return
    dconsts = {n: v for n, v in doraq.consts(it).items() if isinstance(v, int) and not isinstance(v, bool)}
    matched = set()

    # ---- struct mirrors
    pairs = mirror_pairs(dc, rt)
    names = {last(b["path"]) for (_a, b) in pairs}
    for need in ("ThreadLocalData", "Shape"):
        r.anchor("ABI mirror pair for " + need, need in names)
    tld = None
    for (a, b) in pairs:
        fa, fb = _fields(a), _fields(b)
        label = last(b["path"])
        if label == "ThreadLocalData":
            tld = fb
        where = "%s:%s" % (b.get("file"), b.get("line"))
        key = "%s:layout" % label
        r.instance(key, nontrivial=True, sample={"abi": a["path"], "runtime": b["path"], "abi_size": a.get("size"),
                                                 "runtime_size": b.get("size"), "fields": len(fb)})
        if not (a.get("repr_c") and b.get("repr_c")):
            r.violation(key + ":repr", "%s / %s must both be #[repr(C)] for their offsets to be comparable (abi %s, "
                        "runtime %s)" % (a["path"], b["path"], a.get("repr_c"), b.get("repr_c")), where)
        if len(fa) != len(fb):
            r.violation(key + ":field-count", "%s has %d fields, its ABI mirror %s has %d: compiled code and the runtime "
                        "disagree on the layout (abi: %s; runtime: %s)"
                        % (b["path"], len(fb), a["path"], len(fa), [f["name"] for f in fa], [f["name"] for f in fb]),
                        where)
        if a.get("size") != b.get("size"):
            r.violation(key + ":size", "size_of %s = %s but size_of %s = %s" % (a["path"], a.get("size"), b["path"],
                                                                                b.get("size")), where)
        for i, y in enumerate(fb):
            x = fa[i] if i < len(fa) else None
            fkey = "%s.%s" % (label, y["name"])
            r.instance(fkey, nontrivial=x is not None,
                       sample={"runtime": (y["name"], y.get("offset"), y.get("size")),
                               "abi": (x["name"], x.get("offset"), x.get("size")) if x else None})
            if x is None:
                continue
            if x["name"] != y["name"]:
                r.violation(fkey + ":name", "field #%d is `%s` in %s but `%s` in %s: the mirrors list their fields in a "
                            "different order" % (i, y["name"], b["path"], x["name"], a["path"]), where)
            if x.get("offset") is None or x.get("offset") != y.get("offset") or x.get("size") != y.get("size"):
                r.violation(fkey + ":offset", "%s.%s is at offset %s (size %s) but the ABI mirror places %s at %s (size %s): "
                            "code compiled against the mirror reads the wrong bytes"
                            % (label, y["name"], y.get("offset"), y.get("size"), x["name"], x.get("offset"),
                               x.get("size")), where)
    r.floor("ABI mirror struct pairs", len(pairs), 3)
    if tld is not None:
        r.floor("ThreadLocalData fields", len(tld), 8)

    # ---- THREAD_LOCAL_DATA_<FIELD>_OFFSET
    pre, suf = "THREAD_LOCAL_DATA_", "_OFFSET"
    if tld is not None:
        by_norm = {U.norm_name(f["name"]): f for f in tld}
        seen_fields = set()
        for n, v in sorted(dconsts.items()):
            if not (n.startswith(pre) and n.endswith(suf)):
                continue
            core = U.norm_name(n[len(pre):-len(suf)])
            f = by_norm.get(FIELD_ALIAS.get(core, core))
            key = "interface.dora:%s" % n
            r.instance(key, nontrivial=f is not None, sample={"dora": v, "field": f["name"] if f else None,
                                                              "offset": f.get("offset") if f else None})
            matched.add(n)
            if f is None:
                r.violation(key + ":no-field", "%s = %d names no field of dora_runtime::threads::ThreadLocalData" % (n, v),
                            INTERFACE)
                continue
            seen_fields.add(f["name"])
            if f.get("offset") != v:
                r.violation(key, "%s = %d but ThreadLocalData.%s is at offset %s: boots-compiled code addresses the "
                            "wrong thread-local slot" % (n, v, f["name"], f.get("offset")), INTERFACE)
        for f in tld:
            if f["name"] not in seen_fields:
                r.observe("ThreadLocalData.%s has no THREAD_LOCAL_DATA_*_OFFSET constant in interface.dora" % f["name"])
        r.floor("THREAD_LOCAL_DATA_*_OFFSET constants", len(seen_fields), 8)

    # ---- TRAP_<VARIANT>
    trap = dc.adt("abi::Trap")
    if r.anchor("dora_compiler::abi::Trap", trap):
        discr = {U.norm_name(v["name"]): v for v in trap["variants"]}
        seen = set()
        for n, v in sorted(dconsts.items()):
            if not n.startswith("TRAP_"):
                continue
            matched.add(n)
            var = discr.get(U.norm_name(n[len("TRAP_"):]))
            key = "interface.dora:%s" % n
            r.instance(key, nontrivial=var is not None, sample={"dora": v, "variant": var["name"] if var else None,
                                                                "discr": var.get("discr") if var else None})
            if var is None:
                r.violation(key + ":no-variant", "%s = %d names no variant of dora_compiler::abi::Trap" % (n, v), INTERFACE)
                continue
            seen.add(var["name"])
            if var.get("discr") != v:
                r.violation(key, "%s = %d but Trap::%s = %s: a boots-compiled trap reports the wrong error and exit code"
                            % (n, v, var["name"], var.get("discr")), INTERFACE)
        for var in trap["variants"]:
            if var["name"] not in seen:
                r.violation("interface.dora:TRAP_%s:missing" % var["name"], "Trap::%s has no TRAP_* constant in "
                            "interface.dora" % var["name"], INTERFACE)
        r.floor("Trap variants", len(trap["variants"]), 10)

    # ---- scalar facts with the same meaning (Dora constant -> how the Rust value is obtained)
    def rconst(crate, suffix):
        k = crate.const(suffix)
        return k.get("value") if k else None

    def rfn(path):
        return U.mir_const_eval(crates, path)
    hdr = rt.adt("mirror::Header")
    arr = rt.adt("mirror::Array")
    arr_hdr = None
    if arr is not None:
        sizes = [U.type_size(f["ty"], crates) for f in _fields(arr)]
        arr_hdr = sum(sizes) if all(s is not None for s in sizes) else None
    same = []       # (dora const, [(description, rust value)])
    same.append(("PTR_SIZE", [("dora_compiler::layout::ptr_width()", rfn("dora_compiler::layout::ptr_width")),
                              ("dora_runtime::mem::ptr_width()", rfn("dora_runtime::mem::ptr_width"))]))
    same.append(("OBJECT_HEADER_LENGTH", [("dora_compiler::abi::Header::size()", rfn("dora_compiler::abi::Header::size")),
                                          ("size_of dora_runtime::mirror::Header", hdr.get("size") if hdr else None)]))
    same.append(("ARRAY_HEADER_LENGTH", [("dora_compiler::abi::Header::array_size()",
                                          rfn("dora_compiler::abi::Header::array_size")),
                                         ("fields of dora_runtime::mirror::Array (header + length)", arr_hdr)]))
    same.append(("OBJECT_SHAPE_OFFSET", [("dora_compiler::abi::Header::offset_shape_word()",
                                          rfn("dora_compiler::abi::Header::offset_shape_word"))]))
    same.append(("OBJECT_METADATA_OFFSET", [("dora_compiler::abi::Header::offset_metadata_word()",
                                             rfn("dora_compiler::abi::Header::offset_metadata_word")),
                                            ("dora_runtime::mirror::METADATA_OFFSET", rconst(rt, "mirror::METADATA_OFFSET"))]))
    for n in ("MAX_TLAB_OBJECT_SIZE", "LARGE_OBJECT_SIZE"):
        vals = [("dora_compiler::abi::" + n, rconst(dc, "abi::" + n))]
        for k in rt.items["consts"]:
            if last(k["path"]) == n:
                vals.append((k["path"], k.get("value")))
        same.append((n, vals))
    # GLOBAL_STATE_<X> (Dora) names the same global-initialisation state as GLOBAL_<X> (abi.rs)
    for k in dc.items["consts"]:
        p = k["path"]
        if p.startswith("dora_compiler::abi::GLOBAL_"):
            same.append(("GLOBAL_STATE_" + last(p)[len("GLOBAL_"):], [(p, k.get("value"))]))
    # METADATA_<X>_BIT is a bit number inside the 32-bit metadata word; the Rust side numbers the same bit inside the
    # 64-bit header word: <X>_BIT_SHIFT == 8 * OBJECT_METADATA_OFFSET + METADATA_<X>_BIT
    meta_off = dconsts.get("OBJECT_METADATA_OFFSET")
    for n in sorted(dconsts):
        m = re.match(r"^METADATA_(\w+)_BIT$", n)
        if not m:
            continue
        vals = []
        for crate in crates:
            for k in crate.items["consts"]:
                if last(k["path"]) == m.group(1) + "_BIT_SHIFT" and isinstance(k.get("value"), int) \
                        and meta_off is not None:
                    vals.append(("%s - 8*OBJECT_METADATA_OFFSET" % k["path"], k["value"] - 8 * meta_off))
        same.append((n, vals))
    for (n, vals) in same:
        key = "interface.dora:%s" % n
        if n not in dconsts:
            r.instance(key, nontrivial=False)
            r.violation(key + ":missing", "interface.dora no longer declares %s (Rust side: %s)" % (n, vals), INTERFACE)
            continue
        matched.add(n)
        vals = [(d, v) for (d, v) in vals]
        r.instance(key, nontrivial=bool(vals), sample={"dora": dconsts[n], "rust": vals})
        if not vals or any(v is None for (_d, v) in vals):
            r.violation("ANALYSIS:" + key, "cannot obtain the Rust value for %s: %s" % (n, vals), INTERFACE)
            continue
        for (d, v) in vals:
            if v != dconsts[n]:
                r.violation(key, "%s = %d in interface.dora but %s = %d" % (n, dconsts[n], d, v), INTERFACE)
    # Rust <-> Rust: layout constants declared independently in dora_compiler::abi and dora_runtime under one name
    abi_consts = {last(k["path"]): k for k in dc.items["consts"] if k["path"].startswith("dora_compiler::abi::")
                  and isinstance(k.get("value"), int) and not isinstance(k.get("value"), bool)}
    n_same = 0
    for k in rt.items["consts"]:
        n = last(k["path"])
        if n in abi_consts and len(n) > 1 and isinstance(k.get("value"), int):
            n_same += 1
            key = "abi==runtime:%s" % n
            r.instance(key, nontrivial=True, sample={"abi": abi_consts[n]["value"], "runtime": k["value"],
                                                     "runtime_path": k["path"]})
            if abi_consts[n]["value"] != k["value"]:
                r.violation(key, "dora_compiler::abi::%s = %s but %s = %s" % (n, abi_consts[n]["value"], k["path"],
                                                                             k["value"]), k.get("file"))
    r.floor("same-named abi/runtime constants", n_same, 3)
    # other boots files: a constant with the name of a dora_compiler constant must have its value
    by_name = {}
    for k in dc.items["consts"]:
        if isinstance(k.get("value"), int) and not isinstance(k.get("value"), bool):
            by_name.setdefault(last(k["path"]), []).append(k)
    for fp, tree in sorted(D.items()):
        if not fp.startswith("pkgs/boots/") or fp == INTERFACE or fp == BOOTS_OPCODES or "/tests" in fp:
            continue
        for n, v in doraq.consts(tree).items():
            if isinstance(v, int) and not isinstance(v, bool) and len(n) > 2 and n in by_name:
                key = "%s:%s" % (fp, n)
                r.instance(key, nontrivial=True, sample={"dora": v, "rust": [(k["path"], k["value"]) for k in by_name[n]]})
                for k in by_name[n]:
                    if k["value"] != v:
                        r.violation(key, "%s = %d in %s but %s = %d" % (n, v, fp, k["path"], k["value"]), fp)
    unmatched = sorted(set(dconsts) - matched)
    if unmatched:
        r.observe("interface.dora constants with no Rust counterpart found (not compared): %s" % ", ".join(unmatched))
    r.floor("interface.dora constants compared", len(matched), 28)




# =============================================================================================== R5 inverse tables

TABLE_CRATES = ("dora_compiler", "dora_runtime", "dora_startup")

# Mirror enums: the writer's enum is `Aot<X>` in dora_compiler::aot, the reader builds `<X>` of the runtime.
# Variant aliases, each with the reason the names differ:
VARIANT_ALIAS = {
    # AotCodeKind::Optimized carries no payload; the runtime variant is OptimizedFct(FunctionId) and takes the id from
    # the separate fct_id column of the function table (startup.rs decode_code_kind(kind, fct_id))
    ("AotCodeKind", "Optimized"): "OptimizedFct",
}


def _enum_of_type(ty):
    ty = (ty or "").lstrip("&").strip()
    return re.sub(r"^mut ", "", ty)


def discover_tables(crates):
    """by signature and shape: decoders `fn(int, ..) -> Enum` and encoders `fn(Enum) -> int` whose body is a `match`
    table with >= 2 resolvable rows"""
    dec, enc = [], []
    for c in crates:
        for f in c.items["fns"]:
            ins = f.get("inputs") or []
            out = f.get("output") or ""
            if f["path"] not in c.hir or not ins:
                continue
            i0 = _enum_of_type(ins[0])
            if i0 in tables.INT_TYPES:
                t = tables.decode_table(c, f["path"], crates)
                rows = [x for x in t.rows if x.get("variant") and x["value"] != "_"]
                enums = {x["variant"].rsplit("::", 1)[0] for x in rows}
                if len(rows) >= 2 and len(enums) == 1:
                    dec.append({"crate": c, "fn": f, "enum": enums.pop(), "n": len(rows)})
            elif len(ins) == 1 and out in tables.INT_TYPES:
                t = tables.encode_table(c, f["path"], crates)
                rows = [x for x in t.rows if x.get("value") is not None and x["variant"] != "_"]
                vals = {x["value"] for x in rows}
                enums = {x["variant"].rsplit("::", 1)[0] for x in rows}
                if len(rows) >= 2 and len(enums) == 1 and len(vals) == len(rows) and not t.problems:
                    enc.append({"crate": c, "fn": f, "enum": enums.pop(), "n": len(rows)})
    return dec, enc


def _mirror_name(enum_path):
    n = last(enum_path)
    return n[3:] if n.startswith("Aot") and len(n) > 3 and n[3].isupper() else n


def check_tables_pair(r, label, enc, dec, alias_enum=None, enc_adt=None, floor=None):
    """enc / dec: tables.Table.  decode(encode(v)) == v arm by arm, pairing variants by name (VARIANT_ALIAS applied)."""
    for t in (enc, dec):
        for (k, msg) in t.problems:
            r.violation("%s:%s" % (label, k), msg, t.where())
    rows = {}
    byval = {}
    for x in enc.rows:
        if x.get("panics") or x.get("value") is None or x["variant"] == "_":
            continue
        n = last(x["variant"])
        rows[n] = x
        byval.setdefault(x["value"], []).append(n)
    for v, ns in sorted(byval.items(), key=lambda kv: str(kv[0])):
        for n in sorted(ns)[1:]:
            r.violation("%s:%s:encode-collision" % (label, n), "%s and %s both encode to %s" % (sorted(ns)[0], n, v),
                        enc.where())
    if enc_adt is not None:
        for var in enc_adt["variants"]:
            if var["name"] not in rows:
                r.violation("%s:%s:not-encoded" % (label, var["name"]), "%s::%s has no arm in the encoder table"
                            % (enc_adt["path"], var["name"]), enc.where())
    dby = {}
    for x in dec.rows:
        if x["value"] == "_":
            continue
        if x["value"] in dby:
            r.violation("%s:%s:duplicate-decoder-constant" % (label, x["cname"] or x["value"]),
                        "the decoder has two arms for %s" % x["value"], dec.where())
            continue
        dby[x["value"]] = x
    for n, x in sorted(rows.items()):
        d = dby.get(x["value"])
        want = VARIANT_ALIAS.get((alias_enum, n), n) if alias_enum else n
        key = "%s:%s" % (label, n)
        r.instance(key, nontrivial=True, sample={"table": label, "variant": n, "const": x.get("cname"),
                                                 "value": x["value"],
                                                 "decodes_to": last(d["variant"]) if d and d.get("variant") else None})
        if d is None:
            r.violation(key + ":no-decoder-arm", "encode(%s) = %s%s but the decoder has no arm for %s (its default %s)"
                        % (n, x["value"], " (%s)" % x["cname"] if x.get("cname") else "", x["value"],
                           {"panic": "panics", "err": "returns Err", "none": "returns None"}.get(dec.default, "applies")),
                        dec.where())
        elif d.get("rejects") or not d.get("variant"):
            r.violation(key + ":decoder-rejects", "encode(%s) = %s but the decoder rejects %s" % (n, x["value"],
                                                                                               x["value"]), dec.where())
        elif last(d["variant"]) != want:
            r.violation("%s:decodes-to-%s" % (key, last(d["variant"])),
                        "encode(%s) = %s%s but decode(%s) = %s: the value does not survive the round trip"
                        % (n, x["value"], " (%s)" % x["cname"] if x.get("cname") else "", x["value"],
                           last(d["variant"])), dec.where())
    if floor is not None:
        r.floor("%s encoder arms" % label, len(rows), floor)
        r.floor("%s decoder arms" % label, len(dby), floor)


def shape_kind_encoder(c, path, crates):
    """`match kind { ShapeKind::X.. => buffer.emit_u8(CONST) .. }`: the tag is the first byte the arm emits"""
    cidx = tables._const_index(crates)
    t = tables.Table(path)
    b = c.hir.get(path)
    if b is None:
        return t
    t.file, t.line = b.get("file"), b.get("line")
    m = tables._table_match(b)
    if m is None:
        return t
    t.found = True
    for (pat, guard, body) in hirq.match_arms(m):
        vs = hirq.pat_paths(pat)
        if not vs:
            if hirq.pat_is_wild(pat):
                t.default = "panic" if U.is_panic_expr(body) else None
            continue
        first = None
        for n in hirq.walk(body):          # pre-order = source order for statements of a block
            if n[0] == "mcall" and n[5]:
                first = n
                break
        val = tables.resolve_value(first[5][0], cidx) if first is not None else None
        for v in vs:
            if val is None:
                t.problems.append(("%s:unresolved-constant" % last(v), "arm %s does not start by emitting a constant tag"
                                   % last(v)))
            else:
                t.rows.append({"variant": v, "cname": val[0], "value": val[1], "how": first[3]})
    return t


def field_assign_decoder(c, path, crates):
    """`match entry.kind { 0 => rt.known.byte_array_shape = p, .. }`: the decoded 'variant' is the field assigned"""
    cidx = tables._const_index(crates)
    t = tables.Table(path)
    b = c.hir.get(path)
    if b is None:
        return t
    t.file, t.line = b.get("file"), b.get("line")
    best = None
    for n in hirq.walk(b["body"]):
        if n[0] != "match":
            continue
        k = sum(1 for (p, _g, bd) in hirq.match_arms(n) if tables._pat_values(p, cidx)
                and is_node(U._single(bd)) and U._single(bd)[0] == "assign")
        if k >= 2 and (best is None or k > best[0]):
            best = (k, n)
    if best is None:
        return t
    t.found = True
    for (pat, guard, body) in hirq.match_arms(best[1]):
        if hirq.pat_is_wild(pat):
            t.default = "panic" if U.is_panic_expr(body) else None
            continue
        vals = tables._pat_values(pat, cidx)
        e = U._single(body)
        if vals is None or not (is_node(e) and e[0] == "assign" and is_node(hirq.strip(e[1]))
                                and hirq.strip(e[1])[0] == "field"):
            t.problems.append(("pattern", "arm is not `<constant> => <place>.<field> = ..`"))
            continue
        for (cn, v) in vals:
            t.rows.append({"variant": "field::" + hirq.strip(e[1])[2], "cname": cn, "value": v})
    return t


def run_r5(chk, F):
    r = chk.rule("C02.R5", "number <-> enum conversion tables are inverse pairs: decode(encode(v)) == v arm by arm, "
                           "encoders are total and injective, mirror enums pair by variant name; the trap message "
                           "table names every Trap")
    crates = [F.crate(n) for n in TABLE_CRATES]
    dc, rt = crates[0], crates[1]
    dec, enc = discover_tables(crates)
    adts = {}
    for c in crates:
        for a in c.items["adts"]:
            adts.setdefault(a["path"], (c, a))
    used_enc = set()
    n_pairs = 0
    for d in sorted(dec, key=lambda x: x["fn"]["path"]):
        en = d["enum"]
        label = last(en)
        cands = [e for e in enc if e["enum"] == en] or \
                [e for e in enc if _mirror_name(e["enum"]) == last(en) and e["enum"] != en]
        dpath = d["fn"]["path"]
        if len(cands) > 1:
            r.violation("%s:ambiguous-encoder" % label, "decoder %s has several candidate encoders: %s"
                        % (dpath, [e["fn"]["path"] for e in cands]), None)
            continue
        n_pairs += 1
        if cands:
            e = cands[0]
            used_enc.add(e["fn"]["path"])
            ec, ea = adts.get(e["enum"], (e["crate"], None))
            if e["enum"] == en:
                tables.check_inverse_pair(r, e["crate"], e["fn"]["path"], dpath, label, const_crates=crates,
                                          enum_path=en, decode_crate=d["crate"], floor=d["n"] if d["n"] < 4 else 4)
            else:
                et = tables.encode_table(e["crate"], e["fn"]["path"], crates)
                dt = tables.decode_table(d["crate"], dpath, crates)
                check_tables_pair(r, "%s->%s" % (last(e["enum"]), label), et, dt, alias_enum=last(e["enum"]),
                                  enc_adt=ea, floor=4)
                # mirror enums: every writer-side variant name (after aliasing) exists on the reader side
                da = adts.get(en, (None, None))[1]
                if ea is not None and da is not None:
                    dn = {v["name"] for v in da["variants"]}
                    for v in ea["variants"]:
                        want = VARIANT_ALIAS.get((last(e["enum"]), v["name"]), v["name"])
                        if want not in dn:
                            r.violation("%s->%s:%s:no-mirror-variant" % (last(e["enum"]), label, v["name"]),
                                        "%s::%s has no counterpart %s::%s" % (e["enum"], v["name"], en, want), None)
        else:
            # no encoder function: the enum is written with `as uN`, i.e. its discriminants
            c0, a0 = adts.get(en, (None, None))
            if not r.anchor("enum %s (encoder of %s is `as` cast)" % (en, dpath), a0):
                continue
            tables.check_inverse_pair(r, c0, "discr:" + en, dpath, label, const_crates=crates, enum_path=en,
                                      decode_crate=d["crate"], floor=4)
    for e in enc:
        if e["fn"]["path"] not in used_enc and e["enum"].startswith("dora_compiler::aot::"):
            # AOT metadata writers without a `fn(int) -> Enum` reader: handled below or one-sided
            if last(e["fn"]["path"]) != "known_shape_kind_value":
                tables.check_encode_table(r, e["crate"], e["fn"]["path"], last(e["enum"]), const_crates=crates,
                                          enum_path=e["enum"])
                r.observe("%s has no decoder of the form fn(int) -> %s: checked one-sided (total, injective)"
                          % (e["fn"]["path"], last(e["enum"])))
    r.floor("decoder tables found by signature", len(dec), 5)

    # ---- shape kind: tag byte written first by encode_shape_kind, matched first by decode_shape_kind
    ep = "dora_compiler::aot::encode_shape_kind"
    dp = "dora_runtime::shape::decode_shape_kind"
    et = shape_kind_encoder(dc, ep, crates)
    dt = tables.decode_table(rt, dp, crates)
    if r.anchor(ep, et.found) and r.anchor(dp, dt.found):
        check_tables_pair(r, "ShapeKind", et, dt, enc_adt=dc.adt("aot::ShapeKind"), floor=9)
        n_pairs += 1
    # ---- known shape kind: number -> the `known.<x>_shape` slot that receives the shape
    ep = "dora_compiler::assembly::known_shape_kind_value"
    dp = "dora_runtime::startup::initialize_shapes"
    et = tables.encode_table(dc, ep, crates)
    dt = field_assign_decoder(rt, dp, crates)
    if r.anchor(ep, et.found) and r.anchor(dp + ": match that fills the known-shape slots", dt.found):
        # pair by name: AotKnownShapeKind::ByteArray <-> field byte_array_shape
        for x in dt.rows:
            f = x["variant"].split("::")[-1]
            x["variant"] = "field::" + "".join(p.capitalize() for p in re.sub(r"_shape$", "", f).split("_"))
        check_tables_pair(r, "AotKnownShapeKind", et, dt, enc_adt=dc.adt("aot::AotKnownShapeKind"), floor=8)
        n_pairs += 1
    r.floor("inverse table pairs", n_pairs, 7)

    # ---- trap message table: `match trap { Trap::X => "..", .. }` names every variant, no catch-all
    trap = dc.adt("abi::Trap")
    tp = "dora_runtime::stdlib::trap"
    b = rt.hir.get(tp)
    if r.anchor("dora_compiler::abi::Trap", trap) and r.anchor(tp, b):
        ms = U.matches_on(b["body"], trap["path"] + "::", min_arms=2)
        if r.anchor(tp + ": match over Trap", len(ms) >= 1):
            named, wild = {}, False
            for (pat, _g, body) in hirq.match_arms(ms[0]):
                ps = hirq.pat_paths(pat)
                if not ps and hirq.pat_is_wild(pat):
                    wild = True
                e = hirq.strip(body)
                for p in ps:
                    named[last(p)] = e[2] if is_node(e) and e[0] == "lit" and e[1] == "str" else None
            for v in trap["variants"]:
                key = "trap-message:%s" % v["name"]
                r.instance(key, nontrivial=True, sample={"trap": v["name"], "message": named.get(v["name"])})
                if v["name"] not in named:
                    r.violation(key, "stdlib::trap has no message arm for Trap::%s%s" % (
                        v["name"], " (it falls into the catch-all)" if wild else ""), _where(b))
                elif named[v["name"]] is None:
                    r.violation(key + ":not-a-message", "the arm for Trap::%s does not yield a message string"
                                % v["name"], _where(b))
            if wild:
                r.violation("trap-message:catch-all", "stdlib::trap's message table has a catch-all arm: a new Trap "
                            "would be reported with another trap's text", _where(b))
            msgs = [m for m in named.values() if m]
            if len(set(msgs)) != len(msgs):
                r.violation("trap-message:duplicate", "two traps share one message text", _where(b))
            # the decode feeding the table: Trap::try_from(id as u8)
            conv = tables.find_conversion_fns(dc, trap["path"])
            uses = []
            for blk in (rt.mir.get(tp) or {"blocks": []})["blocks"]:
                t = blk.get("t")
                if t and t[0] == "call" and isinstance(t[1].get("f"), list) and t[1]["f"][0] == "k":
                    fn = t[1]["f"][1].get("fn") or {}
                    if fn.get("r") in conv["decode"]:
                        uses.append(fn["r"])
            r.instance("trap-message:decoder-used", nontrivial=True, sample={"decoder": conv["decode"]})
            if not uses:
                r.violation("trap-message:decoder-used", "stdlib::trap no longer decodes its argument with %s"
                            % conv["decode"], _where(b))


def run_tables(chk, F):
    run_r3(chk, F)
    run_r4(chk, F)
    run_r5(chk, F)
    c02_natives.run_r7(chk, F)
    chk.assumptions += [
        "C02.R3: 'front end can emit' = resolved call sites of BytecodeWriter emit methods in dora_frontend whose "
        "holder is itself called; bytecode read from a package file written by another producer is not considered",
        "C02.R3: a handler counts as live when it is not a bare panic (directly or through one chain of single-call "
        "delegations); panics deeper inside a handler are not decided here",
        "C02.R4/R7: layouts and ABI classes are those of the host build (x86_64); cfg(target_arch=\"aarch64\") and "
        "cfg(windows) items are not in the facts",
        "C02.R7: ABI classes only (register class and width, handle vs direct pointer); which Rust mirror type a "
        "Handle<_> names (Str vs Array<u8>) is not compared with the Dora class",
    ]

"""C01.R6 — the context object of a loop body is allocated once per iteration.

Variables of a loop body that a lambda captures live in a heap context object which `enter_block_context` allocates
(`create_context` → `emit_new_object…`).  Closures created in different iterations keep *distinct* variables only if
that allocation is emitted inside the loop, i.e. after `emit_loop_start` and before the back edge `emit_jump_loop`;
hoisted in front of the loop head every iteration shares one object and every closure observes the last iteration's
values.  `for` and `while` lowering are siblings and must agree.

The context-allocating entry is derived, not named: a method of the generator that is called with the loop's
expression id and (transitively, depth ≤ 3, inside the generator) reaches a `emit_new_object*` emitter.
"""
import hirq


def last(p):
    return p.rsplit("::", 1)[-1]


def reaches_alloc(fe, path, depth=0, seen=None):
    seen = seen if seen is not None else set()
    if path in seen or depth > 3 or path not in fe.hir:
        return False
    seen.add(path)
    for n in hirq.walk(fe.hir[path]["body"]):
        if n[0] == "mcall" and n[3].startswith("emit_new_object"):
            return True
        callee = None
        if n[0] == "mcall" and n[2]:
            callee = n[2].replace("::<'a>", "")
        elif n[0] == "call" and hirq.is_node(n[2]) and n[2][:2] == ["def", "fn"]:
            callee = n[2][2]
        if callee:
            for q in (callee, n[2] if n[0] == "mcall" else callee):
                if q in fe.hir and "generator" in q and reaches_alloc(fe, q, depth + 1, seen):
                    return True
    return False


def resolve(fe, n):
    if n[0] != "mcall" or not n[2]:
        return None
    if n[2] in fe.hir:
        return n[2]
    nm = "::" + n[3]
    cands = [q for q in fe.hir if q.endswith(nm) and "generator" in q]
    return cands[0] if len(cands) == 1 else None


def run(chk, F):
    r = chk.rule("C01.R6", "loop lowering allocates the loop body's context object inside the loop: in every generator "
                           "function that emits a loop head, each call that allocates a context (reaches "
                           "emit_new_object*) for the loop's own expression id is a statement after emit_loop_start "
                           "and before the back edge emit_jump_loop (for/while siblings agree)")
    fe = F.crate("dora_frontend")
    n_loops = 0
    n_alloc = 0
    for p, b in sorted(fe.hir.items()):
        if "generator" not in p or b["body"][0] != "block":
            continue
        stmts = list(b["body"][1]) + ([b["body"][2]] if b["body"][2] is not None else [])

        def idx_of(pred):
            return [i for i, s in enumerate(stmts) if any(pred(n) for n in hirq.walk(s))]
        heads = idx_of(lambda n: n[0] == "mcall" and n[3] == "emit_loop_start")
        backs = idx_of(lambda n: n[0] == "mcall" and n[3] == "emit_jump_loop")
        if not heads:
            continue
        if "bytecode" in p and "expr" not in p:
            continue                      # the builder's own definition/tests of emit_loop_start
        n_loops += 1
        allocs = []
        for i, s in enumerate(stmts):
            for n in hirq.walk(s):
                q = resolve(fe, n)
                if q and "context" in last(q) and reaches_alloc(fe, q):
                    allocs.append((i, n))
        where = "%s:%d" % (b["file"], b["line"])
        if not r.anchor("%s: single loop head and back edge at statement level" % last(p),
                        len(heads) == 1 and len(backs) == 1 and heads[0] < backs[0]):
            continue
        r.instance("%s:context-allocation-inside-loop" % p, nontrivial=bool(allocs),
                   sample={"function": last(p), "loop_head_stmt": heads[0], "back_edge_stmt": backs[0],
                           "context_allocations": [(i, n[3]) for i, n in allocs]})
        n_alloc += 1 if allocs else 0
        for i, n in allocs:
            if not (heads[0] < i < backs[0]):
                r.violation("%s:%s:%s" % (p, n[3], "before-loop-head" if i <= heads[0] else "after-back-edge"),
                            "%s allocates the loop body's context object (%s) %s: all iterations share one context, "
                            "so lambdas created in different iterations that capture a loop variable all observe the "
                            "values of the last iteration (captured state and closure identity differ from the "
                            "language's per-iteration bindings)"
                            % (last(p), n[3], "before emit_loop_start" if i <= heads[0] else "after the back edge"),
                            "%s:%d" % (b["file"], n[1]))
    r.floor("loop-lowering functions", n_loops, 2)
    r.floor("loop-lowering functions that allocate a context", n_alloc, 2)

"""C15 helper: mod/effect summaries over the MIR facts and the order-(in)sensitivity analysis of the code that
consumes a hash-ordered iterator.

Two flow-insensitive points-to computations share one transfer function:
  * parameter domain  (roots = (param index, closure capture index|None)) → interprocedural summary
        W[f]  = {((param, capture), kind)}   memory reachable from that parameter may be written by f
                 kind 'h' = only through keyed hash/btree container operations, 'o' = anything else
        IO[f] = {'stdio', 'fs', 'process', ...}   D[f] = may report a frontend diagnostic
  * local domain (roots = MIR locals) → effects of a *region* (a loop body or a whole closure body) on state that
    outlives one iteration.
Everything is an over-approximation of "may write": a region without effects really has none.
"""
import re

import cfg

MUT_RE = re.compile(r"&mut |Mut\b|MutexGuard|WriteGuard|Entry<|Drain<")
# extern functions that take a mutable handle but only hand out a pointer derived from it (the write, if any, happens
# through the returned pointer, whose provenance is tracked)
PROJECTION = {"deref_mut", "deref", "as_mut", "as_mut_slice", "as_mut_ptr", "borrow_mut", "borrow", "get_mut",
              "index_mut", "index", "iter_mut", "values_mut", "last_mut", "first_mut", "unwrap", "expect",
              "as_deref_mut", "lock", "write", "read", "get", "as_ref", "into_mut", "get_mut_or_init",
              "unwrap_or_else", "ok_or", "into_iter", "iter", "len", "is_empty", "contains", "contains_key",
              "is_some", "is_none", "by_ref", "split_at_mut", "chunks_mut", "get_unchecked_mut", "as_slice"}
HASH_WRITE = {"insert", "remove", "entry", "or_insert", "or_insert_with", "or_insert_with_key", "or_default",
              "remove_entry", "take", "replace", "clear", "retain", "extend", "and_modify", "insert_entry"}
KEYED = ("std::collections::hash::", "alloc::collections::btree::")
INTERIOR = [
    (re.compile(r"^core::cell::Cell::<.*>::(set|replace|take|swap|update)$"), "Cell"),
    (re.compile(r"^core::cell::RefCell::<.*>::(replace|replace_with|swap|take)$"), "RefCell"),
    (re.compile(r"^core::cell::once::OnceCell::<.*>::(set|try_insert|get_or_init|get_or_try_init|take)$"), "OnceCell"),
    (re.compile(r"^std::sync::once_lock::OnceLock::<.*>::(set|try_insert|get_or_init|take)$"), "OnceLock"),
    (re.compile(r"^core::sync::atomic::Atomic\w*(::<.*>)?::(store|swap|fetch_\w+|compare_exchange\w*|"
                r"compare_and_swap)$"), "Atomic"),
]
IO_PREFIX = [
    ("std::io::stdio::_print", "stdio"), ("std::io::stdio::_eprint", "stdio"), ("std::io::stdio::print_to", "stdio"),
    ("std::fs::", "fs"), ("<std::fs::", "fs"), ("std::process::", "process"), ("<std::process::", "process"),
    ("std::env::set_var", "env"), ("std::env::remove_var", "env"), ("std::net::", "net"), ("<std::net::", "net"),
    ("std::io::Write::", "write"), ("<std::io::", "write"), ("std::thread::", "thread"),
]


def last(p):
    return p.rsplit("::", 1)[-1] if p else ""


def short(p):
    """stable, readable callee label: last two path segments without generic arguments"""
    if not p:
        return "?"
    q = re.sub(r"::<[^:]*?>(?=::|$)", "", p)
    q = re.sub(r"<[^<>]*>", "", q)
    q = re.sub(r"<[^<>]*>", "", q)
    parts = [x for x in q.split("::") if x]
    return "::".join(parts[-2:])


def is_keyed_container_fn(name):
    return bool(name) and any(k in name for k in KEYED)


def interior_write(name):
    for rx, what in INTERIOR:
        if rx.match(name or ""):
            return what
    return None


def io_kind(name):
    for pre, kind in IO_PREFIX:
        if name.startswith(pre):
            # reading from a Read impl etc. is not modelled separately; stdio/fs/process are what matters here
            return kind
    return None


def rvalue_places(rv):
    """places read by an rvalue"""
    k = rv[0]
    out = []

    def op(o):
        if o[0] in ("c", "m"):
            out.append(o[1])
    if k in ("use", "repeat"):
        op(rv[1])
    elif k == "ref":
        out.append(rv[2])
    elif k in ("rawptr", "discr", "len"):
        if isinstance(rv[1], list) and len(rv[1]) == 2 and isinstance(rv[1][0], int):
            out.append(rv[1])
    elif k == "cast":
        op(rv[2])
    elif k == "bin":
        op(rv[2])
        op(rv[3])
    elif k == "un":
        op(rv[2])
    elif k == "agg":
        for o in rv[2]:
            op(o)
    else:
        # unknown rvalue kinds: scan for operand-shaped children
        for x in rv[1:]:
            if isinstance(x, list) and len(x) == 2 and x[0] in ("c", "m") and isinstance(x[1], list):
                out.append(x[1])
    return out


def is_const_rvalue(rv):
    if rv[0] == "use" and rv[1][0] == "k":
        return True
    if rv[0] == "agg" and all(o[0] == "k" for o in rv[2]):
        return True
    return False


def fn_consts(x, out):
    if isinstance(x, list):
        if len(x) == 2 and x[0] == "k" and isinstance(x[1], dict):
            fn = x[1].get("fn")
            if fn:
                out.append(fn)
            return
        for c in x:
            fn_consts(c, out)


class BodyInfo:
    """per-body, domain independent: the list of events of the non-cleanup reachable blocks"""

    def __init__(self, B):
        self.B = B
        self.is_closure = "{closure" in B.path.rsplit("::", 1)[-1]
        self.events = []     # (kind, block, payload)
        reach = B.reachable(0)
        for bi, blk in enumerate(B.blocks):
            if blk["c"] or bi not in reach:
                continue
            for s in blk["s"]:
                if s[0] == "a":
                    place, rv = s[1], s[2]
                    if "*" in place[1]:
                        self.events.append(("w", bi, (place, rv)))
                    if rv[0] == "agg" and rv[1][0] in ("closure", "coroutine"):
                        self.events.append(("clos", bi, (rv[1][1], rv[2])))
                    fns = []
                    fn_consts(rv, fns)
                    for fn in fns:
                        self.events.append(("fref", bi, fn))
                elif s[0] in ("setdiscr", "copy_nonoverlapping"):
                    pl = s[1] if s[0] == "setdiscr" else None
                    if pl is not None and "*" in pl[1]:
                        self.events.append(("w", bi, (pl, ["use", ["m", pl]])))
                    elif s[0] == "copy_nonoverlapping":
                        self.events.append(("asm", bi, "copy_nonoverlapping"))
            t = blk["t"]
            if t[0] == "call":
                self.events.append(("call", bi, cfg.Call(B, bi, t[1])))
                fns = []
                fn_consts(t[1]["a"], fns)
                for fn in fns:
                    self.events.append(("fref", bi, fn))
            elif t[0] == "asm":
                self.events.append(("asm", bi, "asm"))

    def points_to(self, domain):
        """flow-insensitive may-point-to / derived-from sets.  domain 'param': roots (i, capture|None) seeded at
        the parameters; domain 'local': every local is its own root."""
        B = self.B
        n = len(B.locals)
        if domain == "param":
            PT = [set() for _ in range(n)]
            for i in range(1, B.argc + 1):
                PT[i].add((i, None))
        else:
            PT = [{i} for i in range(n)]
        clos = self.is_closure and domain == "param"

        def roots(place):
            b, proj = place
            if clos and b == 1:
                for p in proj:
                    if p.startswith(".") and p[1:].isdigit():
                        return {(1, int(p[1:]))}
                    if p != "*":
                        break
            return PT[b]
        changed = True
        rounds = 0
        while changed and rounds < 50:
            changed = False
            rounds += 1
            for blk in B.blocks:
                if blk["c"]:
                    continue
                for s in blk["s"]:
                    if s[0] != "a":
                        continue
                    x = s[1][0]
                    tgt = PT[x]
                    before = len(tgt)
                    for pl in rvalue_places(s[2]):
                        tgt |= roots(pl)
                        for p in pl[1]:
                            if p.startswith("[_"):
                                pass
                    if len(tgt) != before:
                        changed = True
                t = blk["t"]
                if t[0] == "call":
                    x = t[1]["d"][0]
                    tgt = PT[x]
                    before = len(tgt)
                    for a in t[1]["a"]:
                        if a[0] in ("c", "m"):
                            tgt |= roots(a[1])
                    f = t[1]["f"]
                    if f[0] in ("c", "m"):
                        tgt |= roots(f[1])
                    if len(tgt) != before:
                        changed = True
        self._roots = roots
        return PT, roots


class Effects:
    def __init__(self, cg, diag_base):
        self.cg = cg
        self.diag_base = diag_base          # {path: 'err'|'warn'}
        self.info = {}
        self.pt = {}
        self.W = {}
        self.IO = {}
        self.D = {}
        self._must_err = {}
        self._solve()

    # ---- per body ---------------------------------------------------------------
    def body_info(self, p):
        bi = self.info.get(p)
        if bi is None:
            B = self.cg.body(p)
            if B is None:
                return None
            bi = BodyInfo(B)
            self.info[p] = bi
        return bi

    def param_pt(self, p):
        r = self.pt.get(p)
        if r is None:
            r = self.body_info(p).points_to("param")
            self.pt[p] = r
        return r

    # ---- callee effects at a call -------------------------------------------------
    def extern_writes(self, B, call, name):
        """[(arg index, kind, label)] for a callee without analysable body"""
        out = []
        ln = last(name)
        iw = interior_write(name)
        if iw and call.args:
            out.append((0, "o", "%s::%s" % (iw, ln)))
        if ln in PROJECTION and not (is_keyed_container_fn(name) and ln in HASH_WRITE):
            return out
        keyed = is_keyed_container_fn(name) and ln in HASH_WRITE
        for i, a in enumerate(call.args):
            if a[0] not in ("c", "m"):
                continue
            ty = B.local_ty(a[1][0])
            if a[1][1]:
                # projected operand (rare): be conservative only for pointer-ish locals
                pass
            if MUT_RE.search(ty):
                out.append((i, "h" if (keyed and i == 0) else "o", short(name)))
        return out

    def call_effects(self, B, call):
        """→ (writes [(arg index | ('all',), kind, label)], io set, diag flag, labels of io)"""
        writes, io, diag = [], set(), None
        fn = call.fn
        if fn is None:
            for i, a in enumerate(call.args):
                if a[0] in ("c", "m") and MUT_RE.search(B.local_ty(a[1][0])):
                    writes.append((i, "o", "indirect-call"))
            f = call.t["f"]
            if f[0] in ("c", "m") and MUT_RE.search(B.local_ty(f[1][0])):
                writes.append(("f", "o", "indirect-call"))
            return writes, io, diag
        targets = self.cg.targets(fn)
        any_body = False
        for (t, kind) in targets:
            if t in self.diag_base:
                d = self.diag_base[t]
                diag = "err" if (d == "err" or diag == "err") else "warn"
                any_body = True
                continue
            if t in self.cg.bodies:
                any_body = True
                for ((j, k), wk) in self.W.get(t, ()):
                    ai = self.map_arg(call, t, j)
                    if ai is not None:
                        writes.append((ai, wk, short(t)))
                for x in self.IO.get(t, ()):
                    io.add((x, short(t)))
                d = self.D.get(t)
                if d:
                    diag = "err" if (d == "err" and diag in (None, "err")) else (diag or d)
            else:
                nm = t
                for w in self.extern_writes(B, call, nm):
                    writes.append(w)
                k = io_kind(nm)
                if k:
                    io.add((k, short(nm)))
        if not targets or not any_body and not writes:
            nm = call.name or call.decl or ""
            for w in self.extern_writes(B, call, nm):
                if w not in writes:
                    writes.append(w)
        return writes, io, diag

    @staticmethod
    def map_arg(call, target, j):
        n = len(call.args)
        if "{closure" in last(target) and (call.decl or "").startswith("core::ops::function::Fn"):
            if j == 1:
                return 0 if n > 0 else None
            return 1 if n > 1 else None
        return j - 1 if 0 <= j - 1 < n else None

    # ---- interprocedural fixpoint ----------------------------------------------------
    def _solve(self):
        cg = self.cg
        paths = sorted(cg.bodies)
        for p in paths:
            self.W[p] = set()
            self.IO[p] = set()
            self.D[p] = None
        # worklist over callers
        work = list(paths)
        inwork = set(paths)
        rounds = 0
        while work:
            p = work.pop()
            inwork.discard(p)
            rounds += 1
            if p in self.diag_base:
                self.D[p] = self.diag_base[p]
                continue
            w, io, d = self._eval(p)
            if w != self.W[p] or io != self.IO[p] or d != self.D[p]:
                self.W[p], self.IO[p], self.D[p] = w, io, d
                for q in cg.redges.get(p, ()):
                    if q in cg.bodies and q not in inwork:
                        inwork.add(q)
                        work.append(q)

    def _eval(self, p):
        bi = self.body_info(p)
        B = bi.B
        PT, roots = self.param_pt(p)
        W = set(self.W[p])
        IO = set(self.IO[p])
        D = self.D[p]
        for (kind, blk, pl) in bi.events:
            if kind == "w":
                place, rv = pl
                for r in roots(place):
                    W.add((r, "o"))
            elif kind == "call":
                call = pl
                writes, io, diag = self.call_effects(B, call)
                for (ai, wk, label) in writes:
                    if ai == "f":
                        f = call.t["f"]
                        rs = roots(f[1])
                    else:
                        a = call.args[ai]
                        if a[0] not in ("c", "m"):
                            continue
                        rs = roots(a[1])
                    for r in rs:
                        W.add((r, wk))
                if "*" in call.dest[1]:
                    for r in roots(call.dest):
                        W.add((r, "o"))
                for (x, lbl) in io:
                    IO.add(x)
                if diag:
                    D = "err" if (D in (None, "err") and diag == "err") else "warn" if D != "err" or diag != "err" else D
            elif kind == "clos":
                cpath, ops = pl
                for ((j, k), wk) in self.W.get(cpath, ()):
                    if j != 1:
                        continue
                    sel = [ops[k]] if (k is not None and k < len(ops)) else ops
                    for o in sel:
                        if o[0] in ("c", "m"):
                            for r in roots(o[1]):
                                W.add((r, wk))
                IO |= self.IO.get(cpath, set())
                if self.D.get(cpath):
                    D = D or self.D[cpath]
            elif kind == "fref":
                for (t, k2) in self.cg.targets(pl):
                    IO |= self.IO.get(t, set())
                    if self.D.get(t):
                        D = D or self.D[t]
            elif kind == "asm":
                IO.add("asm")
        # a 'h' write subsumed by an 'o' write of the same root
        for (r, wk) in list(W):
            if wk == "h" and (r, "o") in W:
                W.discard((r, "h"))
        return W, IO, D

    # ---- must-report-an-error ---------------------------------------------------------
    def must_err(self, p, stack=()):
        if self.diag_base.get(p) == "err":
            return True
        if p in self.diag_base:
            return False
        if p in self._must_err:
            return self._must_err[p]
        if p in stack or p not in self.cg.bodies:
            return False
        B = self.cg.body(p)
        res = False
        for c in B.calls:
            if self.call_must_err(c, stack + (p,)) and B.postdominates(c.block, 0):
                res = True
                break
        self._must_err[p] = res
        return res

    def call_must_err(self, call, stack=()):
        if call.fn is None:
            return False
        tg = self.cg.targets(call.fn)
        return bool(tg) and all(self.must_err(t, stack) for (t, k) in tg)

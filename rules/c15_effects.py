"""C15 helper: mod/effect summaries over the MIR facts, used to decide whether the code consuming a hash-ordered
iterator can make anything that outlives one iteration depend on the iteration order.

Abstract locations (flow-insensitive, per body):
    ('L', x)            the storage of MIR local x
    ('P', (i, k), lvl)  memory reachable from parameter i (k = closure capture index or None);
                        lvl 1 = what the parameter points to directly, lvl 2 = anything reached through further
                        pointers; for a closure capture lvl 0 = the capture slot inside the closure object itself
    ('E',)              an element handed out by the hash iterator under analysis (region analysis only)
PT[x] = locations the *value* of local x may point to (or be derived from).

Interprocedural summary (least fixpoint over the call graph):
    W[f]  = {((i, k), lvl, kind)}   f may write that region of its parameter; kind 'h' = only through keyed
                                    (hash/btree) container operations on it, 'o' = anything else
    IO[f] = {'stdio', 'fs', 'process', ...};  D[f] in (None, 'warn', 'err') = may report a frontend diagnostic
Everything over-approximates "may write", so a region reported without effects really has none (modulo `unsafe`
pointer arithmetic and Drop impls, which are not modelled).
"""
import re

import cfg

MUT_RE = re.compile(r"&mut |\*mut |Mut\b|MutexGuard|WriteGuard|Entry<|Drain<")
HANDLE_RE = re.compile(r"^(&mut |&)?(core::cell::Ref(Mut)?<|lock_api::\S*Guard<|std::sync::\S*Guard<|alloc::rc::Rc<|"
                       r"alloc::sync::Arc<|alloc::boxed::Box<|core::pin::Pin<)|^(&mut |&)(&mut |&)")
DEEP_RE = re.compile(r"/#\d|\bdyn\b")          # opaque generic parameter / trait object: may forward to a pointer
# extern functions that take a mutable handle but only hand out a pointer derived from it (the write, if any, happens
# through the returned pointer, whose provenance is tracked)
PROJECTION = {"deref_mut", "deref", "as_mut", "as_mut_slice", "as_mut_ptr", "borrow_mut", "borrow", "get_mut",
              "index_mut", "index", "iter_mut", "values_mut", "last_mut", "first_mut", "unwrap", "expect",
              "as_deref_mut", "lock", "write", "read", "get", "as_ref", "into_mut", "unwrap_or_else", "ok_or",
              "into_iter", "iter", "len", "is_empty", "contains", "contains_key", "is_some", "is_none", "by_ref",
              "split_at_mut", "chunks_mut", "get_unchecked_mut", "as_slice", "unwrap_unchecked", "as_ptr"}
HASH_WRITE = {"insert", "remove", "entry", "or_insert", "or_insert_with", "or_insert_with_key", "or_default",
              "remove_entry", "take", "replace", "clear", "retain", "extend", "insert_entry"}
KEYED = ("std::collections::hash::", "alloc::collections::btree::")
INTERIOR = [
    (re.compile(r"^core::cell::Cell::<.*>::(set|replace|take|swap|update)$"), "Cell"),
    (re.compile(r"^core::cell::RefCell::<.*>::(replace|replace_with|swap|take)$"), "RefCell"),
    (re.compile(r"^core::cell::once::OnceCell::<.*>::(set|try_insert|get_or_init|get_or_try_init|take)$"), "OnceCell"),
    (re.compile(r"^std::sync::once_lock::OnceLock::<.*>::(set|try_insert|get_or_init|take)$"), "OnceLock"),
    (re.compile(r"^core::sync::atomic::Atomic\w*(::<.*>)?::(store|swap|fetch_\w+|compare_exchange\w*|"
                r"compare_and_swap)$"), "Atomic"),
]
IO_PREFIX = [
    ("std::io::stdio::_print", "stdio"), ("std::io::stdio::_eprint", "stdio"), ("std::io::stdio::print_to", "stdio"),
    ("std::fs::", "fs"), ("<std::fs::", "fs"), ("std::process::", "process"), ("<std::process::", "process"),
    ("std::env::set_var", "env"), ("std::env::remove_var", "env"), ("std::net::", "net"), ("<std::net::", "net"),
    ("std::io::Write::", "write"), ("<std::io::", "write"), ("std::thread::", "thread"),
]


def last(p):
    return p.rsplit("::", 1)[-1] if p else ""


def dmax(a, b):
    """may-report lattice None < 'warn' < 'err'"""
    if a == "err" or b == "err":
        return "err"
    return a or b


def short(p):
    """stable, readable callee label: last two path segments without generic arguments"""
    if not p:
        return "?"
    q = p
    for _ in range(4):
        q = re.sub(r"<[^<>]*>", "", q)
    parts = [x for x in q.replace("::::", "::").split("::") if x and x not in (" as ",)]
    return "::".join(parts[-2:]).strip()


def is_keyed_container_fn(name):
    return bool(name) and any(k in name for k in KEYED)


def interior_write(name):
    for rx, what in INTERIOR:
        if rx.match(name or ""):
            return what
    return None


def io_kind(name):
    for pre, kind in IO_PREFIX:
        if name.startswith(pre):
            return kind
    return None


def is_const_rvalue(rv):
    if rv[0] == "use" and rv[1][0] == "k":
        return True
    if rv[0] == "agg" and all(o[0] == "k" for o in rv[2]):
        return True
    return False


def fn_consts(x, out):
    if isinstance(x, list):
        if len(x) == 2 and x[0] == "k" and isinstance(x[1], dict):
            fn = x[1].get("fn")
            if fn:
                out.append(fn)
            return
        for c in x:
            fn_consts(c, out)


def nderef(proj):
    return sum(1 for p in proj if p == "*")


PRIMS = {"usize", "isize", "u8", "u16", "u32", "u64", "u128", "i8", "i16", "i32", "i64", "i128", "bool", "char", "f32",
         "f64", "str"}
OWNED_STD = {"alloc::string::String", "alloc::vec::Vec", "core::option::Option", "core::result::Result",
             "alloc::boxed::Box", "std::path::PathBuf", "std::collections::hash::map::HashMap",
             "std::collections::hash::set::HashSet", "core::ops::range::Range", "core::ops::range::RangeInclusive",
             "alloc::alloc::Global", "std::hash::random::RandomState", "core::cmp::Ordering",
             "alloc::collections::btree::map::BTreeMap", "alloc::collections::btree::set::BTreeSet",
             "alloc::collections::vec_deque::VecDeque", "std::ffi::os_str::OsString", "core::time::Duration"}
PHANTOM_RE = re.compile(r"(id_arena::Id|core::marker::PhantomData)<[^<>]*(<[^<>]*(<[^<>]*>[^<>]*)*>[^<>]*)*>")
PATH_RE = re.compile(r"[A-Za-z_][A-Za-z0-9_]*(?:::[A-Za-z_][A-Za-z0-9_]*)*")


class Inert:
    """types whose values cannot hold a pointer into foreign memory (owned data only): storing into a local of such
    a type cannot create an alias of parameter memory"""

    def __init__(self, crates):
        self.adts = {}
        for c in crates:
            for a in c.items["adts"]:
                self.adts.setdefault(a["path"], a)
        self.memo = {}

    def inert(self, ty, depth=0):
        r = self.memo.get(ty)
        if r is not None:
            return r
        if depth > 12:
            return False
        self.memo[ty] = True            # optimistic for recursive ADTs (Box<Self>)
        r = self._inert(ty, depth)
        self.memo[ty] = r
        return r

    def _inert(self, ty, depth):
        if any(x in ty for x in ("&", "*", "'", "dyn ", "/#", "{closure", "fn(", "impl ", "Rc<", "Arc<", "{coroutine")):
            return False
        t = PHANTOM_RE.sub("usize", ty)
        for tok in PATH_RE.findall(t):
            if "::" not in tok:
                if tok in PRIMS:
                    continue
                return False
            if tok in OWNED_STD:
                continue
            a = self.adts.get(tok)
            if a is None:
                return False
            for v in a["variants"]:
                for f in v["fields"]:
                    if not self.inert(f["ty"], depth + 1):
                        return False
        return True


class BodyInfo:
    """per body: event list of the non-cleanup reachable blocks and the points-to solution"""

    def __init__(self, B, cuts=None, elem_params=(), inert=None):
        """cuts: call blocks whose result is an element source (tag 'E'); elem_params: parameters of a closure body
        that receive elements"""
        self.B = B
        self.no_ptr = [bool(inert and inert.inert(ty)) for (ty, _n) in B.locals]
        self.is_closure = "{closure" in last(B.path)
        self.cuts = set(cuts or ())
        self.elem_params = set(elem_params)
        self.events = []     # (kind, block, payload)
        reach = B.reachable(0)
        for bi, blk in enumerate(B.blocks):
            if blk["c"] or bi not in reach:
                continue
            for s in blk["s"]:
                if s[0] == "a":
                    place, rv = s[1], s[2]
                    if "*" in place[1]:
                        self.events.append(("w", bi, (place, rv)))
                    if rv[0] == "agg" and rv[1][0] in ("closure", "coroutine"):
                        self.events.append(("clos", bi, (rv[1][1], rv[2])))
                    fns = []
                    fn_consts(rv, fns)
                    for fn in fns:
                        self.events.append(("fref", bi, fn))
                elif s[0] == "setdiscr":
                    if "*" in s[1][1]:
                        self.events.append(("w", bi, (s[1], ["use", ["k", {}]])))
                elif s[0] == "copy_nonoverlapping":
                    self.events.append(("asm", bi, "copy_nonoverlapping"))
            t = blk["t"]
            if t[0] == "call":
                self.events.append(("call", bi, cfg.Call(B, bi, t[1])))
                fns = []
                fn_consts(t[1]["a"], fns)
                for fn in fns:
                    self.events.append(("fref", bi, fn))
            elif t[0] == "asm":
                self.events.append(("asm", bi, "asm"))
        self._solve()

    # ---- location algebra ---------------------------------------------------------
    def deref(self, tags):
        out = set()
        for t in tags:
            if t[0] == "P":
                out.add(("P", t[1], 2 if t[2] >= 1 else 1))
            elif t[0] == "L":
                out |= self.PT[t[1]]
            else:
                out.add(t)
        return out

    def closure_of(self, tags):
        out = set(tags)
        frontier = set(tags)
        for _ in range(64):
            nxt = self.deref(frontier) - out
            if not nxt:
                break
            out |= nxt
            frontier = nxt
        return out

    def locations(self, place):
        """abstract locations denoted by a place"""
        b, proj = place
        if self.is_closure and b == 1:
            # closure environment: split per capture
            k = None
            rest = None
            for i, p in enumerate(proj):
                if p == "*":
                    continue
                if p.startswith(".") and p[1:].isdigit():
                    k = int(p[1:])
                    rest = proj[i + 1:]
                break
            if k is not None:
                cur = {("P", (1, k), 0)}
                for _ in range(nderef(rest)):
                    cur = self.deref(cur)
                return cur
        cur = {("L", b)}
        for _ in range(nderef(proj)):
            cur = self.deref(cur)
        return cur

    def value(self, op_or_place, is_place=False):
        """tags of the value stored in a place / carried by an operand"""
        if not is_place:
            if op_or_place[0] not in ("c", "m"):
                return set()
            place = op_or_place[1]
        else:
            place = op_or_place
        return self.deref(self.locations(place))

    def rvalue_tags(self, rv):
        k = rv[0]
        out = set()
        if k in ("use", "repeat"):
            out |= self.value(rv[1])
        elif k == "ref":
            out |= self.locations(rv[2])
        elif k == "rawptr":
            pl = rv[1] if (isinstance(rv[1], list) and len(rv[1]) == 2 and isinstance(rv[1][0], int)) else rv[2]
            out |= self.locations(pl)
        elif k == "cast":
            out |= self.value(rv[2])
        elif k == "bin":
            out |= self.value(rv[2]) | self.value(rv[3])
        elif k == "un":
            out |= self.value(rv[2])
        elif k == "agg":
            for o in rv[2]:
                out |= self.value(o)
        elif k in ("discr", "len"):
            pass
        else:
            for x in rv[1:]:
                if isinstance(x, list) and len(x) == 2 and x[0] in ("c", "m") and isinstance(x[1], list):
                    out |= self.value(x)
        return out

    def _solve(self):
        B = self.B
        n = len(B.locals)
        self.PT = [set() for _ in range(n)]
        for i in range(1, B.argc + 1):
            if i in self.elem_params:
                self.PT[i].add(("E",))
            else:
                self.PT[i].add(("P", (i, None), 1))
        changed = True
        rounds = 0
        while changed and rounds < 60:
            changed = False
            rounds += 1
            for bi, blk in enumerate(B.blocks):
                if blk["c"]:
                    continue
                for s in blk["s"]:
                    if s[0] != "a":
                        continue
                    v = self.rvalue_tags(s[2])
                    if not v:
                        continue
                    if self._store(s[1], v):
                        changed = True
                t = blk["t"]
                if t[0] == "call":
                    c = t[1]
                    if bi in self.cuts:
                        v = {("E",)}
                    else:
                        v = set()
                        for a in c["a"]:
                            v |= self.value(a)
                        if c["f"][0] in ("c", "m"):
                            v |= self.value(c["f"])
                        fn = cfg.callee_of(c["f"])
                        nm = cfg.callee_name(fn) or ""
                        if not (nm and not nm.lstrip("<&'a mut").startswith("dora") and last(nm) in PROJECTION):
                            # anything but a std projection may return a pointer loaded from deeper inside its arguments
                            v = self.closure_of(v)
                        elif c["a"] and c["a"][0][0] in ("c", "m") and \
                                HANDLE_RE.match(B.locals[c["a"][0][1][0]][0]):
                            # projecting through a guard / smart pointer yields a pointer into what the handle refers to
                            v = v | self.deref(v)
                    if v and self._store(c["d"], v):
                        changed = True

    def _store(self, place, v):
        ch = False
        if nderef(place[1]) == 0:
            tgt = self.PT[place[0]]
            if self.no_ptr[place[0]]:
                return False
            if not v <= tgt:
                tgt |= v
                ch = True
        else:
            for loc in self.locations(place):
                if loc[0] == "L" and not self.no_ptr[loc[1]]:
                    tgt = self.PT[loc[1]]
                    if not v <= tgt:
                        tgt |= v
                        ch = True
        return ch


class Effects:
    def __init__(self, cg, diag_base):
        self.cg = cg
        self.diag_base = diag_base          # {path: 'err'|'warn'}
        self.info = {}
        self.W = {}
        self.IO = {}
        self.D = {}
        self._must_err = {}
        self.why = {}                       # (fn, region) -> label of the first write found (messages only)
        self.inert = Inert(cg.crates)
        self._solve()

    def body_info(self, p):
        bi = self.info.get(p)
        if bi is None:
            B = self.cg.body(p)
            if B is None:
                return None
            bi = BodyInfo(B, inert=self.inert)
            self.info[p] = bi
        return bi

    # ---- effects of one call, relative to the caller's BodyInfo ----------------------
    def extern_writes(self, B, call, name):
        """[(arg index|'f', levels, kind, label)] for a callee without analysable body"""
        out = []
        ln = last(name)
        iw = interior_write(name)
        if iw and call.args:
            out.append((0, (1,), "o", "%s::%s" % (iw, ln)))
        keyed = is_keyed_container_fn(name) and ln in HASH_WRITE
        if ln in PROJECTION and not keyed:
            return out
        for i, a in enumerate(call.args):
            if a[0] not in ("c", "m"):
                continue
            ty = B.local_ty(a[1][0])
            m = MUT_RE.findall(ty)
            if not m:
                continue
            deep = len(m) >= 2 or bool(DEEP_RE.search(ty))
            out.append((i, (1, 2) if deep else (1,), "h" if (keyed and i == 0) else "o", short(name)))
        return out

    def call_effects(self, B, call):
        """→ (writes [(arg index|'f', levels, kind, label)], io {(kind, label)}, diag)"""
        writes, io, diag = [], set(), None
        fn = call.fn
        if fn is None:
            for i, a in enumerate(call.args):
                if a[0] in ("c", "m") and MUT_RE.search(B.local_ty(a[1][0])):
                    writes.append((i, (1, 2), "o", "indirect-call"))
            f = call.t["f"]
            if f[0] in ("c", "m"):
                writes.append(("f", (1, 2), "o", "indirect-call"))
            return writes, io, diag
        targets = self.cg.targets(fn)
        if not targets:
            targets = [(call.name or call.decl or "", "call")]
        for (t, kind) in targets:
            if t in self.diag_base:
                diag = dmax(diag, self.diag_base[t])
                continue
            if t in self.cg.bodies:
                for ((j, k), lvl, wk) in self.W.get(t, ()):
                    ai = self.map_arg(call, t, j)
                    if ai is not None:
                        writes.append((ai, (lvl,), wk, short(t)))
                for x in self.IO.get(t, ()):
                    io.add((x, short(t)))
                diag = dmax(diag, self.D.get(t))
            else:
                for w in self.extern_writes(B, call, t):
                    if w not in writes:
                        writes.append(w)
                k = io_kind(t)
                if k:
                    io.add((k, short(t)))
        return writes, io, diag

    @staticmethod
    def map_arg(call, target, j):
        n = len(call.args)
        if "{closure" in last(target) and (call.decl or "").startswith("core::ops::function::Fn"):
            if j == 1:
                return 0 if n > 0 else None
            return 1 if n > 1 else None
        return j - 1 if 0 <= j - 1 < n else None

    def written_locations(self, bi, call, w):
        """abstract locations (caller side) written by one (arg, levels, kind, label) entry"""
        ai, levels = w[0], w[1]
        op = call.t["f"] if ai == "f" else call.args[ai]
        if op[0] not in ("c", "m"):
            return set()
        T = bi.value(op)
        out = set()
        for lvl in levels:
            if lvl <= 1:
                out |= T
            else:
                out |= bi.closure_of(bi.deref(T))
        return out

    def closure_written(self, bi, cpath, ops):
        """locations written by constructing-and-calling closure cpath with capture operands ops → [(loc, kind)]"""
        out = []
        for ((j, k), lvl, wk) in self.W.get(cpath, ()):
            if j != 1 or lvl == 0:
                continue
            sel = [ops[k]] if (k is not None and k < len(ops)) else ops
            for o in sel:
                if o[0] not in ("c", "m"):
                    continue
                T = bi.value(o)
                locs = T if (lvl == 1 and k is not None) else (T | bi.closure_of(bi.deref(T)))
                for loc in locs:
                    out.append((loc, wk))
        return out

    # ---- interprocedural fixpoint ----------------------------------------------------
    def _solve(self):
        cg = self.cg
        paths = sorted(cg.bodies)
        for p in paths:
            self.W[p] = set()
            self.IO[p] = set()
            self.D[p] = None
        work = list(paths)
        inwork = set(paths)
        while work:
            p = work.pop()
            inwork.discard(p)
            if p in self.diag_base:
                self.D[p] = self.diag_base[p]
                continue
            w, io, d = self._eval(p)
            if w != self.W[p] or io != self.IO[p] or d != self.D[p]:
                self.W[p], self.IO[p], self.D[p] = w, io, d
                for q in cg.redges.get(p, ()):
                    if q in cg.bodies and q not in inwork:
                        inwork.add(q)
                        work.append(q)

    def _eval(self, p):
        bi = self.body_info(p)
        B = bi.B
        W = set(self.W[p])
        IO = set(self.IO[p])
        D = self.D[p]

        def add(loc, wk, label):
            if loc[0] == "P":
                W.add((loc[1], loc[2], wk))
                self.why.setdefault((p, loc[1], loc[2]), label)
        for (kind, blk, pl) in bi.events:
            if kind == "w":
                place, rv = pl
                for loc in bi.locations(place):
                    add(loc, "o", "store@bb%d" % blk)
            elif kind == "call":
                call = pl
                writes, io, diag = self.call_effects(B, call)
                for w in writes:
                    for loc in self.written_locations(bi, call, w):
                        add(loc, w[2], "%s@%d" % (w[3], call.line))
                if "*" in call.dest[1]:
                    for loc in bi.locations(call.dest):
                        add(loc, "o", "calldest@%d" % call.line)
                for (x, lbl) in io:
                    IO.add(x)
                D = dmax(D, diag)
            elif kind == "clos":
                cpath, ops = pl
                for (loc, wk) in self.closure_written(bi, cpath, ops):
                    add(loc, wk, "closure %s" % short(cpath))
                IO |= self.IO.get(cpath, set())
                D = dmax(D, self.D.get(cpath))
            elif kind == "fref":
                for (t, k2) in self.cg.targets(pl):
                    IO |= self.IO.get(t, set())
                    D = dmax(D, self.D.get(t))
            elif kind == "asm":
                IO.add("asm")
        for (r, lvl, wk) in list(W):
            if wk == "h" and (r, lvl, "o") in W:
                W.discard((r, lvl, "h"))
        return W, IO, D

    # ---- must-report-an-error ---------------------------------------------------------
    def must_err(self, p, stack=()):
        if self.diag_base.get(p) == "err":
            return True
        if p in self.diag_base:
            return False
        if p in self._must_err:
            return self._must_err[p]
        if p in stack or p not in self.cg.bodies:
            return False
        B = self.cg.body(p)
        res = False
        for c in B.calls:
            if self.call_must_err(c, stack + (p,)) and B.postdominates(c.block, 0):
                res = True
                break
        self._must_err[p] = res
        return res

    def call_must_err(self, call, stack=()):
        if call.fn is None:
            return False
        tg = self.cg.targets(call.fn)
        return bool(tg) and all(self.must_err(t, stack) for (t, k) in tg)

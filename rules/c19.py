"""C19 — distinct functions get distinct, valid linker symbols (structural, partial).

    C19.R1  alphabet: everything `dora_symbol`'s encoder can append to a symbol (abstract interpretation of its MIR
            over byte sets) and every literal piece / hex digit of the shortened form is in [A-Za-z0-9_]
    C19.R2  encoder/decoder agreement: the per-byte code is prefix-free (⇒ the encoder is injective on all strings),
            escapes have a fixed shape, and the decoder maps every codeword back to its byte
    C19.R3  the shortened form: hash over the whole mangled symbol, prefix+suffix layout, length guard, hash folds
            every byte, suffix marker can never be a valid escape
    C19.R4  provenance: every string that reaches a global-symbol writer of the assembly emitter is a direct result of
            the dora_symbol encoder (AOT function symbols: the length-capped variant) or a fixed literal in the
            alphabet that the encoder cannot produce; no post-processing
    C19.R5  the display name that is mangled depends on every identity field of the compiled-function target

Static analysis only: MIR/HIR facts of dora_symbol and dora_compiler.  rules/c19_absint.py is the abstract interpreter,
rules/c19_prov.py the provenance tracer used by R4.
"""
import re

import cfg
import facts
import hirq
from rules import c19_absint as A
from rules import c19_prov as PV

ALPHABET = set(b"ABCDEFGHIJKLMNOPQRSTUVWXYZabcdefghijklmnopqrstuvwxyz0123456789_")
# ^ frozen: the characters GNU as, LLVM's integrated assembler, Mach-O as and MASM all accept in an unquoted symbol
#   (`$`, `.`, `@`, `?` are each special for at least one of them).  Knowledge about assemblers, not about /repo.
MASM_IDENT_MAX = 247   # frozen: ML64 rejects identifiers longer than 247 characters (error A2043)


def _analysis(r, key, msg, where=None):
    full = "ANALYSIS:%s:%s" % (r.name, key)
    if not any(v[0] == full for v in r.violations):
        r.violations.append((full, msg, where))


def ch(b):
    return "0x%02X%s" % (b, " %r" % chr(b) if 32 <= b < 127 else "")


def word(w):
    return "".join(chr(c) if 32 <= c < 127 else "\\x%02X" % c for c in w)


def short(p):
    return p.rsplit("::", 1)[-1]


# ================================================================================================ locating by role

class Roles:
    """dora_symbol's functions, found by what they do rather than by name"""

    def __init__(self, F):
        self.cs = F.crate("dora_symbol")
        self.cc = F.crate("dora_compiler")
        self.fns = {f["path"]: f for f in self.cs.items["fns"]}
        self.sym_callers = {}       # dora_symbol fn -> [(dora_compiler fn, Call)]
        for p, mb in self.cc.mir.items():
            for c in cfg.Body(mb).calls:
                if c.name and c.name.startswith("dora_symbol::"):
                    self.sym_callers.setdefault(c.name, []).append((p, c))
        self.capped = self.enc = self.hashfn = self.dec = self.short = self.cap_const = None
        # CAPPED: the dora_symbol function with a usize parameter returning String that dora_compiler calls
        for p in sorted(self.sym_callers):
            f = self.fns.get(p)
            if f and f["output"].endswith("String") and "usize" in f["inputs"] and p in self.cs.mir:
                self.capped = p
        if self.capped:
            B = cfg.Body(self.cs.mir[self.capped])
            for c in B.calls:
                f = self.fns.get(c.name)
                if not f or c.name == self.capped:
                    continue
                if f["output"].endswith("String") and f["inputs"] == ["&str"]:
                    self.enc = c.name
                elif f["output"] in A.BITS:
                    self.hashfn = c.name
            # SHORT: the dora_compiler function that calls CAPPED with a constant cap
            for (p, c) in self.sym_callers.get(self.capped, []):
                if len(c.args) == 2 and c.args[1][0] == "k" and "v" in c.args[1][1]:
                    self.short = p
                    self.cap_const = c.args[1][1]
        # DEC: the public dora_symbol function &str -> Option<String>
        for p, f in sorted(self.fns.items()):
            if f["pub"] and f["inputs"] == ["&str"] and re.match(r"^core::option::Option<.*String>$", f["output"]) \
                    and p in self.cs.mir:
                self.dec = p

    def const_str(self, path):
        """literal of a `const X: &str = "...";` item (rsfacts records values of scalar consts only: the initialiser
        is read from the line the facts point at; anything but a plain literal ⇒ None ⇒ analysis failure upstream)"""
        for crate in (self.cs, self.cc):
            for k in crate.items["consts"]:
                if k["path"] == path and k.get("file"):
                    try:
                        lines = facts.read_repo(k["file"]).splitlines()
                    except OSError:
                        return None
                    ln = k.get("line", 0)
                    if not 0 < ln <= len(lines):
                        return None
                    m = re.search(r"\bconst\s+%s\s*:\s*&\s*(?:'static\s+)?str\s*=\s*\"((?:[^\"\\]|\\.)*)\"\s*;"
                                  % re.escape(short(path)), lines[ln - 1])
                    if not m or "\\" in m.group(1):
                        return None
                    return m.group(1)
        return None


# ================================================================================================ encoder summary

class AnalysisFailure(Exception):
    pass


class EncSummary:
    """prefix + per-byte code word of the encoder loop + tail"""

    def __init__(self):
        self.prefix = b""
        self.prefix_const = None
        self.table = {}        # byte -> tuple of char codes
        self.tail = b""
        self.diverges = set()  # bytes for which the loop body panics
        self.npaths = 0


def _lit_bytes(res, ev):
    """bytes appended by a push/push_str event, or None"""
    if ev[0] == "push_str":
        v = ev[2]
        return v[1] if v != A.TOP and v[0] == "str" else None
    s = res.set_of(ev[2]) if ev[2] != A.TOP else None
    if s is None or len(s) != 1:
        return None
    c = next(iter(s))
    return bytes([c]) if c < 256 else None


WHOLE_VIEWS = ("bytes", "into_iter", "iter", "as_bytes", "copied", "cloned", "deref", "as_str", "as_ref", "by_ref")
# ^ std iterator/view constructors that present every byte of their receiver, in order


def summarise_encoder(it, path):
    try:
        paths = it.run(path)
    except A.Unsupported as e:
        raise AnalysisFailure(str(e))
    S = EncSummary()
    S.npaths = len(paths)
    rets = [p for p in paths if p.kind == "ret"]
    if not rets:
        raise AnalysisFailure("no returning path")
    result = set()
    for p in rets:
        if p.value == A.TOP or p.value[0] != "obj":
            raise AnalysisFailure("the returned string is not an object the interpreter tracked")
        result.add(p.value[1])
    if len(result) != 1:
        raise AnalysisFailure("more than one result object")
    for p in rets:
        org = p.objs.get(next(iter(result)), (None, ("?",), ()))[1]
        if org[0] != "new":
            raise AnalysisFailure("the result string is created by %s, which the interpreter has no model for"
                                  % (org[1] if len(org) > 1 else org[0]))
    for p in paths:
        if len(A.loop_enters(p)) > 1:
            raise AnalysisFailure("more than one loop on a path")
        for e in p.events:
            if e[0] == "call" and set(e[3]) & result:
                raise AnalysisFailure("the result string is handed to %s, which the interpreter has no model for "
                                      "(e.g. a write!/format! based escape)" % e[1])
            if e[0] in ("push", "push_str") and e[1] is None:
                raise AnalysisFailure("append to an unknown string at line %s" % e[3])
    pre = None
    for p in paths:
        evs = p.events
        i = [k for k, e in enumerate(evs) if e[0] == "loop_enter"]
        head = evs[:i[0]] if i else (evs if p.kind == "ret" else None)
        if head is None:
            continue
        lits = []
        for e in head:
            if e[0] in ("push", "push_str") and e[1] in result:
                b = _lit_bytes(p, e)
                if b is None:
                    raise AnalysisFailure("cannot bound what is appended before the loop (line %s)" % e[3])
                lits.append(b)
                if e[0] == "push_str" and e[2][2]:
                    S.prefix_const = e[2][2]
        cur = b"".join(lits)
        if i or p.kind == "ret":
            if pre is not None and i and pre != cur:
                raise AnalysisFailure("different prefixes on different paths")
            if i:
                pre = cur
    S.prefix = pre if pre is not None else b""
    for p in paths:
        evs = A.after_loop_enter(p)
        if evs is None:
            continue
        pushes = [e for e in evs if e[0] in ("push", "push_str") and e[1] in result]
        inputs = [e for e in evs if e[0] == "input"]
        if p.kind == "ret":
            tail = []
            for e in pushes:
                b = _lit_bytes(p, e)
                if b is None:
                    raise AnalysisFailure("cannot bound what is appended after the loop")
                tail.append(b)
            S.tail = b"".join(tail)
            continue
        if len(inputs) != 1:
            if p.kind == "diverge":
                continue
            raise AnalysisFailure("an iteration consumes %d input bytes" % len(inputs))
        src = inputs[0][2]
        chain = []
        while src is not None and src in p.objs and p.objs[src][1][0] == "view":
            chain.append(p.objs[src][1][1])
            par = p.objs[src][2]
            src = par[0] if len(par) == 1 else None
        if src is None or src not in p.objs or p.objs[src][1][:1] != ("unknown",) or \
                p.objs[src][1][1:2] != ("param",) or any(v not in WHOLE_VIEWS for v in chain):
            raise AnalysisFailure("the loop does not iterate over the whole name parameter (iterator built by %s)"
                                  % (" <- ".join(chain) or "?"))
        var = inputs[0][1]
        dom = p.pc[var]
        if p.kind == "diverge":
            S.diverges |= set(dom)
            continue
        w = []
        for e in pushes:
            if e[0] == "push" and e[2] != A.TOP and e[2][0] == "var" and e[2][1] == var:
                w.append(None)            # the input byte itself
                continue
            b = _lit_bytes(p, e)
            if b is None:
                raise AnalysisFailure("cannot bound the character appended at line %s" % e[3])
            w.extend(b)
        for b in dom:
            cw = tuple(b if x is None else x for x in w)
            if b in S.table and S.table[b] != cw:
                raise AnalysisFailure("two different codes for byte %s" % ch(b))
            S.table[b] = cw
    return S


# ================================================================================================ decoder summary

class DecEntry:
    def __init__(self):
        self.reads = {}      # offset -> set of accepted bytes
        self.absent = set()  # offsets the decoder found to be past the end
        self.pushes = []     # ('pass', offset) | ('const', value)
        self.advance = None  # int | 'reject'


class DecSummary:
    def __init__(self):
        self.entries = []
        self.prefix = None
        self.prefix_const = None
        self.exit_ok = False
        self.npaths = 0


def summarise_decoder(it, path):
    try:
        paths = it.run(path)
    except A.Unsupported as e:
        raise AnalysisFailure(str(e))
    D = DecSummary()
    D.npaths = len(paths)
    sink = None
    for p in paths:
        if len(A.loop_enters(p)) > 1:
            raise AnalysisFailure("more than one loop on a path")
        for e in p.events:
            if e[0] == "strip_prefix":
                v = e[1]
                if v == A.TOP or v[0] != "str":
                    raise AnalysisFailure("prefix stripped by the decoder is not a known literal")
                D.prefix, D.prefix_const = v[1], v[2]
    # the vector the decoder pushes to must be what the loop-exit path turns into the result
    for p in paths:
        evs = A.after_loop_enter(p)
        if evs is None or p.kind != "ret" or p.value == A.TOP or p.value[0] != "obj":
            continue
        if any(k[1] == "cell" for k in p.pc):
            continue
        anc = p.ancestors(p.value[1])
        targets = {e[1] for q in paths for e in q.events if e[0] == "push"}
        if targets and targets <= anc:
            D.exit_ok = True
            sink = targets
    if sink is None:
        raise AnalysisFailure("no loop-exit path returns (a function of) the vector the loop pushes to")
    for p in paths:
        evs = A.after_loop_enter(p)
        if evs is None or p.kind == "diverge":
            continue
        cells = {}
        base = None
        for k, dom in p.pc.items():
            if k[1] == "cell" and k[3][0] == "rel":
                cells[k] = (k[3][2], set(dom))
                base = k[3][1]
            elif k[1] == "cell":
                raise AnalysisFailure("the decoder reads an absolute position inside its loop")
        if not cells:
            continue
        E = DecEntry()
        for k, (off, dom) in cells.items():
            E.reads[off] = dom
        for k, dom in p.pc.items():
            if k[1] == "choice" and isinstance(k[-1], tuple) and k[-1][0] == "present" and set(dom) == {0}:
                kk = k[-1][2]
                if kk is None or kk[0] != "rel":
                    raise AnalysisFailure("bounds probe at an untracked position")
                E.absent.add(kk[2])
        for e in evs:
            if e[0] != "push":
                continue
            v = e[2]
            if v != A.TOP and v[0] == "var" and v[1] in cells:
                E.pushes.append(("pass", cells[v[1]][0]))
            elif v != A.TOP and v[0] == "i":
                E.pushes.append(("const", v[2]))
            elif v != A.TOP and v[0] == "var":
                s = p.pc[v[1]]
                if len(s) != 1:
                    raise AnalysisFailure("decoder pushes an unbounded value")
                E.pushes.append(("const", next(iter(s))))
            else:
                raise AnalysisFailure("decoder pushes an unknown value at line %s" % e[3])
        if p.kind == "loop_back":
            adv = p.end_env.get(base[1])
            if adv is None or adv == A.TOP or adv[0] != "sym" or adv[1] != base:
                raise AnalysisFailure("cannot tell how far the decoder advances")
            E.advance = adv[2]
        else:
            if p.value != A.NONE:
                raise AnalysisFailure("decoder returns from inside the loop with something other than None")
            E.advance = "reject"
        D.entries.append(E)
    return D


def decode_word(D, w):
    """how the decoder summary treats code word w standing at the current position → (verdict, detail)"""
    hits = []
    for E in D.entries:
        ok = True
        beyond = False
        for off, dom in E.reads.items():
            if off >= len(w):
                beyond = True
            elif w[off] not in dom:
                ok = False
        for off in E.absent:
            if off < len(w):
                ok = False
            else:
                beyond = True
        if ok:
            hits.append((E, beyond))
    return hits


# ================================================================================================ format_args in HIR

FLAG_PLUS, FLAG_MINUS, FLAG_ALT, FLAG_ZERO = 1 << 21, 1 << 22, 1 << 23, 1 << 24
FLAG_DBG_LO, FLAG_DBG_UP = 1 << 25, 1 << 26


def decode_template(bs):
    """core::fmt::Arguments template bytes (encoding documented in library/core/src/fmt/mod.rs of the nightly the
    facts were extracted with) → [('lit', bytes) | ('arg', {index, flags, width, precision})]"""
    out, i, nxt = [], 0, 0
    while True:
        if i >= len(bs):
            raise ValueError("unterminated template")
        n = bs[i]
        i += 1
        if n == 0:
            if i != len(bs):
                raise ValueError("bytes after the end marker")
            return out
        if n < 0x80:
            out.append(("lit", bytes(bs[i:i + n])))
            i += n
        elif n == 0x80:
            ln = bs[i] | (bs[i + 1] << 8)
            out.append(("lit", bytes(bs[i + 2:i + 2 + ln])))
            i += 2 + ln
        elif n >= 0xC0:
            d = {"index": None, "flags": None, "width": None, "precision": None}
            if n & 0x30:
                raise ValueError("indirect width/precision")
            if n & 1:
                d["flags"] = int.from_bytes(bytes(bs[i:i + 4]), "little")
                i += 4
            if n & 2:
                d["width"] = bs[i] | (bs[i + 1] << 8)
                i += 2
            if n & 4:
                d["precision"] = bs[i] | (bs[i + 1] << 8)
                i += 2
            if n & 8:
                d["index"] = bs[i] | (bs[i + 1] << 8)
                i += 2
            if d["index"] is None:
                d["index"] = nxt
            nxt = d["index"] + 1
            out.append(("arg", d))
        else:
            raise ValueError("unknown template byte 0x%02X" % n)


class FormatArgs:
    def __init__(self, pieces, args, line):
        self.pieces = pieces      # decode_template output
        self.args = args          # [(ctor kind e.g. 'display'/'upper_hex', expression, type of the argument tuple)]
        self.line = line


def parse_format_args(node):
    """['macro', '...format_args!', inner, line] → FormatArgs | None (not a format_args node) ; raises ValueError
    when it is one but has a shape this reader does not know"""
    if not (hirq.is_node(node) and node[0] == "macro" and node[1].endswith("format_args!")):
        return None
    inner = node[2]
    line = node[3] if len(node) > 3 else 0
    e = hirq.unmacro(inner)
    if hirq.is_node(e) and e[0] == "call" and hirq.is_node(e[2]) and e[2][0] == "def" and \
            re.search(r"fmt::Arguments::<.*>::(from_str|new_const)$", e[2][2]):
        a = hirq.strip(e[3][0]) if e[3] else None
        if hirq.is_node(a) and a[0] == "lit" and a[1] == "str":
            return FormatArgs([("lit", a[2].encode("utf-8"))], [], line)
        raise ValueError("literal-only format_args of unknown shape")
    if not (hirq.is_node(e) and e[0] == "block" and e[2] is not None):
        raise ValueError("format_args body is not a block")
    tail = hirq.unmacro(e[2])
    while hirq.is_node(tail) and tail[0] == "block" and not tail[1] and tail[2] is not None:
        tail = hirq.unmacro(tail[2])
    if not (hirq.is_node(tail) and tail[0] == "call" and hirq.is_node(tail[2]) and tail[2][0] == "def" and
            re.search(r"fmt::Arguments::<.*>::new$", tail[2][2]) and tail[3]):
        raise ValueError("format_args tail is not Arguments::new")
    t = hirq.strip(tail[3][0])
    m = re.match(r"^ByteStr\(\[([0-9, ]*)\], \w+\)$", t[2]) if hirq.is_node(t) and t[0] == "lit" else None
    if not m:
        raise ValueError("template is not a byte string literal")
    pieces = decode_template([int(x) for x in m.group(1).split(",") if x.strip()])
    tup = arr = None
    for s in e[1]:
        if hirq.is_node(s) and s[0] == "let":
            init = hirq.unmacro(s[2])
            if hirq.is_node(init) and init[0] == "tup":
                tup = init[1]
            elif hirq.is_node(init) and init[0] == "array":
                arr = init[1]
    if tup is None or arr is None:
        raise ValueError("format_args without argument tuple/array")
    args = []
    for a in arr:
        a = hirq.unmacro(a)
        if not (hirq.is_node(a) and a[0] == "call" and hirq.is_node(a[2]) and a[2][0] == "def"):
            raise ValueError("argument constructor of unknown shape")
        m = re.search(r"fmt::rt::Argument::<.*>::new_(\w+)$", a[2][2])
        fld = hirq.unmacro(a[3][0]) if a[3] else None
        if not m or not (hirq.is_node(fld) and fld[0] == "field" and str(fld[2]).isdigit()):
            raise ValueError("argument constructor of unknown shape")
        idx = int(fld[2])
        if idx >= len(tup):
            raise ValueError("argument index out of range")
        args.append((m.group(1), tup[idx], fld[3] if len(fld) > 3 else ""))
    return FormatArgs(pieces, args, line)


class HirFn:
    """a HIR body with single-assignment `let` resolution"""

    def __init__(self, hb):
        self.hb = hb
        self.params = [p[0][1] for p in hb["params"] if hirq.is_node(p[0]) and p[0][0] == "pbind"]
        self.lets = {}
        self.dirty = set()
        for n in hirq.walk(hb["body"]):
            if n[0] == "let" and hirq.is_node(n[1]) and n[1][0] == "pbind" and n[1][2] is None:
                if n[1][1] in self.lets or n[2] is None:
                    self.dirty.add(n[1][1])
                self.lets[n[1][1]] = n[2]
            elif n[0] in ("assign", "assignop"):
                l = hirq.local_name(n[1] if n[0] == "assign" else n[2])
                if l:
                    self.dirty.add(l)
            elif n[0] == "addr" and n[1]:
                l = hirq.local_name(n[2])
                if l:
                    self.dirty.add(l)
            elif n[0] == "mcall" and len(n) > 6 and str(n[6]).startswith("&mut"):
                l = hirq.local_name(n[4])
                if l:
                    self.dirty.add(l)

    def resolve(self, e, depth=0):
        """look through macros (except format_args), blocks, &, *, must_use, and immutable single `let`s"""
        while depth < 40:
            depth += 1
            if not hirq.is_node(e):
                return e
            if e[0] == "macro":
                if e[1].endswith("format_args!"):
                    return e
                e = e[2]
            elif e[0] == "block" and not e[1] and e[2] is not None:
                e = e[2]
            elif e[0] == "addr" and not e[1]:
                e = e[2]
            elif e[0] == "un" and e[1] == "Deref":
                e = e[2]
            elif e[0] == "call" and hirq.is_node(e[2]) and e[2][0] == "def" and \
                    e[2][2] in ("core::hint::must_use", "alloc::fmt::format") and len(e[3]) == 1:
                e = e[3][0]
            elif e[0] == "local" and e[1] in self.lets and e[1] not in self.dirty and e[1] not in self.params:
                e = self.lets[e[1]]
            else:
                return e
        return e

    def returns(self):
        """expressions the function can return: explicit `return e` and the body's tail"""
        out = []
        for n in hirq.walk(self.hb["body"], enter_closures=False):
            if n[0] == "ret" and n[1] is not None:
                out.append(n[1])
        b = self.hb["body"]
        while hirq.is_node(b) and b[0] == "macro":
            b = b[2]
        if hirq.is_node(b) and b[0] == "block" and b[2] is not None:
            out.append(b[2])
        elif hirq.is_node(b) and b[0] != "block":
            out.append(b)
        return out


HEX_UP, HEX_LO = set(b"0123456789ABCDEF"), set(b"0123456789abcdef")
INT_HEX_DIGITS = {"u8": 2, "u16": 4, "u32": 8, "u64": 16, "usize": 16, "u128": 32}


class Unknown(Exception):
    pass


def placeholder_alphabet(hf, fa, d, enc_alpha, enc_path):
    """bytes a placeholder can produce, and (min, max) length or None"""
    if d["index"] >= len(fa.args):
        raise Unknown("placeholder refers to a missing argument")
    kind, expr, tupty = fa.args[d["index"]]
    flags = d["flags"] if d["flags"] is not None else (0x20 | (3 << 29))
    out = set()
    if d["precision"] is not None:
        raise Unknown("precision in a symbol format")
    if kind in ("upper_hex", "lower_hex"):
        out |= HEX_UP if kind == "upper_hex" else HEX_LO
        if flags & FLAG_PLUS:
            out.add(ord("+"))
        if flags & FLAG_ALT:
            out |= set(b"0x")
        tys = [t.strip().lstrip("&") for t in tupty.strip("()").split(",") if t.strip()]
        ty = tys[d["index"]] if d["index"] < len(tys) else None
        digits = INT_HEX_DIGITS.get(ty)
        if digits is None:
            raise Unknown("hex formatting of a %s" % ty)
        lo, hi = 1, digits
    elif kind == "display":
        a, (lo, hi) = string_alphabet(hf, expr, enc_alpha, enc_path)
        out |= a
    else:
        raise Unknown("argument formatted with %s" % kind)
    if d["width"]:
        fill = ord("0") if flags & FLAG_ZERO and kind != "display" else flags & 0x1FFFFF
        if lo < d["width"]:
            if fill > 255:
                raise Unknown("non-ASCII fill")
            out.add(fill)
        lo = max(lo, d["width"])
        hi = max(hi, d["width"]) if hi is not None else None
    return out, (lo, hi)


def string_alphabet(hf, e, enc_alpha, enc_path, depth=0):
    """(set of bytes, (min len, max len|None)) a string-valued HIR expression can contain"""
    if depth > 20:
        raise Unknown("expression too deep")
    e = hf.resolve(e)
    if not hirq.is_node(e):
        raise Unknown("not an expression")
    fa = parse_format_args(e)
    if fa is not None:
        out, lo, hi = set(), 0, 0
        for p in fa.pieces:
            if p[0] == "lit":
                out |= set(p[1])
                lo += len(p[1])
                hi = hi + len(p[1]) if hi is not None else None
            else:
                a, (l2, h2) = placeholder_alphabet(hf, fa, p[1], enc_alpha, enc_path)
                out |= a
                lo += l2
                hi = hi + h2 if hi is not None and h2 is not None else None
        return out, (lo, hi)
    if e[0] == "lit" and e[1] == "str":
        b = e[2].encode("utf-8")
        return set(b), (len(b), len(b))
    if e[0] == "call" and hirq.is_node(e[2]) and e[2][0] == "def" and e[2][2] == enc_path:
        return set(enc_alpha), (0, None)
    if e[0] == "index":
        a, (lo, hi) = string_alphabet(hf, e[1], enc_alpha, enc_path, depth + 1)
        return a, (0, hi)
    if e[0] == "mcall" and e[3] in ("clone", "to_string", "to_owned", "as_str", "into", "as_ref", "borrow") \
            and not e[5]:
        return string_alphabet(hf, e[4], enc_alpha, enc_path, depth + 1)
    raise Unknown("%s" % hirq.render(e)[:60])


# ================================================================================================ MIR terms

def term(B, defs, op, depth=0):
    """expression tree of an operand through single-definition locals"""
    if op[0] == "k":
        return ("k", op[1])
    return place_term(B, defs, op[1][0], list(op[1][1]), depth)


def place_term(B, defs, local, proj, depth=0):
    if depth > 40:
        return ("local", local)
    if 1 <= local <= B.argc:
        base = ("param", local)
    else:
        ds = defs.get(local, [])
        if len(ds) != 1:
            base = ("local", local)
        else:
            s = ds[0][1]
            if s[0] == "callres":
                c = s[1]
                base = ("call", cfg.callee_name(cfg.callee_of(c["f"])) or "?",
                        [term(B, defs, a, depth + 1) for a in c["a"]], c["l"])
            else:
                rv = s[2]
                k = rv[0]
                if k == "use":
                    base = term(B, defs, rv[1], depth + 1)
                elif k == "ref":
                    base = place_term(B, defs, rv[2][0], list(rv[2][1]), depth + 1)
                elif k == "cast":
                    base = term(B, defs, rv[2], depth + 1)
                elif k == "agg":
                    base = ("agg", rv[1], [term(B, defs, o, depth + 1) for o in rv[2]])
                elif k == "bin":
                    base = ("bin", rv[1], term(B, defs, rv[2], depth + 1), term(B, defs, rv[3], depth + 1))
                else:
                    base = ("local", local)
    for p in proj:
        if p == "*":
            continue
        if p.startswith(".") and p[1:].isdigit() and base[0] == "agg" and int(p[1:]) < len(base[2]):
            base = base[2][int(p[1:])]
        elif p.startswith(".") and p[1:].isdigit() and base[0] == "bin" and base[1].endswith("WithOverflow"):
            base = base if p == ".0" else ("flag", base)
        else:
            base = ("proj", base, p)
    return base


VIEW_FNS = ("as_bytes", "as_str", "deref", "as_ref", "borrow", "as_slice", "as_bytes_mut", "clone")
SLICE_FNS = ("index", "get", "get_unchecked", "split_at", "split_at_checked", "first_chunk", "truncate", "take")


def through_views(t):
    """strip std view calls; returns (inner term, names of slicing calls met on the way, unknown calls)"""
    sliced, unknown = [], []
    while t[0] in ("call", "proj"):
        if t[0] == "proj":
            # `.0` / `.1` of `str::split_at(..)` (a pair of slices): still a slice of the same string
            inner = t[1]
            if t[2] in (".0", ".1") and isinstance(inner, tuple) and inner and inner[0] == "call" and \
                    short(inner[1]).startswith("split_at"):
                sliced.append("%s%s" % (short(inner[1]), t[2]))
                t = inner[2][0]
                continue
            break
        nm = short(t[1])
        if t[1].startswith(("alloc::", "core::", "std::", "<alloc::", "<core::", "<std::", "<&")) and nm in VIEW_FNS:
            t = t[2][0]
        elif t[1].startswith(("alloc::", "core::", "std::", "<alloc::", "<core::", "<std::", "<&", "<str", "<[")) \
                and nm in SLICE_FNS:
            sliced.append(nm)
            t = t[2][0]
        else:
            break
    return t, sliced, unknown


def term_mentions(t, pred):
    st = [t]
    while st:
        x = st.pop()
        if isinstance(x, tuple):
            if pred(x):
                return True
            st.extend(x)
        elif isinstance(x, list):
            st.extend(x)
    return False


def is_call_to(t, path):
    return isinstance(t, tuple) and t and t[0] == "call" and t[1] == path


# ================================================================================================ R1

def run_r1(chk, F, roles, it):
    r = chk.rule("C19.R1", "every character the symbol encoder can append (abstract interpretation of its MIR over "
                           "byte sets, all 256 input bytes), its literal prefix, and the literal pieces / hex digits / "
                           "padding of the shortened form are in [A-Za-z0-9_]")
    ok = r.anchor("dora_symbol encoder (String-returning callee of the capped mangler)", roles.enc)
    ok = r.anchor("dora_symbol capped mangler (called from dora_compiler with a usize cap)", roles.capped) and ok
    if not ok:
        return None
    try:
        S = summarise_encoder(it, roles.enc)
    except AnalysisFailure as e:
        _analysis(r, "%s:encoder-not-understood" % roles.enc,
                  "the abstract interpreter cannot summarise the encoder: %s — nothing is decided about the alphabet"
                  % e)
        return None
    for n in it.notes:
        r.observe(n)
    where = "%s:%d" % (roles.cs.mir[roles.enc]["file"], roles.cs.mir[roles.enc]["line"])
    if S.diverges:
        r.observe("the encoder panics for %d input byte values (e.g. %s): no symbol is produced for them"
                  % (len(S.diverges), ch(min(S.diverges))))
    missing = [b for b in range(256) if b not in S.table and b not in S.diverges]
    if missing:
        _analysis(r, "%s:bytes-not-covered" % roles.enc, "no code derived for %d input bytes (e.g. %s)"
                  % (len(missing), ch(missing[0])), where)
        return None
    bad = {}
    for b, w in sorted(S.table.items()):
        r.instance("%s:byte:0x%02X" % (roles.enc, b), sample={"byte": ch(b), "code": word(w)})
        for c in w:
            if c not in ALPHABET:
                bad.setdefault(c, []).append(b)
    r.instance("%s:prefix" % roles.enc, sample={"prefix": S.prefix.decode("latin-1"), "const": S.prefix_const})
    for c in set(S.prefix) | set(S.tail):
        if c not in ALPHABET:
            r.violation("%s:literal:%s" % (roles.enc, ch(c)), "the encoder's literal prefix/suffix %r contains %s, "
                        "which is not in [A-Za-z0-9_]" % ((S.prefix + S.tail).decode("latin-1"), ch(c)), where)
    for c, bs in sorted(bad.items()):
        r.violation("%s:emits:%s" % (roles.enc, ch(c)),
                    "the encoder can append %s (outside [A-Za-z0-9_], not accepted unquoted by every supported "
                    "assembler): input byte(s) %s produce it — e.g. the name %r gets the symbol %r"
                    % (ch(c), ", ".join(ch(b) for b in bs[:4]) + (" …" if len(bs) > 4 else ""),
                       "a" + chr(bs[0]), (S.prefix + b"a" + bytes(S.table[bs[0]])).decode("latin-1")), where)
    r.floor("input bytes with a derived code", len(S.table), 256)
    enc_alpha = set(S.prefix) | set(S.tail)
    for w in S.table.values():
        enc_alpha |= set(w)
    # the shortened form
    hb = roles.cs.hir.get(roles.capped)
    if not r.anchor("HIR of %s" % roles.capped, hb):
        return S
    hf = HirFn(hb)
    nret = 0
    for e in hf.returns():
        nret += 1
        key = "%s:return#%d" % (roles.capped, nret)
        try:
            alpha, _len = string_alphabet(hf, e, enc_alpha, roles.enc)
        except (Unknown, ValueError) as ex:
            _analysis(r, key + ":not-understood", "returned string expression not understood (%s)" % ex,
                      "%s:%d" % (hb["file"], hb["line"]))
            continue
        r.instance(key, sample={"returns": hirq.render(hf.resolve(e))[:80], "alphabet_size": len(alpha)})
        for c in sorted(alpha - ALPHABET):
            if c in enc_alpha:
                continue        # already reported against the encoder
            r.violation("%s:shortened-form-emits:%s" % (roles.capped, ch(c)),
                        "the (shortened) symbol returned by %s can contain %s, which is not in [A-Za-z0-9_]"
                        % (short(roles.capped), ch(c)), "%s:%d" % (hb["file"], hb["line"]))
    r.floor("returned string expressions of the capped mangler", nret, 2)
    return S


# ================================================================================================ R2

def run_r2(chk, F, roles, it, S):
    r = chk.rule("C19.R2", "the per-byte code of the symbol encoder is prefix-free (so the encoder, a per-byte "
                           "homomorphism after a fixed prefix, is injective on all strings), every escape is one lead "
                           "+ a fixed number of digit characters, and the decoder maps each code word back to its byte "
                           "consuming exactly the word")
    if not r.anchor("encoder summary (C19.R1)", S is not None and len(S.table) == 256):
        return None
    if not r.anchor("dora_symbol decoder (pub fn &str -> Option<String>)", roles.dec):
        return None
    enc, dec = roles.enc, roles.dec
    where = "%s:%d" % (roles.cs.mir[enc]["file"], roles.cs.mir[enc]["line"])
    T = S.table
    P = {b for b, w in T.items() if w == (b,)}
    esc = {b: w for b, w in T.items() if b not in P}
    E = {w[0] for w in esc.values() if w}
    H = set()
    for w in esc.values():
        H |= set(w[1:])
    lens = sorted({len(w) for w in esc.values()})
    r.instance("%s:shape" % enc, sample={"passthrough": len(P), "escaped": len(esc), "leads": word(sorted(E)),
                                        "digits": word(sorted(H)), "escape_lengths": lens})
    if any(len(w) == 0 for w in T.values()):
        bs = [b for b, w in T.items() if not w]
        r.violation("%s:byte-dropped:0x%02X" % (enc, bs[0]), "input byte %s is encoded as nothing: the names %r and %r "
                    "get the same symbol" % (ch(bs[0]), "a", "a" + chr(bs[0])), where)
    if len(lens) > 1:
        r.violation("%s:escape-length-varies" % enc, "escaped bytes are written with different lengths %s" % lens, where)
    for c in sorted(E & P):
        r.violation("%s:lead-is-passthrough:%s" % (enc, ch(c)),
                    "%s is an escape lead AND passes through unchanged: a literal %s followed by digit characters is "
                    "indistinguishable from an escape" % (ch(c), ch(c)), where)
    ndig = lens[0] - 1 if lens else 0
    if esc and ndig > 0 and len(H) ** ndig < len(esc):
        r.violation("%s:too-few-digits" % enc, "%d escaped bytes cannot get distinct codes from %d digit characters in "
                    "%d positions" % (len(esc), len(H), ndig), where)
    # prefix-freeness (decides injectivity)
    words = sorted(T.items(), key=lambda kv: (kv[1], kv[0]))
    byword = {}
    for b, w in T.items():
        byword.setdefault(w, []).append(b)
    for b, w in sorted(T.items()):
        r.instance("%s:prefix-free:0x%02X" % (enc, b))
        if len(byword[w]) > 1 and b == min(byword[w]):
            o = [x for x in byword[w] if x != b][0]
            r.violation("%s:same-code:0x%02X" % (enc, b), "bytes %s and %s are both encoded as %r: the names %r and %r "
                        "get the same symbol" % (ch(b), ch(o), word(w), chr(b), chr(o)), where)
        for k in range(1, len(w)):
            if w[:k] in byword:
                b1 = min(byword[w[:k]])
                rest = w[k:]
                ex = ""
                if all(x in P for x in rest):
                    n1 = bytes([b1]) + bytes(rest)
                    ex = " — e.g. the names %r and %r both get the symbol %r" % (
                        n1.decode("latin-1"), chr(b), (S.prefix + bytes(w)).decode("latin-1"))
                r.violation("%s:not-prefix-free:0x%02X" % (enc, b1),
                            "the code %r of byte %s is a prefix of the code %r of byte %s%s"
                            % (word(w[:k]), ch(b1), word(w), ch(b), ex), where)
                break
    # decoder
    try:
        D = summarise_decoder(it, dec)
    except AnalysisFailure as e:
        _analysis(r, "%s:decoder-not-understood" % dec, "the abstract interpreter cannot summarise the decoder: %s" % e)
        return (P, E, H)
    dwhere = "%s:%d" % (roles.cs.mir[dec]["file"], roles.cs.mir[dec]["line"])
    r.instance("%s:prefix" % dec, sample={"encoder": S.prefix.decode("latin-1"), "decoder": (D.prefix or b"").decode(
        "latin-1")})
    if D.prefix != S.prefix:
        r.violation("%s:prefix-differs" % dec, "the encoder starts every symbol with %r, the decoder strips %r"
                    % (S.prefix.decode("latin-1"), (D.prefix or b"").decode("latin-1")), dwhere)
    P2, E2, H2 = set(), set(), set()
    for en in D.entries:
        if en.advance == "reject":
            continue
        if set(en.reads) == {0} and en.pushes == [("pass", 0)] and en.advance == 1:
            P2 |= en.reads[0]
        elif len(en.reads) > 1:
            E2 |= en.reads[0]
            for off, dom in en.reads.items():
                if off > 0:
                    H2 |= dom
    r.instance("%s:shape" % dec, sample={"literal": len(P2), "leads": word(sorted(E2)), "digits": word(sorted(H2)),
                                        "entries": len(D.entries)})
    if P2 - P:
        r.observe("the decoder accepts %d literal bytes the encoder never emits unescaped (e.g. %s): harmless for "
                  "round-tripping" % (len(P2 - P), ch(min(P2 - P))))
    if H2 - H:
        r.observe("the decoder accepts digit characters the encoder never produces: %s" % word(sorted(H2 - H)))
    nrt = 0
    for b, w in sorted(T.items()):
        key = "%s:roundtrip:0x%02X" % (dec, b)
        r.instance(key)
        hits = decode_word(D, w)
        acc = [(en, beyond) for (en, beyond) in hits if en.advance != "reject"]
        rej = [(en, beyond) for (en, beyond) in hits if en.advance == "reject"]
        why = None
        if not hits:
            why = "no decoder path matches it (analysis gap)"
        elif rej and not acc:
            why = "the decoder rejects it"
            if w[0] in P and w[0] not in P2 and len(w) == 1:
                why = "the decoder does not accept %s literally" % ch(w[0])
            elif len(w) > 1 and w[0] not in E2:
                why = "the decoder does not treat %s as an escape lead" % ch(w[0])
            elif len(w) > 1 and any(c not in H2 for c in w[1:]):
                why = "the decoder does not accept digit %s" % ch([c for c in w[1:] if c not in H2][0])
        elif len(acc) > 1 or rej:
            why = "the decoder's treatment depends on more than the code word (%d matching paths)" % len(hits)
        else:
            en, beyond = acc[0]
            if beyond:
                why = "the decoder looks past the end of the code word"
            elif en.advance != len(w):
                why = "the decoder consumes %s characters, the code word has %d" % (en.advance, len(w))
            else:
                vals = [w[p[1]] if p[0] == "pass" else p[1] for p in en.pushes]
                if vals != [b]:
                    why = "the decoder yields %s" % (", ".join(ch(v) for v in vals) or "nothing")
        if why is None:
            nrt += 1
        elif "analysis gap" in why:
            _analysis(r, key, "code word %r of byte %s: %s" % (word(w), ch(b), why), dwhere)
        else:
            r.violation(key, "byte %s is encoded as %r but %s: a name containing it does not demangle back"
                        % (ch(b), word(w), why), dwhere)
    r.floor("code words checked against the decoder", len(T), 256)
    r.floor("decoder paths", len(D.entries), 40)
    return (P, E, H)


# ================================================================================================ R3

REL_FLIP = {"Lt": "Gt", "Le": "Ge", "Gt": "Lt", "Ge": "Le", "Eq": "Eq", "Ne": "Ne"}
REL_NEG = {"Lt": "Ge", "Le": "Gt", "Gt": "Le", "Ge": "Lt", "Eq": "Ne", "Ne": "Eq"}


def edge_of(B, s, b):
    """on which edge(s) of switch block s does block b lie → list of switch values / 'other'"""
    t = B.blocks[s]["t"]
    hits = []
    for (v, tb) in t[2]:
        if b == tb or b in B.reachable(tb, avoid={s}):
            hits.append(v)
    if b == t[3] or b in B.reachable(t[3], avoid={s}):
        hits.append("other")
    return hits


def is_len_of(t, pred):
    """t is `<string-ish>.len()` of something satisfying pred (through views, not through slicing)"""
    if t[0] == "call" and short(t[1]) == "len" and t[2]:
        inner, sliced, _ = through_views(t[2][0])
        return pred(inner) and not sliced
    return False


def loop_deps(B, body):
    """local -> set of locals its in-loop definitions read; plus the calls/bin-ops met (for the mixing step)"""
    deps, ops = {}, {}
    for bi in body:
        blk = B.blocks[bi]
        for st in blk["s"]:
            if st[0] == "a":
                d = st[1][0]
                deps.setdefault(d, set()).update(cfg.rvalue_uses(st[2]))
                if st[1][1]:
                    deps[d].update(cfg.place_uses(st[1], True))
                ops.setdefault(d, []).append(("rv", st[2]))
        t = blk["t"]
        if t[0] == "call":
            c = t[1]
            d = c["d"][0]
            us = set()
            for a in c["a"]:
                us.update(cfg.op_locals(a))
            deps.setdefault(d, set()).update(us)
            ops.setdefault(d, []).append(("call", c))
    return deps, ops


def closure(deps, start):
    seen, st = set(), list(start)
    while st:
        x = st.pop()
        if x in seen:
            continue
        seen.add(x)
        st.extend(deps.get(x, ()))
    return seen


def run_r3(chk, F, roles, tables):
    r = chk.rule("C19.R3", "shortened symbols: the hash input is the whole mangled symbol (not a slice), the result is "
                           "`symbol[..max_len - suffix_len] + suffix` (length exactly max_len), the unshortened symbol "
                           "is returned only under `len <= max_len`, the hash function folds every byte of its whole "
                           "argument into an accumulating, multiplicatively mixed state, and the suffix marker cannot "
                           "occur in an unshortened symbol")
    ok = r.anchor("capped mangler", roles.capped)
    ok = r.anchor("encoder", roles.enc) and ok
    ok = r.anchor("hash function (integer-returning callee of the capped mangler)", roles.hashfn) and ok
    if not ok:
        return
    cap, enc, hfn = roles.capped, roles.enc, roles.hashfn
    mb = roles.cs.mir[cap]
    B = cfg.Body(mb)
    defs = cfg.simple_defs(B)
    where = "%s:%d" % (mb["file"], mb["line"])
    usize_params = [i for i in range(1, B.argc + 1) if B.local_ty(i) == "usize"]
    if not r.anchor("usize cap parameter of %s" % short(cap), len(usize_params) == 1):
        return
    maxp = usize_params[0]
    enc_calls = [c for c in B.calls if c.name == enc]
    if not r.anchor("call of the encoder in %s" % short(cap), len(enc_calls) == 1):
        return
    enc_arg = term(B, defs, enc_calls[0].args[0])

    def is_sym(t):
        return is_call_to(t, enc)

    # (a) hash input
    hcalls = [c for c in B.calls if c.name == hfn]
    r.anchor("call of the hash function in %s" % short(cap), hcalls)
    for n, c in enumerate(hcalls):
        key = "%s:hash-input" % cap + ("" if n == 0 else "#%d" % n)
        t = term(B, defs, c.args[0])
        inner, sliced, _ = through_views(t)
        r.instance(key, sample={"hash_input": "whole symbol" if is_sym(inner) and not sliced else str(inner)[:80]})
        if (is_sym(inner) or inner == enc_arg) and not sliced:
            continue
        if (is_sym(inner) or inner == enc_arg) and sliced:
            r.violation(key + ":sliced", "the hash is computed over a slice (%s) of the mangled symbol, not over the "
                        "whole symbol: two long names that differ only outside the hashed part get the same shortened "
                        "symbol (e.g. two names with a common 200-character mangled prefix)" % "/".join(sliced),
                        "%s:%d" % (mb["file"], c.line))
        elif term_mentions(t, lambda x: is_sym(x)):
            _analysis(r, key + ":not-understood", "the hash input derives from the symbol through operations the rule "
                      "does not know", "%s:%d" % (mb["file"], c.line))
        else:
            r.violation(key + ":not-the-symbol", "the hash input does not derive from the mangled symbol",
                        "%s:%d" % (mb["file"], c.line))

    # (b) guard of the unshortened return
    plain = []
    for bi, blk in enumerate(B.blocks):
        if blk["c"] or bi not in B.reachable(0):
            continue
        for st in blk["s"]:
            if st[0] == "a" and st[1][0] == 0 and not st[1][1] and st[2][0] == "use" and \
                    is_sym(term(B, defs, st[2][1])):
                plain.append((bi, st[3]))
    r.anchor("return of the unshortened symbol in %s" % short(cap), plain)
    for n, (bi, line) in enumerate(plain):
        key = "%s:unshortened-return" % cap + ("" if n == 0 else "#%d" % n)
        guarded = False
        for s in range(B.n):
            t = B.blocks[s]["t"]
            if t[0] != "switch" or s == bi or not B.dominates(s, bi) or t[1][0] not in ("c", "m"):
                continue
            hits = edge_of(B, s, bi)
            if len(hits) != 1:
                continue
            truth = hits[0] == "other" or hits[0] == 1
            ct = term(B, defs, t[1])
            if ct[0] != "bin" or ct[1] not in REL_FLIP:
                continue
            op, a, b = ct[1], ct[2], ct[3]
            if not truth:
                op = REL_NEG[op]
            if is_len_of(b, is_sym) and a == ("param", maxp):
                op, a, b = REL_FLIP[op], b, a
            if is_len_of(a, is_sym) and b == ("param", maxp) and op in ("Le", "Lt", "Eq"):
                guarded = True
        r.instance(key, sample={"guarded_by_len_le_max": guarded})
        if not guarded:
            r.violation(key + ":unguarded", "the unshortened symbol is returned without a dominating check "
                        "`symbol.len() <= max_len`: symbols longer than the cap reach the assembler",
                        "%s:%d" % (mb["file"], line))

    # (c) layout of the shortened form
    P, E, H = tables if tables else (set(), set(), set())
    hb = roles.cs.hir.get(cap)
    suffix_len = None
    if r.anchor("HIR of %s" % cap, hb):
        hf = HirFn(hb)
        shortened = []
        for e in hf.returns():
            e2 = hf.resolve(e)
            try:
                fa = parse_format_args(e2)
            except ValueError as ex:
                _analysis(r, "%s:shortened-form:not-understood" % cap, "format_args of unknown shape (%s)" % ex, where)
                fa = None
            if fa is not None:
                shortened.append(fa)
        r.anchor("formatted (shortened) return in %s" % short(cap), len(shortened) == 1)
        for fa in shortened:
            key = "%s:shortened-form" % cap
            lits = b"".join(p[1] for p in fa.pieces if p[0] == "lit")
            slots = [p[1] for p in fa.pieces if p[0] == "arg"]
            prefix_slot = suffix_slot = None
            problems = []
            for k, d in enumerate(slots):
                if d["index"] >= len(fa.args):
                    problems.append("placeholder without argument")
                    continue
                kind, expr, _ty = fa.args[d["index"]]
                e3 = hf.resolve(expr)
                if hirq.is_node(e3) and e3[0] == "index":
                    base = hf.resolve(e3[1])
                    rng = hirq.unmacro(e3[2])
                    if hirq.is_node(base) and base[0] == "call" and hirq.def_path(base[2]) == enc and \
                            hirq.is_node(rng) and rng[0] == "struct" and hirq.def_path(rng[1]) and \
                            hirq.def_path(rng[1]).endswith("::RangeTo") and len(rng[2]) == 1:
                        prefix_slot = (k, rng[2][0][1], d)
                    else:
                        problems.append("a slice that is not `symbol[..end]`")
                else:
                    try:
                        sub = parse_format_args(e3)
                    except ValueError:
                        sub = None
                    if sub is not None:
                        suffix_slot = (k, expr, sub, d)
                    else:
                        problems.append("an argument that is neither the prefix slice nor the hash suffix")
            if problems or prefix_slot is None or suffix_slot is None:
                _analysis(r, key + ":not-understood", "the shortened form is not `symbol[..end]` + formatted suffix "
                          "(%s)" % ("; ".join(problems) or "missing part"), where)
                continue
            sub = suffix_slot[2]
            # the suffix: literal marker + hash in hex
            hashed = False
            for (kind, expr, _ty) in sub.args:
                e4 = hf.resolve(expr)
                if hirq.is_node(e4) and e4[0] == "call" and hirq.def_path(e4[2]) == hfn:
                    hashed = kind in ("upper_hex", "lower_hex")
            try:
                s_alpha, (slo, shi) = string_alphabet(hf, suffix_slot[1], set(), enc)
            except (Unknown, ValueError) as ex:
                _analysis(r, key + ":suffix-not-understood", "suffix format not understood (%s)" % ex, where)
                continue
            r.instance(key + ":suffix", sample={"literal": b"".join(p[1] for p in sub.pieces if p[0] == "lit").decode(
                "latin-1"), "length": [slo, shi], "hash_in_hex": hashed})
            if not hashed:
                r.violation(key + ":suffix-without-hash", "the suffix of the shortened symbol does not contain the hash "
                            "of the symbol formatted in hex", where)
            if slo != shi:
                r.violation(key + ":suffix-length-varies", "the suffix is between %s and %s characters long (hash not "
                            "zero-padded to its full width): the shortened symbol is not exactly max_len long and "
                            "`prefix + suffix` is ambiguous" % (slo, shi), where)
            else:
                suffix_len = slo
            # marker must not be decodable
            marker = b"".join(p[1] for p in sub.pieces[:1] if p[0] == "lit")
            if tables:
                good = any(marker[i] in E and marker[i] not in P and marker[i] not in H and marker[i + 1] not in H
                           for i in range(len(marker) - 1))
                r.instance(key + ":marker", sample={"marker": marker.decode("latin-1"), "undecodable": good})
                if not good:
                    r.violation(key + ":marker-is-valid-escape", "the suffix marker %r can occur in an unshortened "
                                "symbol (it is not an escape lead followed by a non-digit): a shortened symbol can "
                                "coincide with the full symbol of another function" % marker.decode("latin-1"), where)
            # prefix end = max_len - suffix length; order prefix then suffix; no other pieces
            r.instance(key + ":layout", sample={"order": "prefix,suffix" if prefix_slot[0] < suffix_slot[0] else
                                               "suffix,prefix", "literals": lits.decode("latin-1")})
            if prefix_slot[0] > suffix_slot[0]:
                r.violation(key + ":suffix-before-prefix", "the hash suffix is not appended after the prefix slice",
                            where)
            if prefix_slot[2]["width"] or suffix_slot[3]["width"]:
                r.violation(key + ":padded", "prefix/suffix are padded: the result is not exactly max_len long", where)
            end = hf.resolve(prefix_slot[1])
            okend = False
            detail = hirq.render(end)[:80] if hirq.is_node(end) else str(end)
            if hirq.is_node(end) and end[0] == "bin" and end[1] == "Sub":
                l, rr = hf.resolve(end[2]), hf.resolve(end[3])
                l_ok = hirq.is_node(l) and l[0] == "local" and l[1] in hf.params and \
                    hf.params.index(l[1]) + 1 == maxp
                r_ok = False
                if hirq.is_node(rr) and rr[0] == "mcall" and rr[3] == "len":
                    r_ok = hf.resolve(rr[4]) is hf.resolve(suffix_slot[1]) or \
                        hf.resolve(rr[4]) == hf.resolve(suffix_slot[1])
                    extra = len(lits)
                    if r_ok and extra:
                        r_ok = False
                        detail += " (but %d literal characters are added as well)" % extra
                elif hirq.is_node(rr) and rr[0] == "def" and rr[1] == "const":
                    k = roles.cs.const(rr[2])
                    if k is not None and suffix_len is not None and k.get("value") == suffix_len + len(lits):
                        r_ok = True
                    elif k is not None:
                        detail += " (constant %s = %s, suffix is %s long)" % (short(rr[2]), k.get("value"), suffix_len)
                elif hirq.lit_int(rr) is not None and suffix_len is not None:
                    r_ok = hirq.lit_int(rr) == suffix_len + len(lits)
                okend = l_ok and r_ok
            r.instance(key + ":prefix-end", sample={"end": detail, "ok": okend})
            if not okend:
                r.violation(key + ":prefix-end", "the prefix slice does not end at `max_len - suffix length` (found %s): "
                            "the shortened symbol is not exactly max_len characters, i.e. it can exceed the cap or "
                            "lose hash characters" % detail, where)
        # the assert constant (observation only: a too small constant makes the function panic, not mis-name)
        for s in range(B.n):
            t = B.blocks[s]["t"]
            if t[0] == "switch" and t[1][0] in ("c", "m"):
                ct = term(B, defs, t[1])
                if ct[0] == "bin" and ct[1] in ("Ge", "Gt", "Le", "Lt") and \
                        {ct[2][0], ct[3][0]} == {"param", "k"} and ("param", maxp) in (ct[2], ct[3]):
                    k = ct[3][1] if ct[3][0] == "k" else ct[2][1]
                    if suffix_len is not None and k.get("v") != suffix_len:
                        r.observe("the cap is asserted against %s = %s but the suffix is %d characters long"
                                  % (short(k.get("const", "a constant")), k.get("v"), suffix_len))
                    elif suffix_len is not None:
                        r.instance("%s:assert-constant" % cap, sample={"const": k.get("const"), "value": k.get("v"),
                                                                      "suffix_len": suffix_len})

    # (d) the hash function
    hm = roles.cs.mir.get(hfn)
    if r.anchor("MIR of the hash function", hm):
        HB = cfg.Body(hm)
        hdefs = cfg.simple_defs(HB)
        hwhere = "%s:%d" % (hm["file"], hm["line"])
        loops = {}
        for (h, body) in HB.natural_loops():
            loops.setdefault(h, set()).update(body)
        key = "%s:folds-every-byte" % hfn
        if not r.anchor("loop in the hash function", len(loops) == 1):
            return suffix_len
        (hdr, body), = loops.items()
        nexts = [c for c in HB.calls if c.block in body and c.name and re.search(r"Iterator>::next$", c.name)]
        if not r.anchor("iterator step in the hash loop", len(nexts) == 1):
            return suffix_len
        # what is iterated: the whole parameter
        it_t = term(HB, hdefs, nexts[0].args[0])
        adapters = []
        while it_t[0] == "call":
            adapters.append(short(it_t[1]))
            it_t = it_t[2][0]
        bad_ad = [a for a in adapters if a in SLICE_FNS or a in ("take", "skip", "step_by", "take_while", "skip_while",
                                                                   "filter", "chunks", "windows", "nth")]
        unk_ad = [a for a in adapters if a not in bad_ad and a not in ("into_iter", "iter", "copied", "cloned", "by_ref",
                                                                        "bytes", "as_bytes", "deref", "enumerate")]
        r.instance(key + ":iterates", sample={"over": str(it_t), "adapters": adapters})
        if it_t[0] != "param" or bad_ad:
            r.violation(key + ":partial-iteration", "the hash loop does not iterate over its whole argument (%s)"
                        % (", ".join(bad_ad) or str(it_t)[:60]), hwhere)
        elif unk_ad:
            _analysis(r, key + ":adapters-not-understood", "iterator adapters %s" % unk_ad, hwhere)
        deps, ops = loop_deps(HB, body)
        # accumulators: locals returned and (re)defined in the loop
        rets = set()
        for bi in range(HB.n):
            for st in HB.blocks[bi]["s"]:
                if st[0] == "a" and st[1][0] == 0 and not st[1][1]:
                    rets.update(cfg.rvalue_uses(st[2]))
        accs = [a for a in rets if a in deps]
        if not r.anchor("accumulator of the hash loop (returned local updated in the loop)", accs):
            return suffix_len
        elem = nexts[0].dest[0]
        for a in accs:
            cl = closure(deps, deps[a])
            mixes = []
            for l in cl | {a}:
                for (kind, o) in ops.get(l, []):
                    if kind == "call" and short(cfg.callee_name(cfg.callee_of(o["f"])) or "") in (
                            "wrapping_mul", "rotate_left", "rotate_right", "overflowing_mul"):
                        ks = [x[1].get("v") for x in o["a"] if x[0] == "k"]
                        if any(k not in (None, 0, 1) for k in ks):
                            mixes.append(short(cfg.callee_name(cfg.callee_of(o["f"]))))
                    elif kind == "rv" and o[0] == "bin" and o[1].startswith("Mul"):
                        ks = [x[1].get("v") for x in (o[2], o[3]) if x[0] == "k"]
                        if any(k not in (None, 0, 1) for k in ks):
                            mixes.append("Mul")
            r.instance(key, sample={"accumulator": HB.local_name(a) or "_%d" % a, "depends_on_itself": a in cl,
                                    "depends_on_element": elem in cl, "mix": sorted(set(mixes))})
            if elem not in cl:
                r.violation(key + ":byte-not-folded", "the value returned by the hash function does not depend on the "
                            "iterated byte: every long name gets the same hash suffix", hwhere)
            if a not in cl:
                r.violation(key + ":no-accumulation", "the hash state is overwritten instead of updated in each "
                            "iteration: only the last byte of the symbol influences the suffix", hwhere)
            if not mixes:
                r.violation(key + ":no-mixing", "the hash state is never multiplied/rotated by a non-trivial constant: "
                            "the hash is order-insensitive (e.g. xor/sum only), so names that are permutations of "
                            "each other beyond the cap collide", hwhere)
    r.floor("structural sub-checks of the shortened form", r.instances, 9)
    return suffix_len


# ================================================================================================ R5

def flat_path(t):
    """('proj', ('proj', ('param', i), '.a'), '@V') → (i, ['.a', '@V']) | None"""
    projs = []
    while t[0] == "proj":
        projs.append(t[2])
        t = t[1]
    if t[0] == "param":
        return t[1], projs[::-1]
    return None


def strip_ref(ty):
    ty = ty.strip()
    while ty.startswith("&"):
        ty = ty[1:].strip()
        ty = re.sub(r"^'\w+\s+", "", ty)
        if ty.startswith("mut "):
            ty = ty[4:].strip()
    return ty


class RetDeps:
    """which (parameter, field path)s the return value of a dora_compiler function is data-dependent on"""

    def __init__(self, crate):
        self.c = crate
        self.memo = {}

    def of(self, path, depth=0):
        if path in self.memo:
            return self.memo[path]
        self.memo[path] = set()           # recursion guard
        mb = self.c.mir.get(path)
        if mb is None or depth > 6:
            return None
        B = cfg.Body(mb)
        defs = cfg.simple_defs(B)
        deps = {}
        reads = {}         # local -> [(kind, payload)] operands/places read by its definitions
        mutated_by = {}    # local -> calls that receive `&mut local`

        def note(d, uses, places):
            deps.setdefault(d, set()).update(uses)
            reads.setdefault(d, []).extend(places)
        for bi, blk in enumerate(B.blocks):
            if blk["c"]:
                continue
            for st in blk["s"]:
                if st[0] != "a":
                    continue
                pls = []
                rv = st[2]
                if rv[0] == "ref":
                    pls.append(("place", rv[2]))
                else:
                    for o in (rv[1:] if rv[0] != "agg" else rv[2]):
                        if isinstance(o, list) and len(o) == 2 and o[0] in ("c", "m"):
                            pls.append(("place", o[1]))
                    if rv[0] == "cast" and rv[2][0] in ("c", "m"):
                        pls.append(("place", rv[2][1]))
                note(st[1][0], cfg.rvalue_uses(rv), pls)
            t = blk["t"]
            if t[0] == "call":
                c = t[1]
                us, pls = set(), []
                for a in c["a"]:
                    us.update(cfg.op_locals(a))
                note(c["d"][0], us, [("call", c)])
                # `&mut L` handed to a call: L now depends on the other arguments
                for a in c["a"]:
                    if a[0] in ("c", "m") and not a[1][1]:
                        ds = defs.get(a[1][0], [])
                        if len(ds) == 1 and ds[0][1][0] == "a" and ds[0][1][2][0] == "ref" and ds[0][1][2][1] and \
                                not ds[0][1][2][2][1]:
                            note(ds[0][1][2][2][0], us, [("call", c)])
        cl = closure(deps, [0])
        out = set()
        for l in cl:
            for (kind, x) in reads.get(l, []):
                if kind == "place":
                    fp = flat_path(place_term(B, defs, x[0], list(x[1])))
                    if fp is not None:
                        out.add((fp[0], tuple(fp[1])))
                else:
                    name = cfg.callee_name(cfg.callee_of(x["f"])) or "?"
                    sub = self.of(name, depth + 1) if name in self.c.mir else None
                    for j, a in enumerate(x["a"]):
                        fp = flat_path(term(B, defs, a)) if a[0] in ("c", "m") else None
                        if fp is None:
                            continue
                        if sub is None:
                            out.add((fp[0], tuple(fp[1]) + ("<whole>",)))
                        else:
                            for (pj, pp) in sub:
                                if pj == j + 1:
                                    out.add((fp[0], tuple(fp[1]) + tuple(pp)))
        self.memo[path] = out
        return out


def identity_fields(crate, adt, prefix=(), depth=0):
    """leaf (projection path, label) list of an identity type; nested dora_compiler structs are expanded"""
    out = []
    for v in adt["variants"]:
        vp = prefix + (("@" + v["name"],) if adt["kind"] == "enum" else ())
        for f in v["fields"]:
            fp = vp + ("." + f["name"],)
            label = "%s%s.%s" % (short(adt["path"]), "::" + v["name"] if adt["kind"] == "enum" else "", f["name"])
            sub = None
            fty = strip_ref(f["ty"])
            for a in crate.items["adts"]:
                if a["path"] == fty and a["kind"] == "struct":
                    sub = a
            if sub is not None and depth < 3:
                out.extend(identity_fields(crate, sub, fp, depth + 1))
            else:
                out.append((fp, label))
    return out


R5_EXCEPTIONS = {
    # "<Type[::Variant].field>": "one-line reason"   — none needed on the pinned tree
}


def run_r5(chk, F, roles):
    r = chk.rule("C19.R5", "the display name that is mangled into an AOT function symbol is data-dependent on every "
                           "field of the compiled-function target (function id, type arguments; thunk: trait method, "
                           "object type, trait-object type)")
    cc = roles.cc
    T = cc.adt("CompiledFunctionTarget")
    if not r.anchor("dora_compiler enum CompiledFunctionTarget", T) or not r.anchor("length-capped symbol helper",
                                                                                   roles.short):
        return
    holders = {T["path"]}
    for a in cc.items["adts"]:
        for v in a["variants"]:
            for f in v["fields"]:
                if strip_ref(f["ty"]) == T["path"]:
                    holders.add(a["path"])
    fns = {f["path"]: f for f in cc.items["fns"]}
    cands = [p for p, f in fns.items() if f["output"].endswith("String") and p in cc.mir and
             any(strip_ref(t) in holders for t in f["inputs"])]
    # by role: the candidate's result must flow into the capped symbol helper somewhere
    producers = []
    for p, mb in cc.mir.items():
        B = cfg.Body(mb)
        cs = [c for c in B.calls if c.name == roles.short]
        if not cs:
            continue
        defs = cfg.simple_defs(B)
        for c in cs:
            t = term(B, defs, c.args[0])
            for cand in cands:
                if term_mentions(t, lambda x: is_call_to(x, cand)) and cand not in producers:
                    producers.append(cand)
    if not r.anchor("function naming a CompiledFunctionTarget whose result is mangled by %s" % short(roles.short),
                    producers):
        return
    rd = RetDeps(cc)
    n = 0
    for prod in sorted(producers):
        f = fns[prod]
        got = rd.of(prod) or set()
        mb = cc.mir[prod]
        for j, ity in enumerate(f["inputs"]):
            base = strip_ref(ity)
            if base not in holders:
                continue
            # projection path from the parameter to the target
            pre = ()
            if base != T["path"]:
                holder = [a for a in cc.items["adts"] if a["path"] == base][0]
                for v in holder["variants"]:
                    for fl in v["fields"]:
                        if strip_ref(fl["ty"]) == T["path"]:
                            pre = (("@" + v["name"],) if holder["kind"] == "enum" else ()) + ("." + fl["name"],)
            for (fp, label) in identity_fields(cc, T):
                n += 1
                full = pre + fp
                key = "%s:%s" % (prod, label)
                covered = False
                for (pj, pp) in got:
                    if pj != j + 1:
                        continue
                    pp = tuple(x for x in pp if x != "*")
                    if pp[:len(full)] == full:
                        covered = True
                    elif pp and pp[-1] == "<whole>" and full[:len(pp) - 1] == pp[:-1]:
                        covered = True
                r.instance(key, sample={"producer": short(prod), "field": label, "flows_into_name": covered})
                if covered:
                    continue
                if label in R5_EXCEPTIONS:
                    r.observe("%s not part of the name: %s" % (label, R5_EXCEPTIONS[label]))
                    continue
                r.violation(key, "the name built by %s does not depend on %s: two compiled functions that differ only "
                            "in that field get the same display name and hence the same linker symbol"
                            % (short(prod), label), "%s:%d" % (mb["file"], mb["line"]))
    r.floor("(producer, identity field) pairs", n, 5)


# ================================================================================================ R4

UNCAPPED_OK = {
    # site function -> reason (frozen): uncapped encoder results that are *references to symbols defined elsewhere*
    "dora_compiler::native_lookup::native_function_symbol":
        "names a function of the Rust runtime, exported by dora-runtime-macros under the uncapped mangle_name(path); "
        "capping here would break the link",
}


def atom_key(a):
    k = a[0]
    if k == "lit":
        return "lit:%s" % a[1]
    if k == "mangle":
        return "mangle[%s@%s]" % (short(a[1]), short(a[2]))
    if k == "field":
        return "field:%s%s.%s" % (short(a[1]), "::" + a[2] if a[2] else "", a[3])
    if k == "format":
        return "format@%s" % short(a[1])
    if k == "post":
        return "post[%s]@%s" % (short(a[1]), short(a[2]))
    if k == "param":
        return "param:%s#%d" % (short(a[1]), a[2])
    return "unknown:%s" % (a[2] if len(a) > 2 else "")


class R4:
    def __init__(self, r, roles, S, tables, suffix_len):
        self.r, self.roles, self.S, self.tables, self.suffix_len = r, roles, S, tables, suffix_len
        self.cc = roles.cc
        self.pv = PV.Prov(self.cc)
        self.fields = {}          # (adt, variant, field) -> first reason it is a sink
        self.work = []
        self.words = {}
        if S is not None:
            for b, w in S.table.items():
                self.words[w] = b
        self.counts = {"site": 0, "construction": 0, "literal": 0, "mangle": 0}

    # ---- helpers ----------------------------------------------------------------------------------------------
    def in_image(self, text):
        """can the encoder produce this symbol?"""
        S = self.S
        b = text.encode("utf-8")
        if S is None or not b.startswith(S.prefix):
            return False
        i = len(S.prefix)
        lens = sorted({len(w) for w in self.words})
        while i < len(b):
            for n in lens:
                if tuple(b[i:i + n]) in self.words and i + n <= len(b):
                    i += n
                    break
            else:
                return False
        return True

    def mangled_len(self, text):
        S = self.S
        return len(S.prefix) + sum(len(S.table[c]) for c in text.encode("utf-8")) + len(S.tail)

    def templates_at(self, fn, line):
        base = re.sub(r"::\{closure#\d+\}", "", fn)
        hb = self.cc.hir.get(base)
        out = []
        if hb is None:
            return None
        for n in hirq.walk(hb["body"]):
            if n[0] == "macro" and n[1].endswith("format_args!") and len(n) > 3 and n[3] == line:
                try:
                    out.append(parse_format_args(n))
                except ValueError:
                    return None
        return out

    def is_local_label(self, atom):
        fas = self.templates_at(atom[1], atom[2])
        if not fas:
            return None
        return all(fa.pieces and fa.pieces[0][0] == "lit" and fa.pieces[0][1].startswith(b".L") for fa in fas)

    def label_bound(self, atom, inner):
        """longest string a local-label template can produce when it embeds a symbol; None when it embeds none"""
        if not any(a[0] in ("field", "mangle") for a in inner) or not self.roles.cap_const:
            return None
        capv = int(self.roles.cap_const["v"])
        digits = {"u8": 3, "u16": 5, "u32": 10, "u64": 20, "usize": 20, "i32": 11, "i64": 20}
        worst = 0
        for fa in self.templates_at(atom[1], atom[2]) or []:
            n = 0
            for pc in fa.pieces:
                if pc[0] == "lit":
                    n += len(pc[1])
                    continue
                d = pc[1]
                if d["index"] >= len(fa.args):
                    return None
                kind, _e, tupty = fa.args[d["index"]]
                tys = [t.strip() for t in tupty.strip("()").split(",") if t.strip()]
                ty = tys[d["index"]].lstrip("&").strip() if d["index"] < len(tys) else ""
                if ty in digits and kind == "display":
                    m = digits[ty]
                elif PV.stringish(ty) and kind == "display":
                    m = capv
                else:
                    return None
                n += max(m, d["width"] or 0)
            worst = max(worst, n)
        return worst

    def where(self, fn, line=None):
        mb = self.cc.mir.get(fn)
        return "%s:%d" % (mb["file"], line or mb["line"]) if mb else None

    # ---- verdict on one atom at a symbol position -------------------------------------------------------------
    def judge(self, ctx, atom, where):
        r, roles = self.r, self.roles
        key = "%s:%s" % (ctx, atom_key(atom))
        k = atom[0]
        if k == "field":
            f = (atom[1], atom[2], atom[3])
            if f not in self.fields:
                self.fields[f] = ctx
                self.work.append(f)
            r.instance(key, nontrivial=False)
            return
        if k == "lit":
            text = atom[1]
            if text.startswith(".L"):
                r.instance(key, nontrivial=False, sample={"local_label": text})
                return
            self.counts["literal"] += 1
            r.instance(key, sample={"literal": text})
            bad = [c for c in text.encode("utf-8") if c not in ALPHABET]
            if bad or not text or text[0].isdigit():
                r.violation(key + ":alphabet", "the fixed symbol %r contains %s, outside [A-Za-z0-9_] (or starts with a "
                            "digit)" % (text, ch(bad[0]) if bad else "a leading digit"), where)
            elif self.in_image(text):
                r.violation(key + ":collides-with-mangled", "the fixed symbol %r is also a possible output of the "
                            "encoder: a Dora function with the right name gets the same linker symbol" % text, where)
            return
        if k == "mangle":
            callee, site, line, cap, args = atom[1], atom[2], atom[3], atom[4], atom[5]
            self.counts["mangle"] += 1
            cap = dict(cap) if cap else None
            sample = {"site": short(site), "callee": short(callee), "cap": cap.get("const") if cap else None}
            r.instance(key, sample=sample)
            w = self.where(site, line)
            if callee == roles.capped:
                if not cap or "const" not in cap or not str(cap.get("v", "")).isdigit():
                    r.violation(key + ":cap-not-constant", "the length cap passed to %s is not a named constant"
                                % short(callee), w)
                    return
                v = int(cap["v"])
                if v > MASM_IDENT_MAX:
                    r.violation(key + ":cap-too-large", "the cap %s = %d exceeds the %d-character identifier limit of "
                                "MASM" % (short(cap["const"]), v, MASM_IDENT_MAX), w)
                if self.suffix_len is not None and v < self.suffix_len:
                    r.violation(key + ":cap-too-small", "the cap %d cannot hold the %d-character hash suffix"
                                % (v, self.suffix_len), w)
                return
            if callee == roles.enc:
                lits = [a for a in args if a[0] == "lit"]
                if args and len(lits) == len(args):
                    capv = int(roles.cap_const["v"]) if roles.cap_const else MASM_IDENT_MAX
                    for a in lits:
                        n = self.mangled_len(a[1])
                        if n > capv:
                            r.violation(key + ":literal-too-long", "mangle_name(%r) is %d characters, above the cap %d "
                                        "used for the definition of that function" % (a[1], n, capv), w)
                    return
                if site in UNCAPPED_OK:
                    o = "uncapped encoder result accepted at %s: %s" % (short(site), UNCAPPED_OK[site])
                    if o not in r.observations:
                        r.observe(o)
                    return
                r.violation(key + ":uncapped", "a symbol is produced by the uncapped %s from a computed name: for a long "
                            "name it exceeds the assembler's identifier limit and differs from the capped symbol under "
                            "which the function is defined" % short(callee), w)
                return
            r.violation(key + ":not-an-encoder", "%s is not a symbol encoder" % callee, w)
            return
        if k == "format":
            loc = self.is_local_label(atom)
            inner = PV.flatten(atom[3])
            if loc:
                bound = self.label_bound(atom, inner)
                r.instance(key, nontrivial=bound is not None, sample={"local_label_format": short(atom[1]),
                                                                      "max_length": bound})
                if bound is not None and bound > MASM_IDENT_MAX:
                    r.violation(key + ":derived-label-too-long", "a local label derived from a function symbol can be "
                                "%d characters long, above the %d-character identifier limit of MASM"
                                % (bound, MASM_IDENT_MAX), self.where(atom[1], atom[2]))
                return
            r.instance(key, sample={"format_at": short(atom[1])})
            m = [a for a in inner if a[0] == "mangle"]
            f = [a for a in inner if a[0] == "field"]
            what = "the mangled symbol (%s)" % atom_key(m[0]) if m else ("a stored symbol (%s)" % atom_key(f[0]) if f
                                                                        else "other strings")
            if loc is None and not m and not f:
                _analysis(r, key + ":format-not-understood", "format! result used as a symbol; its template could not "
                          "be read", self.where(atom[1], atom[2]))
                return
            r.violation(key + ":post-processed", "a linker symbol is built with format! from %s AFTER mangling: whatever "
                        "the template adds is neither escaped nor counted against the length cap"
                        % what, self.where(atom[1], atom[2]))
            return
        if k == "post":
            r.instance(key, sample={"op": atom[1]})
            r.violation(key + ":post-processed", "a linker symbol is the result of %s applied to %s: symbols must be "
                        "the direct result of the encoder" % (atom[1], ", ".join(sorted(atom_key(a) for a in atom[4]))
                                                                or "a string"), self.where(atom[2], atom[3]))
            return
        r.instance(key, nontrivial=False)
        _analysis(r, key, "cannot tell where this symbol string comes from", where)

    # ---- writer family ----------------------------------------------------------------------------------------
    def family(self):
        cc = self.cc
        fam = {}
        bodies = {p: cfg.Body(mb) for p, mb in cc.mir.items()}
        defs = {}

        def dd(p):
            if p not in defs:
                defs[p] = cfg.simple_defs(bodies[p])
            return defs[p]
        for p, B in bodies.items():
            for c in B.calls:
                if c.name in cc.mir:
                    for i, a in enumerate(c.args):
                        if a[0] == "k":
                            continue
                        inner, _s, _u = through_views(term(B, dd(p), a))
                        if inner[0] == "call" and inner[1].startswith("dora_symbol::"):
                            fam[c.name] = i
        roots = set(fam)
        changed = True
        while changed:
            changed = False
            for p, B in bodies.items():
                if p in fam:
                    continue
                for c in B.calls:
                    if c.name in fam and fam[c.name] < len(c.args):
                        a = c.args[fam[c.name]]
                        if a[0] == "k":
                            continue
                        inner, sl, _u = through_views(term(B, dd(p), a))
                        if inner[0] == "param" and not sl and strip_ref(B.local_ty(inner[1])) == "str":
                            fam[p] = inner[1] - 1
                            changed = True
        return fam, roots, bodies

    def run(self):
        r, cc = self.r, self.cc
        fam, roots, bodies = self.family()
        if not r.anchor("function receiving the encoder's result directly (symbol decorator of the assembly writer)",
                        roots):
            return
        r.floor("global-symbol writer functions (by data flow into the symbol decorator)", len(fam), 6)
        for w in sorted(fam):
            r.observe("symbol writer: %s (parameter %d)" % (w, fam[w] + 1))
        # sites
        for p, B in sorted(bodies.items()):
            for c in B.calls:
                if c.name not in fam or fam[c.name] >= len(c.args):
                    continue
                a = c.args[fam[c.name]]
                if p in fam and a[0] != "k":
                    inner, _s, _u = through_views(term(B, cfg.simple_defs(B), a))
                    if inner == ("param", fam[p] + 1):
                        continue             # forwarding inside the family
                atoms = self.pv.query(p, a)
                self.counts["site"] += 1
                ctx = "%s->%s" % (p, short(c.name))
                if not atoms:
                    _analysis(r, ctx + ":no-provenance", "cannot tell where the symbol string comes from", c.where())
                for at in sorted(atoms, key=atom_key):
                    self.judge(ctx, at, c.where())
        # constructions of the sink fields
        while self.work:
            f = self.work.pop()
            self.constructions(f, bodies)
        r.floor("symbol writer call sites", self.counts["site"], 100)
        r.floor("record fields holding symbols", len(self.fields), 10)
        r.floor("construction sites of symbol-holding fields", self.counts["construction"], 25)
        r.floor("fixed literal symbols", self.counts["literal"], 100)
        r.floor("encoder call sites reaching a symbol position", self.counts["mangle"], 7)

    def constructions(self, f, bodies):
        r = self.r
        adt_path, variant, field = f
        adt = self.pv.adts.get(adt_path)
        label = "%s%s.%s" % (short(adt_path), "::" + variant if variant else "", field)
        if adt is None:
            _analysis(r, "field:%s:no-adt" % label, "record type not found")
            return
        vs = [v for v in adt["variants"] if variant is None or v["name"] == variant]
        idx = [i for i, fl in enumerate(vs[0]["fields"]) if fl["name"] == field][0]
        n = 0
        for p, B in sorted(bodies.items()):
            k = 0
            for bi, blk in enumerate(B.blocks):
                if blk["c"]:
                    continue
                for st in blk["s"]:
                    if st[0] != "a":
                        continue
                    rv = st[2]
                    ops = []
                    if rv[0] == "agg" and rv[1][0] == "adt" and rv[1][1] == adt_path and \
                            (variant is None or (len(rv[1]) > 2 and rv[1][2] == variant)) and idx < len(rv[2]):
                        ops.append(rv[2][idx])
                    elif st[1][1]:
                        fa = self.pv.field_atom(B.local_ty(st[1][0]), st[1][1])
                        if fa is not None and (fa[0], fa[1], fa[2]) == f and fa[4] == len(st[1][1]) and \
                                rv[0] in ("use", "cast"):
                            ops.append(rv[1] if rv[0] == "use" else rv[2])
                    for o in ops:
                        k += 1
                        n += 1
                        self.counts["construction"] += 1
                        ctx = "%s@%s%s" % (label, p, "#%d" % k if k > 1 else "")
                        where = "%s:%d" % (B.file, st[3])
                        atoms = self.pv.query(p, o)
                        if not atoms:
                            if "Option" in vs[0]["fields"][idx]["ty"] or "Vec" in vs[0]["fields"][idx]["ty"] or \
                                    "HashMap" in vs[0]["fields"][idx]["ty"]:
                                r.instance(ctx + ":empty", nontrivial=False)
                                continue
                            _analysis(r, ctx + ":no-provenance", "cannot tell where the stored symbol comes from", where)
                        for at in sorted(atoms, key=atom_key):
                            self.judge(ctx, at, where)
            # writes through `&mut <place>.field` (containers held in the field)
            mr = None
            for c in B.calls:
                for i, a in enumerate(c.args):
                    if a[0] not in ("c", "m") or a[1][1]:
                        continue
                    self.pv.all_defs(p)
                    pl = self.pv._mutrefs[p].get(a[1][0])
                    if pl is None or not pl[1]:
                        continue
                    fa = self.pv.field_atom(B.local_ty(pl[0]), pl[1])
                    if fa is None or (fa[0], fa[1], fa[2]) != f:
                        continue
                    for j, b in enumerate(c.args):
                        if j != i and self.pv._op_stringish(B, b):
                            k += 1
                            n += 1
                            self.counts["construction"] += 1
                            ctx = "%s@%s%s" % (label, p, "#%d" % k if k > 1 else "")
                            for at in sorted(self.pv.query(p, b), key=atom_key):
                                self.judge(ctx, at, c.where())
        if n == 0:
            _analysis(r, "field:%s:never-constructed" % label, "no construction site of %s found in dora_compiler "
                      "(reached from %s)" % (label, self.fields[f]))


def run_r4(chk, F, roles, S, tables, suffix_len):
    r = chk.rule("C19.R4", "every string that reaches a global-symbol writer of the assembly emitter (directly or "
                           "through a record field, followed back to every construction site) is the direct result of "
                           "the length-capped encoder with a constant cap within the assemblers' limit, of the uncapped "
                           "encoder on a literal / a native-runtime name, or a fixed literal in [A-Za-z0-9_] that the "
                           "encoder cannot produce — never a format!/string operation applied after mangling")
    ok = r.anchor("encoder summary (C19.R1)", S is not None and len(S.table) == 256)
    ok = r.anchor("length-capped symbol helper in dora_compiler (calls the capped mangler with a constant)",
                  roles.short and roles.cap_const and "const" in roles.cap_const) and ok
    if not ok:
        return
    R4(r, roles, S, tables, suffix_len).run()


def run(chk, F):
    roles = Roles(F)
    it = A.Interp(roles.cs, const_str=roles.const_str)
    S = run_r1(chk, F, roles, it)
    tables = run_r2(chk, F, roles, it, S)
    suffix_len = run_r3(chk, F, roles, tables)
    run_r4(chk, F, roles, S, tables, suffix_len)
    run_r5(chk, F, roles)
    run_r6(chk, F)


# ================================================================================================ R6
def run_r6(chk, F):
    """The linker symbol of a function instantiation is the mangled *display name*; R2 shows the mangler is injective,
    so two instantiations collide exactly when their display names are equal.  The display name of a function is
    module-qualified (display_fct_inner goes through module_path*), but the names of the nominal types among its type
    arguments come from the type printer.  A nominal type printed without its module path makes `id[a::Foo]` and
    `id[b::Foo]` one symbol; a trait-object type printed without its associated-type bindings makes
    `id[Src[Item = Int64]]` and `id[Src[Item = String]]` one symbol."""
    import hirq
    r = chk.rule("C19.R6", "the type printer behind symbol display names keeps distinct types distinct: every nominal "
                           "type (class, struct, enum, trait object) is printed with its module path, like function "
                           "names are, and a trait object's associated-type bindings are printed")
    bc = F.crate("dora_bytecode")
    helpers = {p for p in bc.hir if p.startswith("dora_bytecode::display::module_path")}
    if not r.anchor("module-path helpers used for function display names", helpers):
        return
    fct = bc.hir_fn("display::display_fct_inner")
    uses = fct is not None and any(
        n[0] == "call" and hirq.is_node(n[2]) and n[2][:2] == ["def", "fn"] and n[2][2] in helpers
        for n in hirq.walk(fct["body"]))
    r.anchor("display_fct_inner qualifies function names with the module path", uses)
    printers = []
    for p, b in bc.hir.items():
        if "dora_bytecode::display::" not in p or last_seg(p) != "fmt":
            continue
        for n in hirq.walk(b["body"]):
            if n[0] == "match":
                arms = [(pat, body) for (pat, _g, body) in n[2]
                        if any(m[0] in ("pts", "pstruct", "ppath") and "BytecodeType::" in m[1][2] for m in hirq.walk(pat))]
                if len(arms) >= 8:
                    printers.append((p, b, arms))
    if not r.anchor("type printer (Display impl that matches on BytecodeType)", printers):
        return
    p, b, arms = printers[0]
    where = "%s:%d" % (b["file"], b["line"])
    n_nominal = 0
    for pat, body in arms:
        variants = [last_seg(m[1][2]) for m in hirq.walk(pat) if m[0] in ("pts", "pstruct", "ppath")
                    and "BytecodeType::" in m[1][2]]
        # nominal: the arm prints the `.name` field of a definition looked up in the program
        prints_name = any(m[0] == "field" and m[2] == "name" for m in hirq.walk(body))
        if not prints_name:
            continue
        for v in variants:
            if v not in ("Class", "Struct", "Enum", "TraitObject"):
                continue        # type aliases / associated types are resolved before code is generated: never in a symbol
            n_nominal += 1
            qualified = any(m[0] == "call" and hirq.is_node(m[2]) and m[2][:2] == ["def", "fn"] and m[2][2] in helpers
                            for m in hirq.walk(body))
            r.instance("%s:%s:module-path" % (p, v), sample={"type": v, "module_qualified": qualified})
            if not qualified:
                r.violation("%s:%s:printed-without-module-path" % (p, v),
                            "BytecodeType::%s is printed by its bare name: two types of the same name in different "
                            "modules give the same display name, so a generic function instantiated with both gets one "
                            "linker symbol twice (`mod a { class Foo }  mod b { class Foo }  id[a::Foo](..); "
                            "id[b::Foo](..)` → assembler: symbol `dora_id_5BFoo_5D' is already defined)" % v, where)
        # trait objects: the bindings must reach the output
        binds = [m[1] for m in hirq.walk(pat) if m[0] == "pbind" and "binding" in m[1]]
        for bn in binds:
            printed = any(m[0] == "local" and m[1] == bn and True for c_ in hirq.walk(body)
                          if c_[0] in ("call", "mcall") and "is_empty" not in str(c_[3] if c_[0] == "mcall" else "")
                          for m in hirq.walk(c_) if c_[0] == "call" or c_[3] != "is_empty")
            r.instance("%s:%s:bindings-printed" % (p, variants[0]), sample={"bindings_local": bn, "printed": printed})
            if not printed:
                r.violation("%s:%s:bindings-not-printed" % (p, variants[0]),
                            "the associated-type bindings of a trait-object type are tested for emptiness but never "
                            "printed (the type parameters are printed a second time): `id[Src[Item = Int64]]` and "
                            "`id[Src[Item = String]]` get the same display name and the same linker symbol", where)
    r.floor("nominal type arms of the type printer", n_nominal, 4)


def last_seg(p):
    return p.rsplit("::", 1)[-1]

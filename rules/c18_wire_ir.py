"""C18.R4 helper: codec signature trees and their structural comparison.

A codec function (one side of the Rust<->Dora wire) is summarised into a list of elements

    prim    w bytes of one scalar (class u8/bool/u32/u64 by width and by the helper's parameter/return type); may carry
            a constant (value, constant name) when the writer emits a tag
    call    another codec function (compared as a pair, or expanded in place when the two sides are factored
            differently)
    loop    body repeated `len` times; `len` is the id of the prim that carries the count
    switch  continuation chosen by the value of the prim `tag`: arms keyed by integer value, each with the variant it
            encodes/decodes and its own element list; a diverging arm (panic/unreachable) accepts nothing
    opaque  something the summariser could not express: the function is reported as not analysed, never guessed

Two trees agree when they are bisimilar: same widths in the same order, loops counted by the prim at the same position,
switches on the prim at the same position with, for every tag value the writer can emit, a live reader arm for the same
variant whose continuation agrees.  Recursion (bytecode types contain type arrays contain types) is handled by
assuming a pair equal while it is being compared.
"""
import copy
import itertools
import re

_ids = itertools.count(1)


def new_id():
    return next(_ids)


_registry = {}


def prim(w, cls, const=None, note=None, line=None, lenof=None, names=()):
    p = {"t": "prim", "w": w, "cls": cls, "id": new_id(), "const": const, "note": note, "line": line,
         "lenof": lenof, "names": set(norm_ident(n) for n in names if n)}
    _registry[p["id"]] = p
    return p


def add_name(prim_id, name):
    """the reader binds the value of this element to `name` (a local, a field of the decoded record)"""
    p = _registry.get(prim_id)
    if p is not None and name:
        p["names"].add(norm_ident(name))


def call(key, label, line=None):
    return {"t": "call", "f": key, "label": label, "line": line}


def loop(length, body, line=None, why=None):
    return {"t": "loop", "len": length, "body": body, "line": line, "why": why}


def switch(tag, arms, default=None, line=None):
    """arms: [{'vals': [(value, const name|None)], 'variant': str|None, 'seq': [...], 'div': bool}]"""
    return {"t": "switch", "tag": tag, "arms": arms, "default": default, "line": line}


def opaque(why, line=None):
    return {"t": "opaque", "why": why, "line": line}


class Fn:
    def __init__(self, key, name, lang, side, seq, where, owner=None):
        self.key = key
        self.name = name
        self.lang = lang            # 'rust' | 'dora'
        self.side = side            # 'w' | 'r'
        self.seq = seq
        self.where = where
        self.owner = owner          # file / module, for messages
        stamp(seq, owner)

    def label(self):
        return "%s:%s" % (self.lang, self.name)


def stamp(seq, file):
    for e in seq:
        e.setdefault("file", file)
        if e["t"] == "loop":
            stamp(e["body"], file)
        elif e["t"] == "switch":
            for a in e["arms"]:
                a.setdefault("file", file)
                stamp(a["seq"], file)
            if e["default"]:
                stamp(e["default"]["seq"], file)


def opaque_reasons(seq, out=None):
    if out is None:
        out = []
    for e in seq:
        if e["t"] == "opaque":
            out.append(e["why"])
        elif e["t"] == "loop":
            opaque_reasons(e["body"], out)
        elif e["t"] == "switch":
            for a in e["arms"]:
                opaque_reasons(a["seq"], out)
            if e["default"]:
                opaque_reasons(e["default"]["seq"], out)
    return out


def fresh(seq):
    """deep copy with fresh prim ids (an expanded callee must not share ids with another expansion)"""
    seq = copy.deepcopy(seq)
    ren = {}

    def pass1(s):
        for e in s:
            if e["t"] == "prim":
                ren[e["id"]] = new_id()
                e["id"] = ren[e["id"]]
            elif e["t"] == "loop":
                pass1(e["body"])
            elif e["t"] == "switch":
                for a in e["arms"]:
                    pass1(a["seq"])
                if e["default"]:
                    pass1(e["default"]["seq"])

    def pass2(s):
        for e in s:
            if e["t"] == "loop":
                e["len"] = ren.get(e["len"], e["len"])
                pass2(e["body"])
            elif e["t"] == "switch":
                e["tag"] = ren.get(e["tag"], e["tag"])
                for a in e["arms"]:
                    pass2(a["seq"])
                if e["default"]:
                    pass2(e["default"]["seq"])
    pass1(seq)
    pass2(seq)
    return seq


def render(seq, fns=None, depth=0):
    out = []
    for e in seq:
        t = e["t"]
        if t == "prim":
            s = e["cls"]
            if e["const"] is not None:
                s += "=%s" % (e["const"][1] or e["const"][0])
            out.append(s)
        elif t == "call":
            out.append("%s()" % e["label"])
        elif t == "loop":
            out.append("loop[%s]" % render(e["body"], fns, depth + 1))
        elif t == "switch":
            if depth > 1:
                out.append("switch{..}")
            else:
                arms = []
                for a in e["arms"][:4]:
                    vs = "|".join(str(v[1] or v[0]) for v in a["vals"])
                    arms.append("%s:%s" % (vs, "!" if a["div"] else "[%s]" % render(a["seq"], fns, depth + 2)))
                out.append("switch{%s%s}" % (", ".join(arms), ", .." if len(e["arms"]) > 4 else ""))
        else:
            out.append("?")
    return " ".join(out)


def norm_ident(s):
    return re.sub(r"[^a-z0-9]", "", (s or "").split("::")[-1].lower())


STOP = {"reader", "writer", "buffer", "self", "value", "data", "index", "idx", "id", "len", "size", "unwrap"}
CLS_OF_WIDTH = {1: "u8", 2: "u16", 4: "u32", 8: "u64", 16: "u128"}


class Diff:
    def __init__(self, kind, path, msg, w=None, r=None):
        """w / r: the writer / reader element (or arm) the difference is at"""
        self.kind = kind            # width | count | kind | length-prefix | tag-source | tag-unread | tag-variant | ...
        self.path = path
        self.msg = msg
        self.wloc = _loc(w)
        self.rloc = _loc(r)


def _loc(e):
    if isinstance(e, dict) and e.get("file") and e.get("line"):
        return "%s:%s" % (e["file"], e["line"])
    return None


class Comparer:
    MAX_EXPAND = 400

    def __init__(self, fns, stem_of):
        self.fns = fns                       # key -> Fn
        self.stem_of = stem_of               # key -> normalised stem
        self.memo = {}                       # (wkey, rkey) -> list of Diff | 'busy'
        self.covered = set()                 # function keys that took part in some comparison
        self.notes = []                      # observations (reader-only tags ...)
        self.induced = set()                 # pairs reached through corresponding call positions
        self.ctx = []

    # -- pairs
    def pair(self, wk, rk):
        key = (wk, rk)
        if key in self.memo:
            v = self.memo[key]
            return [] if v == "busy" else v
        self.memo[key] = "busy"
        self.covered.add(wk)
        self.covered.add(rk)
        W, R = self.fns[wk], self.fns[rk]
        diffs = []
        self.ctx.append("%s~%s" % (W.name, R.name))
        try:
            self.seq(fresh(W.seq), fresh(R.seq), {}, "", diffs, [wk], [rk], [0])
        finally:
            self.ctx.pop()
        self.memo[key] = diffs
        return diffs

    # -- sequences
    def seq(self, ws, rs, idmap, path, diffs, wstack, rstack, budget):
        ws, rs = list(ws), list(rs)
        i = j = 0
        pos = 0
        matched = []
        try:
            self._seq(ws, rs, idmap, path, diffs, wstack, rstack, budget, matched)
        finally:
            self.permutations(matched, path, diffs)

    def permutations(self, matched, path, diffs):
        """two same-width neighbours whose names cross over: the writer's i-th operand is named like what the reader
        binds at j and vice versa, and neither agrees at its own position"""
        for x in range(len(matched)):
            for y in range(x + 1, len(matched)):
                (pa, a1, b1), (pb, a2, b2) = matched[x], matched[y]
                n1w, n1r, n2w, n2r = (a1.get("names") or set()) - STOP, (b1.get("names") or set()) - STOP, \
                    (a2.get("names") or set()) - STOP, (b2.get("names") or set()) - STOP
                if a1["w"] != a2["w"] or not (n1w and n1r and n2w and n2r):
                    continue
                if (n1w & n2r) and (n2w & n1r) and not (n1w & n1r) and not (n2w & n2r):
                    diffs.append(Diff("permuted", "%s[%d]" % (path, pa), "elements %d and %d have the same width but "
                                      "the writer's operands (%s%s then %s%s) are named like what the reader binds in "
                                      "the opposite order (%s then %s)" % (
                                          pa, pb, a1["cls"], note(a1), a2["cls"], note(a2),
                                          "/".join(sorted(n1r)), "/".join(sorted(n2r))), a1, b1))

    def _seq(self, ws, rs, idmap, path, diffs, wstack, rstack, budget, matched):
        i = j = 0
        pos = 0
        while i < len(ws) or j < len(rs):
            a = ws[i] if i < len(ws) else None
            b = rs[j] if j < len(rs) else None
            here = "%s[%d]" % (path, pos)
            if a is not None and b is not None and a["t"] == "call" and b["t"] == "call":
                sub = self.pair(a["f"], b["f"])
                same_stem = self.stem_of.get(a["f"]) == self.stem_of.get(b["f"])
                if not sub or same_stem:
                    self.induced.add((a["f"], b["f"]))
                    i += 1
                    j += 1
                    pos += 1
                    continue
                # differently factored helpers: open the wrapper (the side whose body starts with another call)
                # first so that same-named callees still meet as a pair; otherwise compare the contents in place
                fa, fb = self.fns.get(a["f"]), self.fns.get(b["f"])
                a_wraps = bool(fa and fa.seq and fa.seq[0]["t"] == "call")
                b_wraps = bool(fb and fb.seq and fb.seq[0]["t"] == "call")
                if b_wraps and not a_wraps:
                    if not self.expand(rs, j, b, rstack, budget, diffs, here, "reader"):
                        return
                elif a_wraps and not b_wraps:
                    if not self.expand(ws, i, a, wstack, budget, diffs, here, "writer"):
                        return
                elif not self.expand(ws, i, a, wstack, budget, diffs, here, "writer") or \
                        not self.expand(rs, j, b, rstack, budget, diffs, here, "reader"):
                    return
                continue
            if a is not None and a["t"] == "call" and (b is None or b["t"] != "call"):
                if not self.expand(ws, i, a, wstack, budget, diffs, here, "writer"):
                    return
                continue
            if b is not None and b["t"] == "call" and (a is None or a["t"] != "call"):
                if not self.expand(rs, j, b, rstack, budget, diffs, here, "reader"):
                    return
                continue
            if a is None or b is None:
                if a is None:
                    diffs.append(Diff("count", here, "the reader goes on to read %s but the writer has written nothing "
                                      "more" % describe(b), None, b))
                else:
                    diffs.append(Diff("count", here, "the writer goes on to write %s but the reader reads nothing more"
                                      % describe(a), a, None))
                return
            if a["t"] == "opaque" or b["t"] == "opaque":
                diffs.append(Diff("opaque", here, "not summarisable: %s" % (a.get("why") or b.get("why")),
                                  a, b))
                return
            if a["t"] != b["t"]:
                diffs.append(Diff("kind", here, "the writer produces %s where the reader expects %s"
                                  % (describe(a), describe(b)), a, b))
                return
            if a["t"] == "prim":
                idmap[a["id"]] = b["id"]
                matched.append((pos, a, b))
                if a["w"] != b["w"]:
                    diffs.append(Diff("width", here, "the writer emits %d byte(s) (%s%s) where the reader takes %d "
                                      "byte(s) (%s%s)" % (a["w"], a["cls"], note(a), b["w"], b["cls"], note(b)),
                                      a, b))
                    return
                if (a["cls"] == "bool") != (b["cls"] == "bool"):
                    diffs.append(Diff("class", here, "one side treats this byte as a bool (%s%s), the other as a "
                                      "number (%s%s)" % (a["cls"], note(a), b["cls"], note(b)),
                                      a, b))
            elif a["t"] == "loop":
                if a["len"] is None or b["len"] is None:
                    diffs.append(Diff("opaque", here, "the count of a loop could not be tied to an element (%s)"
                                      % ("writer: %s" % a.get("why") if a["len"] is None else
                                         "reader: %s" % b.get("why")), a, b))
                elif idmap.get(a["len"]) != b["len"]:
                    diffs.append(Diff("length-prefix", here, "the writer counts this loop with a different element "
                                      "than the one the reader uses as the count", a, b))
                self.seq(a["body"], b["body"], idmap, here + ".body", diffs, wstack, rstack, budget)
            elif a["t"] == "switch":
                if idmap.get(a["tag"]) != b["tag"]:
                    diffs.append(Diff("tag-source", here, "the writer's variant tag is not the element the reader "
                                      "dispatches on", a, b))
                self.switch(a, b, idmap, here, diffs, wstack, rstack, budget)
            i += 1
            j += 1
            pos += 1

    def expand(self, lst, idx, c, stack, budget, diffs, here, side):
        f = self.fns.get(c["f"])
        if f is None:
            diffs.append(Diff("opaque", here, "%s calls %s, which has no summary" % (side, c["label"]), None, None))
            return False
        if c["f"] in stack[1:] and stack.count(c["f"]) >= 2 or budget[0] > self.MAX_EXPAND:
            diffs.append(Diff("kind", here, "the %s calls %s here but the other side has no corresponding call "
                              "(recursive structure not aligned)" % (side, c["label"]), None, None))
            return False
        budget[0] += 1
        self.covered.add(c["f"])
        stack.append(c["f"])
        lst[idx:idx + 1] = fresh(f.seq)
        return True

    def switch(self, a, b, idmap, here, diffs, wstack, rstack, budget):
        rmap = {}
        for arm in b["arms"]:
            for (v, cn) in arm["vals"]:
                rmap.setdefault(v, (arm, cn))
        written = set()
        for arm in a["arms"]:
            if arm["div"]:
                continue
            for (v, cn) in arm["vals"]:
                written.add(v)
                tagname = "%s%s" % (v, " (%s)" % cn if cn else "")
                sub = "%s{%s}" % (here, cn or v)
                hit = rmap.get(v)
                if hit is None:
                    d = b.get("default")
                    if d is None or d["div"]:
                        diffs.append(Diff("tag-unread", sub, "the writer emits tag %s for %s but the reader has no arm "
                                          "for that value%s" % (tagname, arm["variant"] or "this case",
                                                                " (it falls into the diverging default)" if d else ""),
                                          arm, b))
                    else:
                        self.seq(arm["seq"], d["seq"], dict(idmap), sub, diffs, list(wstack), list(rstack), budget)
                    continue
                rarm, rcn = hit
                if rarm["div"]:
                    diffs.append(Diff("tag-unread", sub, "the writer emits tag %s for %s but the reader's arm for that "
                                      "value diverges" % (tagname, arm["variant"] or "this case"),
                                      arm, rarm))
                    continue
                if arm["variant"] and rarm["variant"] and norm_ident(arm["variant"]) != norm_ident(rarm["variant"]):
                    diffs.append(Diff("tag-variant", sub, "tag %s is written for variant %s but read back as variant "
                                      "%s%s" % (tagname, arm["variant"], rarm["variant"],
                                                " (reader constant %s)" % rcn if rcn else ""),
                                      arm, rarm))
                if cn and rcn and norm_ident(cn) != norm_ident(rcn):
                    self.notes.append("%s%s: value %s is called %s by the writer and %s by the reader"
                                      % (self.ctx[-1] if self.ctx else "", sub, v, cn, rcn))
                self.seq(arm["seq"], rarm["seq"], dict(idmap), sub, diffs, list(wstack), list(rstack), budget)
        extra = sorted(v for v in rmap if v not in written and not rmap[v][0]["div"])
        if extra:
            self.notes.append("%s%s: the reader also accepts tag value(s) %s that this writer never emits"
                              % (self.ctx[-1] if self.ctx else "", here,
                                 ", ".join("%s%s" % (v, " (%s)" % rmap[v][1] if rmap[v][1] else "")
                                                 for v in extra[:6])))


def generic_branch(arms, out, line, what):
    """arms: [(variant label, seq, status)] of a branch that is not a dispatch on a value read from the stream"""
    live = [a for a in arms if a[2] == "fall"]
    if any(a[2] in ("ret", "brk", "cont") and a[1] for a in arms) or \
            (any(a[2] in ("ret", "brk", "cont") for a in arms) and any(a[1] for a in live)):
        out.append(opaque("early exit under a condition (%s)" % what, line))
        return None
    if all(not a[1] for a in live):
        if not live and arms:
            return "div"
        return None
    heads = [a[1][0] if a[1] else None for a in live]
    if len(live) >= 1 and all(h is not None and h["t"] == "prim" and h["const"] is not None for h in heads) \
            and len({h["w"] for h in heads}) == 1 and (len(live) > 1 or any(a[2] == "div" for a in arms)
                                                      or len(arms) > 1):
        tag = prim(heads[0]["w"], heads[0]["cls"], note="tag of " + what, line=heads[0]["line"])
        sw_arms = []
        for (label, seq, _st) in live:
            sw_arms.append({"vals": [seq[0]["const"]], "variant": label, "seq": seq[1:], "div": False,
                            "line": seq[0]["line"]})
        out.append(tag)
        out.append(switch(tag["id"], sw_arms, None, line))
        return None
    if len(live) == 1:
        out.extend(live[0][1])
        return None
    rs = [render(a[1]) for a in live]
    if all(x == rs[0] for x in rs):
        out.extend(live[0][1])
        return None
    out.append(opaque("the arms of %s move different data without a leading constant tag" % what, line))


def note(e):
    return (" `%s`" % e["note"]) if e.get("note") else ""


def describe(e):
    t = e["t"]
    if t == "prim":
        return "%d byte(s) (%s%s)" % (e["w"], e["cls"], note(e))
    if t == "call":
        return "a call of %s" % e["label"]
    if t == "loop":
        return "a counted loop [%s]" % render(e["body"])
    if t == "switch":
        return "a tag dispatch (%d arms)" % len(e["arms"])
    return "something not summarisable (%s)" % e.get("why")

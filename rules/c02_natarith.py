"""C02.R8 — arithmetic on program-supplied integers inside the runtime's natives.

A native entry receives Int64 lengths, offsets and indices straight from the Dora program.  Rust's
`+`, `-`, `*` on them panic in debug builds ("attempt to add with overflow" → the runtime aborts) and
wrap in release builds (the following bounds test then passes for out-of-range values).  Either way
the run does not end "in a defined way".  Rule: in functions reachable from a native entry, an
overflow-checked Add/Mul whose operands *both* derive from program-supplied integer parameters, or a
Sub whose subtrahend does, must be preceded on every path by a guard that can bound the operands
(upper-bound comparison or a boolean predicate on a member of the operand's derivation family;
`checked_*`/`saturating_*`/`wrapping_*` calls are not overflow-checked operators and are not sites).
Guard *existence* is checked, not numeric adequacy.  Program-supplied = integer parameter of a native
entry, or a parameter that some caller fills with a program-supplied value (forwarding fixpoint).
"""
import cfg
from rules import narrowcast as nc

RT = "dora_runtime::"
INT = {"i64", "u64", "usize", "isize", "i32", "u32", "i16", "u16", "i8", "u8"}
EXCLUDE = (RT + "gc::", RT + "snapshot", RT + "os::", RT + "mem::")


def last(p):
    return p.rsplit("::", 1)[-1]


def run(chk, F, cg, rid="C02.R8"):
    r = chk.rule(rid, "natives: overflow-checked +,-,* on program-supplied integers is preceded by a bounding guard "
                      "(otherwise extreme lengths/offsets abort the runtime or wrap past the bounds test)")
    c = F.crate("dora_runtime")
    entries = [f["path"] for f in c.items["fns"] if f.get("symbol") and f.get("has_body")]
    r.floor("native entry points", len(entries), 40)
    reach = cg.reachable_from(entries)
    # program-supplied parameters: (fn, local index)
    supplied = set()
    bodies = {}
    for p in entries:
        B = cg.body(p)
        if B is None:
            continue
        bodies[p] = B
        for i in range(1, B.argc + 1):
            if B.local_ty(i) in INT:
                supplied.add((p, i))
    # natives usually wrap their body in `handle_scope(|| ..)`: the operands reach the helper through closure
    # captures, which the forwarding fixpoint below does not follow.  The helpers that implement natives live in
    # stdlib*/mirror*: their integer parameters are treated as program-supplied when the function is reachable
    # from a native entry.
    for p in sorted(reach):
        if p.startswith((RT + "stdlib", RT + "mirror")) and "{closure" not in p:
            B = cg.body(p)
            if B is None:
                continue
            bodies[p] = B
            for i in range(1, B.argc + 1):
                if B.local_ty(i) in INT:
                    supplied.add((p, i))
    changed = True
    rounds = 0
    while changed and rounds < 6:
        changed = False
        rounds += 1
        for p in sorted(reach):
            if not p.startswith(RT) or p.startswith(EXCLUDE):
                continue
            B = bodies.get(p) or cg.body(p)
            if B is None:
                continue
            bodies[p] = B
            mine = {i for (q, i) in supplied if q == p}
            if not mine:
                continue
            defs = cfg.simple_defs(B)
            for x in B.calls:
                if not x.name or not x.name.startswith(RT) or x.name.startswith(EXCLUDE) or x.name not in cg.bodies:
                    continue
                for ai, a in enumerate(x.args):
                    if a[0] not in ("c", "m"):
                        continue
                    fam, root, m, sh = nc.family(B, a[1][0], defs)
                    if root in mine and not m:
                        CB = bodies.get(x.name) or cg.body(x.name)
                        if CB is None:
                            continue
                        bodies[x.name] = CB
                        pi = ai + 1
                        if pi <= CB.argc and CB.local_ty(pi) in INT and (x.name, pi) not in supplied:
                            supplied.add((x.name, pi))
                            changed = True
    r.observe("program-supplied integer parameters: %d in %d functions" % (
        len(supplied), len({q for (q, _i) in supplied})))
    nsites = 0
    for p in sorted({q for (q, _i) in supplied}):
        if p.startswith(EXCLUDE):
            continue
        B = bodies[p]
        mine = {i for (q, i) in supplied if q == p}
        defs = cfg.simple_defs(B)
        for bi, blk in enumerate(B.blocks):
            if blk["c"] or bi not in B.reachable(0):
                continue
            for s in blk["s"]:
                if not (s[0] == "a" and s[2][0] == "bin" and s[2][1] in (
                        "AddWithOverflow", "SubWithOverflow", "MulWithOverflow")):
                    continue
                op = s[2][1][:3]
                ops = s[2][2:4]
                infos = []
                for o in ops:
                    if o[0] in ("c", "m"):
                        fam, root, masked, shifted = nc.family(B, o[1][0], defs)
                        infos.append((fam, root, masked, root in mine))
                    else:
                        infos.append((set(), None, False, False))
                if op in ("Add", "Mul"):
                    relevant = infos[0][3] and infos[1][3]
                    need = [0, 1]
                else:
                    relevant = infos[1][3]
                    need = [1]
                if not relevant:
                    continue
                nsites += 1
                names = [B.local_name(infos[i][1]) or "_%s" % infos[i][1] for i in need]
                key = "%s:%s(%s)" % (p, op.lower(), ",".join(names))
                missing = []
                for i in need:
                    fam, root, masked, _sup = infos[i]
                    if masked:
                        continue
                    up, lo, det = nc.guards_for(B, bi, fam, defs)
                    if not up:
                        missing.append(B.local_name(root) or "_%s" % root)
                r.instance(key + "@%d" % s[3], sample={"fn": p, "op": op, "operands": names, "unguarded": missing})
                if missing:
                    r.violation(key + ":unguarded",
                                "`%s` on program-supplied %s with no bounding guard on %s before it: an extreme value "
                                "makes the runtime panic ('attempt to %s with overflow', process aborts) in debug "
                                "builds and wrap past the following bounds test in release builds" % (
                                    {"Add": "+", "Sub": "-", "Mul": "*"}[op], " and ".join(names),
                                    " and ".join(missing), {"Add": "add", "Sub": "subtract", "Mul": "multiply"}[op]),
                                "%s:%d" % (B.file, s[3]))
    r.floor("arithmetic sites on program-supplied integers", nsites, 1)

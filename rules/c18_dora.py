"""C18.R1 helper: the Dora-side counterpart of c18_hir.Interp — an abstract interpreter over Dora syntax trees (dorafacts)
that summarises a byte-stream reader class into operand signatures.  Shares the engine (paths, tokens, collapsing)
with the HIR interpreter; only expression evaluation differs.  Nothing is executed."""
import doraq
from rules.c18_hir import (Interp, Val, unk, UNIT, Unsupported, _Return, _Break, _Continue, _Diverge, State)

# Dora standard-library functions that never return (std, not the analysed package)
DIVERGES = {"std::fatal_error", "fatal_error", "unreachable", "std::unreachable", "unimplemented", "std::unimplemented"}
RANGE_FNS = {"std::range", "range"}      # std::range(lo, hi): the half-open integer range


def class_fields(tree, cname):
    """{field name: type text} of `class cname { .. }`"""
    for n in doraq.walk(tree):
        if n[0] in ("CLASS", "STRUCT") and doraq.ident(n) == cname:
            out = {}
            for fd in doraq.walk(n):
                if fd[0] == "FIELD_DECL":
                    nm = doraq.ident(fd)
                    tys = [x for x in doraq.nodes(fd) if x[0].endswith("_TYPE")]
                    out[nm] = doraq.text(tys[0]) if tys else None
            return out
    return None


def enum_variants(tree, ename):
    """{variant: number of unnamed fields} in declaration order, or None"""
    for n in doraq.walk(tree):
        if n[0] == "ENUM" and doraq.ident(n) == ename:
            out = {}
            for v in doraq.walk(n):
                if v[0] == "ENUM_VARIANT":
                    out[doraq.ident(v)] = sum(1 for x in doraq.walk(v) if x[0] == "FIELD_DECL")
            return out
    return None


class DoraInterp(Interp):
    def __init__(self, fns, stream, cursor, fields):
        """fns: {method name: doraq.Fn} of the reader class; fields: its field names"""
        self.fns = fns
        self.fields = fields
        self.stream = stream
        self.cursor = cursor
        self.mode = "r"
        self.opc_enum = "\0"
        self.vprims = set()
        self.fprims = {}
        self._ids = 0
        self.maxmode = False
        self.max_inf = False
        self.loop_depth = 0
        self.methods = fns

    # ------------------------------------------------------------------ calls
    def call_method(self, name, args):
        f = self.fns[name]
        if len(self.stack) > 30:
            raise Unsupported("call depth")
        saved = self.st.scopes
        scope = {"self": Val("self")}
        ps = f.params()
        for i, (pn, _ty) in enumerate(ps):
            scope[pn] = args[i + 1] if i + 1 < len(args) else unk()
        self.st.scopes = [scope]
        self.stack.append(name)
        start = len(self.st.toks)
        v = UNIT
        try:
            try:
                v = self.ev(f.body)
            except _Return as r:
                v = r.v
        finally:
            self.st.scopes = saved
            self.stack.pop()
        self.collapse_fixed(start, v, None, name)
        return v

    # ------------------------------------------------------------------ helpers
    @staticmethod
    def _is_self(n):
        return n[0] == "PATH_EXPR" and doraq.text(n) == "self"

    def _self_field(self, n):
        if n[0] == "FIELD_EXPR" and doraq.nodes(n) and self._is_self(doraq.nodes(n)[0]):
            return doraq.ident(n)
        return None

    def _args(self, n):
        al = doraq.child(n, "ARGUMENT_LIST")
        out = []
        if al:
            for li in doraq.children(al, "LIST_ITEM"):
                a = doraq.child(li, "ARGUMENT")
                if a is not None and doraq.nodes(a):
                    out.append(doraq.nodes(a)[-1])
        return out

    def bind_pat(self, pat, v):
        k = pat[0]
        if k == "IDENT_PATTERN":
            self.set_local(doraq.ident(pat), v, declare=True)
        elif k in ("TUPLE_PATTERN", "CTOR_PATTERN"):
            for p in doraq.walk(pat):
                if p[0] == "IDENT_PATTERN":
                    self.set_local(doraq.ident(p), unk(v), declare=True)

    # ------------------------------------------------------------------ expressions
    def ev(self, n):
        if doraq.is_tok(n):
            return unk()
        f = getattr(self, "_d_" + n[0], None)
        if f is None:
            raise Unsupported("Dora node %s" % n[0])
        return f(n)

    def _d_BLOCK_EXPR(self, n):
        self.st.scopes.append({})
        try:
            v = UNIT
            for s in doraq.nodes(n):
                v = self.ev(s)
                if s[0] == "EXPR_STMT" and doraq.child(s, "SEMICOLON") is not None:
                    v = UNIT
                elif s[0] == "LET":
                    v = UNIT
            return v
        finally:
            self.st.scopes.pop()

    def _d_EXPR_STMT(self, n):
        ns = doraq.nodes(n)
        return self.ev(ns[0]) if ns else UNIT

    def _d_LET(self, n):
        ns = doraq.nodes(n)
        pat = ns[0]
        init = None
        seen_eq = False
        for c in doraq.kids(n):
            if doraq.is_tok(c) and c[0] == "EQ":
                seen_eq = True
            elif seen_eq and doraq.is_node(c):
                init = c
                break
        v = self.ev(init) if init is not None else unk()
        self.bind_pat(pat, v)
        return UNIT

    def _d_PAREN_EXPR(self, n):
        ns = doraq.nodes(n)
        return self.ev(ns[0]) if ns else UNIT

    def _d_LIT_INT_EXPR(self, n):
        v = doraq.lit_value(n)
        return Val("int", v) if isinstance(v, int) else unk()

    def _d_LIT_BOOL_EXPR(self, n):
        return Val("bool", doraq.lit_value(n))

    def _d_LIT_STR_EXPR(self, n):
        return unk()

    _d_LIT_CHAR_EXPR = _d_LIT_STR_EXPR
    _d_LIT_FLOAT_EXPR = _d_LIT_STR_EXPR

    def _d_TEMPLATE_EXPR(self, n):
        return unk(*[self.ev(x) for x in doraq.nodes(n)])

    def _d_TUPLE_EXPR(self, n):
        vs = [self.ev(x) for x in doraq.nodes(n)]
        u = unk(*vs)
        return Val("tuple", tuple(vs), u.toks, u.deps) if vs else UNIT

    def _d_PATH_EXPR(self, n):
        t = doraq.text(n)
        if t == "self":
            return Val("self")
        if "::" not in t and "[" not in t:
            for s in reversed(self.st.scopes):
                if t in s:
                    return s[t]
            if t == "None":
                return Val("none")
            return Val("struct", (t, ()))
        return Val("struct", (t, ()))

    def _d_FIELD_EXPR(self, n):
        sf = self._self_field(n)
        if sf is not None:
            return Val("sfield", sf)
        base = self.ev(doraq.nodes(n)[0])
        nm = doraq.ident(n)
        if base.k == "struct":
            d = dict(base.a[1])
            if nm in d:
                return d[nm]
        return unk(base)

    def _d_UN_EXPR(self, n):
        v = self.ev(doraq.nodes(n)[0])
        if v.k == "bool" and doraq.toks(n) and doraq.toks(n)[0][1] == "!":
            return Val("bool", not v.a)
        return unk(v)

    def _d_AS_EXPR(self, n):
        return self.ev(doraq.nodes(n)[0])

    def _d_IS_EXPR(self, n):
        return unk(self.ev(doraq.nodes(n)[0]))

    def _d_LAMBDA_EXPR(self, n):
        for x in doraq.walk(n):
            if x[0] in ("METHOD_CALL_EXPR", "FIELD_EXPR") and doraq.nodes(x) and self._is_self(doraq.nodes(x)[0]):
                raise Unsupported("lambda uses self")
        return Val("closure")

    def _d_BIN_EXPR(self, n):
        ns = doraq.nodes(n)
        op = [c[1] for c in doraq.kids(n) if doraq.is_tok(c)]
        op = op[0] if op else "?"
        l, r = self.ev(ns[0]), self.ev(ns[1])
        v = unk(l, r)
        if op == "&" and (l.k == "int" or r.k == "int"):
            v.lanes = (l if r.k == "int" else r).lanes
        elif op == "<<" and r.k == "int" and l.lanes is not None:
            v.lanes = {t: s + r.a for t, s in l.lanes.items()}
        elif op in ("|", "+", "^") and l.lanes is not None and r.lanes is not None:
            v.lanes = dict(l.lanes)
            v.lanes.update(r.lanes)
        elif op in ("|", "+") and l.k == "int" and l.a == 0 and r.lanes is not None:
            v.lanes = dict(r.lanes)
        if l.k == "int" and r.k == "int":
            res = {"+": l.a + r.a, "-": l.a - r.a, "==": l.a == r.a, "!=": l.a != r.a, "<": l.a < r.a,
                   "<=": l.a <= r.a, ">": l.a > r.a, ">=": l.a >= r.a}.get(op)
            if isinstance(res, bool):
                return Val("bool", res)
            if isinstance(res, int):
                return Val("int", res)
        if l.k == "bool" and r.k == "bool" and op in ("&&", "||"):
            return Val("bool", (l.a and r.a) if op == "&&" else (l.a or r.a))
        return v

    def _d_ASSIGN_EXPR(self, n):
        ns = doraq.nodes(n)
        lhs, rhs = ns[0], ns[1]
        sf = self._self_field(lhs)
        if sf is not None:
            if sf == self.cursor:
                # only `self.<cursor> = self.<cursor> + 1` advances the stream
                ok = False
                if rhs[0] == "BIN_EXPR":
                    rn = doraq.nodes(rhs)
                    ops = [c[1] for c in doraq.kids(rhs) if doraq.is_tok(c)]
                    if (ops == ["+"] and self._self_field(rn[0]) == self.cursor and rn[1][0] == "LIT_INT_EXPR"
                            and doraq.lit_value(rn[1]) == 1):
                        ok = True
                if not ok:
                    raise Unsupported("cursor changed by something other than + 1")
                pend = [t for t in self.st.toks if t.get("peek")]
                if pend:
                    pend[-1].pop("peek")
                else:
                    self.emit("B")
                return UNIT
            if sf == self.stream:
                raise Unsupported("assignment to the stream field")
            self.ev(rhs)
            return UNIT
        rv = self.ev(rhs)
        if lhs[0] == "PATH_EXPR":
            self.set_local(doraq.text(lhs), rv)
            return UNIT
        # element / field store into a local: the local now derives from the stored value too
        root = lhs
        while root[0] in ("CALL_EXPR", "FIELD_EXPR", "METHOD_CALL_EXPR") and doraq.nodes(root):
            root = doraq.nodes(root)[0]
        if root[0] == "PATH_EXPR" and not self._is_self(root):
            nm = doraq.text(root)
            old = self.lookup(nm)
            self.set_local(nm, unk(old, rv))
        elif self._is_self(root):
            for x in doraq.walk(lhs):
                if self._self_field(x) in (self.stream, self.cursor):
                    raise Unsupported("store through the stream/cursor field")
        return UNIT

    def _d_METHOD_CALL_EXPR(self, n):
        ns = doraq.nodes(n)
        recv = ns[0]
        name = doraq.ident(n)
        args = self._args(n)
        if self._is_self(recv):
            if name in self.fns:
                return self.call_method(name, [Val("self")] + [self.ev(a) for a in args])
            if name == self.stream:
                # self.<stream>(i): element read
                if len(args) != 1 or self._self_field(args[0]) != self.cursor:
                    raise Unsupported("stream indexed by something other than the cursor field")
                t = self.emit("B", peek=True)
                return Val("unk", None, (t["id"],), lanes={t["id"]: 0})
            if name in self.fields:
                return unk(*[self.ev(a) for a in args])
            raise Unsupported("call of unknown method self.%s" % name)
        sf = self._self_field(recv)
        if sf == self.stream and name not in ("size",):
            raise Unsupported("stream used through .%s" % name)
        rv = self.ev(recv)
        vs = [self.ev(a) for a in args]
        v = unk(rv, *vs)
        if not vs:
            v.lanes = rv.lanes      # conversions such as to_int32()/to_uint8() keep the byte
        return v

    def _d_CALL_EXPR(self, n):
        ns = doraq.nodes(n)
        callee = ns[0]
        args = self._args(n)
        t = doraq.text(callee)
        if callee[0] != "PATH_EXPR":
            return unk(self.ev(callee), *[self.ev(a) for a in args])
        if t in DIVERGES:
            for a in args:
                self.ev(a)
            raise _Diverge()
        vs = [self.ev(a) for a in args]
        if t in RANGE_FNS and len(vs) == 2:
            u = unk(*vs)
            return Val("range", (vs[0], vs[1]), u.toks, u.deps)
        if "::" not in t and "[" not in t:
            for s in reversed(self.st.scopes):
                if t in s:                       # local(idx): element read of a local
                    return unk(s[t], *vs)
        for a, v in zip(args, vs):
            if v.k == "self":
                raise Unsupported("self passed to %s" % t)
        if t == "Some" and len(vs) == 1:
            return Val("some", vs[0], vs[0].toks, vs[0].deps)
        u = unk(*vs)
        return Val("struct", (t, tuple((str(i), v) for i, v in enumerate(vs))), u.toks, u.deps)

    def _d_IF_EXPR(self, n):
        ns = doraq.nodes(n)
        cond, then = ns[0], ns[1]
        els = ns[2] if len(ns) > 2 else None
        v = self.ev(cond)
        if v.k == "bool":
            return self.ev(then) if v.a else (self.ev(els) if els is not None else UNIT)
        return self.branch([lambda: self.ev(then), lambda: (self.ev(els) if els is not None else UNIT)])

    def _d_WHILE_EXPR(self, n):
        ns = doraq.nodes(n)

        def body():
            c = self.ev(ns[0])
            if c.k == "bool" and c.a is False:
                raise _Break()
            self.ev(ns[1])
        return self.run_loop(body)

    def _d_FOR_EXPR(self, n):
        ns = doraq.nodes(n)
        pat, it, body = ns[0], ns[1], ns[2]
        xv = self.ev(it)

        def once():
            self.st.scopes.append({})
            try:
                self.bind_pat(pat, unk())
                self.ev(body)
            finally:
                self.st.scopes.pop()
        if xv.k == "range" and xv.a[0].k == "int" and xv.a[1].k == "int":
            lo, hi = xv.a[0].a, xv.a[1].a
            cnt = max(0, hi - lo)
            has_break = any(x[0] == "BREAK_EXPR" for x in doraq.walk(body))
            if has_break:
                if cnt > 0:
                    self.run_loop(once, count=cnt)
                return UNIT
            if cnt > 64:
                raise Unsupported("for over a constant range of %d" % cnt)
            for _i in range(cnt):
                try:
                    once()
                except _Continue:
                    continue
            return UNIT
        if xv.k == "range" and xv.a[0].k == "int" and xv.a[0].a == 0:
            ht = []
            for t in xv.a[1].toks:
                t = self.canon(t)
                if t not in ht:
                    ht.append(t)
            if len(ht) == 1:
                self.star_exec(("tok", ht[0]), once)
                return UNIT
        self.star_exec(None, once)
        return UNIT

    def _d_MATCH_EXPR(self, n):
        ns = doraq.nodes(n)
        v = self.ev(ns[0])
        arms = doraq.direct_match_arms(n)
        thunks, infos = [], []
        consts = True
        for (ptxt, pat, body) in arms:
            if pat[0] == "UNDERSCORE_PATTERN":
                infos.append(("_",))
            else:
                alts = [doraq.text(p) for p in doraq.walk(pat) if p[0] == "PATH_DATA"] or [ptxt]
                if any(x[0] == "IDENT_PATTERN" for x in doraq.walk(pat)) or pat[0] not in ("CTOR_PATTERN", "ALT_PATTERN"):
                    consts = False
                infos.append(tuple(alts))

            def th(pat=pat, body=body):
                self.st.scopes.append({})
                try:
                    self.bind_pat(pat, unk(v))
                    return self.ev(body)
                finally:
                    self.st.scopes.pop()
            thunks.append(th)
        if not thunks:
            raise _Diverge()
        return self.branch(thunks, "dispatch" if consts and v.toks else "match", infos)

    def _d_RETURN_EXPR(self, n):
        ns = doraq.nodes(n)
        raise _Return(self.ev(ns[0]) if ns else UNIT)

    def _d_BREAK_EXPR(self, n):
        raise _Break()

    def _d_CONTINUE_EXPR(self, n):
        raise _Continue()

"""C11 — match exhaustiveness and reachability are decided exactly (PARTIAL, structural claim: the wiring
around the usefulness algorithm; the exactness of the recursive matrix procedure is value-level and NOT claimed).

  R1  every match is reached: the expression/statement visitor of the exhaustiveness pass descends into every
      expression/statement-carrying field of every sema Expr/Stmt variant; the pass visits every kind of body the
      type checker checks with the general expression checker
  R2  every arm enters the matrix on every path: the exhaustiveness call post-dominates the entry of the per-match
      function, every arm's row is pushed on every iteration, the row contains convert(arm.pattern) of that arm,
      the column count handed over agrees with the number of pushes, usefulness is asked against the earlier rows
  R3  guards are marked and never cover: the guard marker is pushed exactly on the `arm.cond.is_some()` edge, the
      extra column exists iff any arm has a guard; in every row-specialisation function the marker never keeps a
      row where the wildcard does
  R4  the verdict is an error: NON_EXHAUSTIVE_MATCH goes through Sema::report exactly under `!missing.is_empty()`
      of the exhaustiveness call's result and is declared Error; USELESS_PATTERN goes through warn
  R5  constructor totals/arity come from the definition: ConstructorId::total per variant, sub-pattern vectors are
      sized from the definition / tuple type, the slot of a sub-pattern comes from a lookup, not a local counter
"""
import re

import cfg
import facts as factsmod
import hirq
from callgraph import CallGraph

from rules import c11_visit as V
from rules import c11_matrix as cm

FE = "dora_frontend::"
ID_RE = re.compile(r"id_arena::Id<([\w:]+)>")


def last(p):
    return p.rsplit("::", 1)[-1]


def parent(p):
    return p.rsplit("::", 1)[0]


class Uninterpretable(Exception):
    pass


def is_test(p):
    return "::tests::" in p or p.endswith("::tests") or "::test_" in p


def statics_in(e):
    return [n[2] for n in hirq.walk(e) if n[0] == "def" and n[1] in ("static", "const") and "diagnostics::" in n[2]]


# ------------------------------------------------------------------------------------------------ roles
class Roles:
    """Locate the functions and types of the pass by role (fail closed through r.anchor)."""

    def __init__(self, r, c):
        self.c = c
        self.ok = False
        self.adts = dict((a["path"], a) for a in c.items["adts"])
        fns = dict((f["path"], f) for f in c.items["fns"])
        self.fns = fns
        # the per-match function: reports NON_EXHAUSTIVE_MATCH (the diagnostic's identity is its name)
        cands = []
        for p, b in c.hir.items():
            if is_test(p) or "{closure" in p:
                continue
            for cs in hirq.calls(b["body"]):
                if cs.name in ("report", "warn") and any(last(s) == "NON_EXHAUSTIVE_MATCH" for a in cs.args
                                                          for s in statics_in(a)):
                    cands.append(p)
        cands = sorted(set(cands))
        if not r.anchor("function reporting NON_EXHAUSTIVE_MATCH (exactly one)", len(cands) == 1):
            return
        self.cm = cands[0]
        self.module = parent(self.cm)
        self.mod_fns = sorted(p for p in c.hir if p.startswith(self.module + "::") and not is_test(p)
                              and "{closure" not in p and not p.startswith("<"))
        # the sema struct describing a match: the &-param of cm that is a sema struct
        self.match_struct = None
        for i, ty in enumerate(fns[self.cm]["inputs"] if self.cm in fns else []):
            t = ty.lstrip("&").strip()
            a = self.adts.get(t)
            if a and a["kind"] == "struct" and t.startswith(FE + "sema::") and any(
                    "alloc::vec::Vec<" in f["ty"] for f in a["variants"][0]["fields"]):
                self.match_struct, self.match_param = t, i + 1
        if not r.anchor("per-match function has a `&<sema match struct>` parameter", self.match_struct):
            return
        # arms field / arm struct / its pattern, guard and value fields
        self.arms_field = self.arm_struct = None
        for f in self.adts[self.match_struct]["variants"][0]["fields"]:
            m = re.match(r"alloc::vec::Vec<([\w:]+)>$", f["ty"])
            if m and m.group(1) in self.adts:
                self.arms_field, self.arm_struct = f["name"], m.group(1)
        if not r.anchor("match struct has a Vec<arm struct> field", self.arm_struct):
            return
        # id target enums: expression enum = target of the ids in the arm struct that occur bare and under Option
        af = self.adts[self.arm_struct]["variants"][0]["fields"]
        opt = [f for f in af if f["ty"].startswith("core::option::Option<id_arena::Id<")]
        if not r.anchor("arm struct has exactly one Option<Id<Expr>> field (the guard)", len(opt) == 1):
            return
        self.guard_field = opt[0]["name"]
        self.expr_enum = ID_RE.search(opt[0]["ty"]).group(1)
        bare = [f for f in af if f["ty"].startswith("id_arena::Id<")]
        pats = [f for f in bare if ID_RE.search(f["ty"]).group(1) != self.expr_enum]
        if not r.anchor("arm struct has exactly one Id<Pattern> field", len(pats) == 1):
            return
        self.pattern_field = pats[0]["name"]
        self.pat_enum = ID_RE.search(pats[0]["ty"]).group(1)
        # converters: module functions with an Id<pattern enum> parameter returning an enum of the module
        self.converters = {}
        self.P = None
        for p in self.mod_fns:
            f = fns.get(p)
            if not f:
                continue
            out = f["output"]
            if out in self.adts and self.adts[out]["kind"] == "enum" and parent(out) == self.module:
                idx = [i for i, t in enumerate(f["inputs"]) if t == "id_arena::Id<%s>" % self.pat_enum]
                if idx:
                    self.converters[p] = idx[0]
                    self.P = out
        if not r.anchor("pattern converter (fn(.., Id<sema Pattern>) -> module Pattern)", self.converters):
            return
        # expression visitors: module functions with an Id<Expr> parameter that match on Expr variants and call cm
        self.expr_visitors, self.stmt_visitors = {}, {}
        self.stmt_enum = None
        for p in self.mod_fns:
            f = fns.get(p)
            if not f:
                continue
            b = c.hir[p]
            for i, t in enumerate(f["inputs"]):
                m = re.match(r"id_arena::Id<([\w:]+)>$", t)
                if not m or m.group(1) not in self.adts or self.adts[m.group(1)]["kind"] != "enum":
                    continue
                en = m.group(1)
                if en == self.pat_enum:
                    continue
                nv = set()
                for n in hirq.walk(b["body"]):
                    if n[0] == "match":
                        for (pat, g, body) in n[2]:
                            for d in hirq.pat_paths(pat):
                                if parent(d) == en:
                                    nv.add(last(d))
                if len(nv) * 2 < len(self.adts[en]["variants"]):
                    continue
                if en == self.expr_enum:
                    if any(cs.callee == self.cm for cs in hirq.calls(b["body"])):
                        self.expr_visitors[p] = i
                elif t.startswith("id_arena::Id<" + FE + "sema::"):
                    self.stmt_visitors[p] = i
                    self.stmt_enum = en
        if not r.anchor("expression visitor (matches on sema Expr and calls the per-match function)",
                        self.expr_visitors):
            return
        if not r.anchor("statement visitor (matches on sema Stmt)", self.stmt_visitors):
            return
        # entry: module function whose only parameter is the Sema and that calls an expression visitor
        self.entries = [p for p in self.mod_fns if p in fns and len(fns[p]["inputs"]) == 1
                        and fns[p]["inputs"][0].endswith("sema::Sema")
                        and any(cs.callee in self.expr_visitors for cs in hirq.calls(c.hir[p]["body"]))]
        if not r.anchor("pass entry (fn(&Sema) calling the expression visitor)", len(self.entries) == 1):
            return
        self.entry = self.entries[0]
        self.ok = True


# --------------------------------------------------------------------------------------------------- R1
# pattern positions that must be handed to the converter by the visitor (everything else is listed only)
PATTERN_EXPECT = {
    # one-line reason: `let p = e else { .. }` is the only refutable binding form; its pattern is the single row
    # whose exhaustiveness decides whether the else block is reachable (LET_ELSE_IRREFUTABLE_PATTERN)
    ("Stmt::Let", "0", "pattern"),
}


def sema_collection_loops(fn_hir):
    """for-loops over `sa.<coll>.iter()` (sa = the Sema parameter): [(coll, owner type, loop body node, conds)]"""
    out = []

    def rec(e, conds):
        if not hirq.is_node(e):
            if isinstance(e, list):
                for x in e:
                    rec(x, conds)
            return
        if e[0] == "macro" and e[1] == "desugar:ForLoop":
            m = e[2]
            src = m[1]
            coll = owner = None
            for n in hirq.walk(src):
                if n[0] == "field" and len(n) > 3 and n[3].endswith("sema::Sema") and hirq.local_name(n[1]):
                    coll = n[2]
                if n[0] == "mcall" and n[6] and "Arena<" in n[6]:
                    mm = re.search(r"Arena<([\w:]+)>", n[6])
                    owner = mm.group(1) if mm else None
            if coll:
                out.append((coll, owner, m[2][0][2], list(conds)))
            rec(m[2], conds)
            return
        if e[0] == "if":
            rec(e[1], conds)
            rec(e[2], conds + [e[1]])
            if e[3] is not None:
                rec(e[3], conds + [e[1]])
            return
        for x in e[1:]:
            if isinstance(x, list):
                rec(x, conds)
    rec(fn_hir["body"], [])
    return out


def enclosing_conditions(body, pred):
    """resolved callees used in the `if` conditions that enclose the first call satisfying pred inside body"""
    found = []

    def rec(e, conds):
        if not hirq.is_node(e):
            if isinstance(e, list):
                for x in e:
                    rec(x, conds)
            return
        if e[0] in ("call", "mcall") and pred(hirq.CallSite(e)):
            found.append(list(conds))
        if e[0] == "if":
            rec(e[1], conds)
            rec(e[2], conds + [e[1]])
            if e[3] is not None:
                rec(e[3], conds + [("not", e[1])])
            return
        for x in e[1:]:
            if isinstance(x, list):
                rec(x, conds)
    rec(body, [])
    if not found:
        return None
    names = set()
    for cnd in found[0]:
        neg = isinstance(cnd, tuple)
        node = cnd[1] if neg else cnd
        for cs in hirq.calls(node):
            if cs.callee:
                names.add(("!" if neg else "") + cs.callee)
        if not list(hirq.calls(node)):
            names.add(("!" if neg else "") + hirq.render(node))
    return names


def rule_r1(chk, F, c, R):
    r = chk.rule("C11.R1", "every match is reached: the exhaustiveness visitor descends into every expression/statement-"
                           "carrying field of every sema Expr/Stmt variant (fields taken from the type definitions), "
                           "let-else patterns reach the refutability check, and the pass visits every kind of body the "
                           "type checker checks with the general expression checker")
    kinds = {R.expr_enum: "expr", R.stmt_enum: "stmt", R.pat_enum: "pattern"}
    S = V.Slots(c, kinds, FE + "sema::")
    S.root(R.expr_enum)
    S.root(R.stmt_enum)
    sinks = {}
    for p, i in R.expr_visitors.items():
        sinks[p] = {i: "expr"}
    for p, i in R.stmt_visitors.items():
        sinks[p] = {i: "stmt"}
    for p, i in R.converters.items():
        sinks[p] = {i: "pattern"}
    roots = {R.expr_enum: last(R.expr_enum), R.stmt_enum: last(R.stmt_enum)}
    E = V.Engine(c, R.module, sinks, roots)
    for p in list(R.expr_visitors) + list(R.stmt_visitors):
        E.run_fn(p, {}, [])
    by_path = {}
    for h in E.hits:
        by_path.setdefault(h.path, []).append(h)
    nslots = {"expr": 0, "stmt": 0, "pattern": 0}
    unvisited = []
    for path, (kind, ty) in sorted(S.slots.items()):
        nslots[kind] += 1
        hs = [h for h in by_path.get(path, []) if h.kind == kind]
        uncond = [h for h in hs if not h.conds]
        name = ".".join(path)
        status = "visited" if uncond else ("conditional" if hs else "not-visited")
        r.instance("slot:%s" % name, sample={"slot": name, "kind": kind, "type": ty, "status": status,
                                              "via": sorted(set(last(h.callee) for h in hs))})
        opq = [w for (pp, w) in E.opaque if path[:len(pp)] == pp]
        if kind == "pattern":
            if path in PATTERN_EXPECT:
                if not hs:
                    r.violation("%s:%s:pattern-not-checked" % (sorted(R.stmt_visitors)[0], name),
                                "the pattern at %s no longer reaches the pattern converter / refutability check: a "
                                "`let … else` whose pattern always matches (or never) is not diagnosed" % name,
                                c.hir[next(iter(R.stmt_visitors))]["file"])
                else:
                    r.observe("pattern slot %s is converted under: %s" % (name, sorted(set(
                        "; ".join(h.conds) or "always" for h in hs))))
            elif hs:
                r.observe("pattern slot %s is converted (via %s)" % (name, sorted(set(last(h.fn) for h in hs))))
            else:
                r.observe("pattern slot %s is never converted by this pass (refutable patterns there are not "
                          "diagnosed; not a match expression, outside C11)" % name)
            continue
        if uncond:
            continue
        if opq:
            raise Uninterpretable("C11.R1: slot %s is reached only through %s — cannot decide whether every element "
                                  "is visited" % (name, opq[0]))
        unvisited.append((path, kind, hs))
    # exemption: an expression field that is the root of a separately registered body the entry visits
    entry_hir = c.hir[R.entry]
    entry_loops = [(coll, owner, body, conds) for (coll, owner, body, conds) in sema_collection_loops(entry_hir)
                   if any(cs.callee in R.expr_visitors for cs in hirq.calls(body))]
    visited_colls = dict((coll, owner) for (coll, owner, _b, _c) in entry_loops)
    root_getters = set()
    for (_coll, _owner, body, _c) in entry_loops:
        for cs in hirq.calls(body):
            if cs.callee in R.expr_visitors:
                for a in cs.args:
                    for n in hirq.walk(a):
                        if n[0] == "mcall" and n[2] and not n[5]:
                            root_getters.add(n[2])
    for (path, kind, hs) in unvisited:
        name = ".".join(path)
        why = rerooted(c, R, path, root_getters, visited_colls) if kind == "expr" and not hs else None
        if why and why.startswith("ok:"):
            r.observe("slot %s is not descended into by the visitor but is visited as the root of its own body: %s"
                      % (name, why[3:]))
            continue
        bound = any(b[:len(path) - 1] == path[:len(path) - 1] or b == path[:2] for b in E.bound)
        detail = ("visited only under: %s" % sorted(set("; ".join(h.conds) for h in hs))) if hs else (
            "the field is bound but never handed to the visitor" if bound else "the variant's payload is not bound "
            "(`_`/`..`) or the variant falls into a catch-all arm")
        vis = sorted(R.stmt_visitors if path[0].startswith(last(R.stmt_enum) + "::") else R.expr_visitors)[0]
        r.violation("%s:%s:not-visited" % (vis, name),
                    "the visitor does not descend into %s (%s)%s: a `match` nested in that position is never handed to "
                    "the exhaustiveness check, so a non-exhaustive match there is accepted and falls through at run "
                    "time" % (name, detail, ("; " + why) if why else ""), c.hir[R.entry]["file"])
    r.floor("expression slots", nslots["expr"], 31)
    r.floor("statement slots", nslots["stmt"], 1)
    r.floor("pattern slots", nslots["pattern"], 5)
    # ---- body kinds: sibling traversal of the type checker's entry
    tc = c.hir.get(FE + "typeck::check")
    if not r.anchor(FE + "typeck::check (sibling traversal of bodies)", tc):
        return
    if not r.anchor("the pass entry loops over Sema collections", entry_loops):
        return
    cg = CallGraph(F, libs=["dora_frontend"], bins=[])
    # general expression checkers: functions outside this module with a match arm on the sema Expr "match" variant
    match_variant = None
    for p in R.expr_visitors:
        for n in hirq.walk(c.hir[p]["body"]):
            if n[0] == "match":
                for (pat, g, body) in n[2]:
                    if any(cs.callee == R.cm for cs in hirq.calls(body)):
                        ds = [d for d in hirq.pat_paths(pat) if parent(d) == R.expr_enum]
                        if ds:
                            match_variant = ds[0]
    if not r.anchor("Expr variant that carries a match", match_variant):
        return
    dispatchers = set()
    for p, b in c.hir.items():
        if is_test(p) or p.startswith(R.module + "::") or not p.startswith(FE + "typeck"):
            continue
        for n in hirq.walk(b["body"]):
            if n[0] == "match" and any(match_variant in hirq.pat_paths(pat) for (pat, g, body) in n[2]):
                dispatchers.add(p)
    if not r.anchor("type checker's general expression dispatcher (match arm on %s)" % last(match_variant),
                    dispatchers):
        return
    nk = 0
    for (coll, owner, body, conds) in sema_collection_loops(tc):
        callees = sorted(set(cs.callee for cs in hirq.calls(body) if cs.callee and cs.callee.startswith(FE)))
        reach = cg.reachable_from(callees)
        general = bool(reach & dispatchers)
        nk += 1
        r.instance("body-kind:%s" % coll, sample={"collection": coll, "owner": owner,
                                                  "checked_with_general_expression_checker": general,
                                                  "visited_by_exhaustiveness_pass": coll in visited_colls})
        if not general:
            r.observe("bodies of sa.%s are checked by a restricted checker that does not reach %s: they cannot "
                      "contain a match" % (coll, sorted(last(d) for d in dispatchers)))
            continue
        if coll not in visited_colls:
            r.violation("%s:body-kind-not-visited:%s" % (R.entry, coll),
                        "the type checker checks the bodies of sa.%s with the general expression checker (they may "
                        "contain `match`), but the exhaustiveness pass never visits them: a non-exhaustive match in "
                        "such a body is accepted and falls through at run time" % coll, entry_hir["file"])
            continue
        # same gating condition as the type checker
        mine = enclosing_conditions([b for (cl, o, b, cn) in entry_loops if cl == coll][0],
                                    lambda cs: cs.callee in R.expr_visitors) or set()
        theirs = set()
        for cs in hirq.calls(body):
            if cs.callee in callees and cg.reachable_from([cs.callee]) & dispatchers:
                ec = enclosing_conditions(body, lambda x, cs=cs: x.node is cs.node)
                theirs |= set(x.lstrip("!") for x in (ec or ()))
                # conditions the directly called per-body function tests itself (early return)
                hb = c.hir.get(cs.callee)
                if hb:
                    for n in hirq.walk(hb["body"]):
                        if n[0] == "if":
                            theirs |= set(x.callee for x in hirq.calls(n[1]) if x.callee)
        mine = set(x.lstrip("!") for x in mine)
        extra = sorted(x for x in mine if x not in theirs)
        r.instance("body-kind:%s:gate" % coll, sample={"exhaustiveness": sorted(mine), "typeck": sorted(theirs)})
        if extra:
            r.violation("%s:body-kind-gate:%s" % (R.entry, coll),
                        "bodies of sa.%s are visited only under %s, a condition the type checker does not impose: the "
                        "bodies it excludes are type-checked and compiled but their matches are never checked"
                        % (coll, extra), entry_hir["file"])
    r.floor("body kinds the type checker iterates", nk, 3)


def rerooted(c, R, path, root_getters, visited_colls):
    """Is the expression field `path` installed as the root expression of a Body that is attached to an owner
    kind the entry iterates?  Returns 'ok:<explanation>' or a text saying what is missing."""
    fname = path[-1]
    # struct owning the field
    owner_struct = None
    for a in c.items["adts"]:
        if a["kind"] == "struct" and a["path"].startswith(FE + "sema::") and any(
                f["name"] == fname and f["ty"] == "id_arena::Id<%s>" % R.expr_enum for f in a["variants"][0]["fields"]):
            # the struct must be the payload on the path
            if len(path) >= 2:
                owner_struct = owner_struct or []
                owner_struct.append(a["path"])
    if not owner_struct:
        return "no separately registered body found for this field"
    # root setters: Body methods writing the field the entry's root getter reads
    rfields = set()
    for g in root_getters:
        b = c.hir.get(g)
        if b:
            rfields |= set(n[2] for n in hirq.walk(b["body"]) if n[0] == "field" and hirq.local_name(n[1]) == "self")
    setters = set()
    for p, b in c.hir.items():
        if p in root_getters or is_test(p) or not any(parent(p) == parent(g) for g in root_getters):
            continue
        f = next((x for x in c.items["fns"] if x["path"] == p), None)
        if f and any(t == "id_arena::Id<%s>" % R.expr_enum for t in f["inputs"]) and any(
                n[0] == "field" and n[2] in rfields and hirq.local_name(n[1]) == "self" for n in hirq.walk(b["body"])):
            setters.add(p)
    if not setters:
        return "no root-expression setter found"
    for p, b in sorted(c.hir.items()):
        if is_test(p) or p.startswith(R.module + "::"):
            continue
        body_local = None
        for cs in hirq.calls(b["body"]):
            if cs.callee in setters and cs.args:
                a = hirq.strip(cs.args[0])
                if hirq.is_node(a) and a[0] == "field" and a[2] == fname and len(a) > 3 and a[3] in owner_struct:
                    body_local = hirq.local_name(cs.recv)
                    st_name = last(a[3])
        if body_local is None:
            continue
        # the Body is attached to an owner whose collection the entry iterates, and the owner is registered
        for cs in hirq.calls(b["body"]):
            if cs.is_method and cs.name == "set_body" and cs.callee and any(
                    hirq.local_name(a) == body_local for a in cs.args):
                owner_ty = parent(cs.callee)
                colls = [cl for cl, o in visited_colls.items() if o == owner_ty]
                if not colls:
                    return "the body rooted at this field is attached to %s, which the pass entry does not iterate" \
                           % owner_ty
                obj = hirq.local_name(cs.recv)
                pushed = any(x.is_method and x.name == "push" and any(hirq.local_name(a) == obj for a in x.args)
                             for x in hirq.calls(b["body"]))
                alloc = any(x.is_method and x.name == "alloc" and hirq.is_node(hirq.strip(x.recv))
                            and hirq.strip(x.recv)[0] == "field" and hirq.strip(x.recv)[2] in colls
                            for pp, bb in c.hir.items() if pp.split("::")[:2] == p.split("::")[:2]
                            and not is_test(pp) for x in hirq.calls(bb["body"]))
                if pushed and alloc:
                    return "ok:%s installs %s.%s as the root of a Body attached to a %s that is registered in sa.%s" % (
                        p, st_name, fname, last(owner_ty), colls[0])
                return "the %s built in %s is not registered in sa.%s" % (last(owner_ty), p, colls)
    return "the field is never installed as the root expression of a separately visited body"


# --------------------------------------------------------------------------------------------------- R3
def guard_roles(r, c, R):
    """marker = the unit variant of the module's Pattern enum; wildcard = the variant built by the module's
    zero-argument Pattern constructor(s) (the filler used for witnesses and padding)"""
    P = R.adts[R.P]
    units = [v["name"] for v in P["variants"] if not v["fields"]]
    if not r.anchor("module Pattern enum has exactly one payload-free variant (the guard marker)", len(units) == 1):
        return None
    marker = units[0]
    fillers, wild = set(), set()
    for f in c.items["fns"]:
        p = f["path"]
        if p.startswith(R.module + "::") and not is_test(p) and f["output"] == R.P and not f["inputs"] and p in c.hir:
            for n in hirq.walk(c.hir[p]["body"]):
                if n[0] == "def" and n[1] in ("ctor", "variant") and parent(n[2]) == R.P:
                    wild.add(last(n[2]))
                    fillers.add(p)
    if not r.anchor("wildcard variant (built by the module's zero-argument Pattern constructor)", len(wild) == 1):
        return None
    return marker, wild.pop(), fillers


def arm_value(body):
    b = hirq.unmacro(body) if hirq.is_node(body) and body[0] == "macro" and body[1] != "vec!" else body
    while hirq.is_node(b) and b[0] == "block" and b[2] is not None:
        b = b[2]
    return b


def classify_row_result(body, params):
    """what a specialisation arm does with the row: 'keeps' | 'drops' | 'diverges' | 'recurses' | 'other'"""
    if hirq.is_panic_body(body):
        return "diverges"
    v = arm_value(body)
    if hirq.is_node(v) and v[0] == "macro" and v[1] == "vec!":
        arr = [n for n in hirq.walk(v) if n[0] == "array"]
        elems = arr[0][1] if arr else []
        if not elems and not any(n[0] == "local" for n in hirq.walk(v)):
            return "drops"
        if any(n[0] == "local" and n[1] in params for e in elems for n in hirq.walk(e)):
            return "keeps"
        return "other"
    if hirq.is_node(v) and v[0] == "call" and (hirq.def_path(v[2]) or "").startswith("alloc::vec::Vec") and \
            last(hirq.def_path(v[2])) == "new" and not v[3]:
        return "drops"
    if hirq.is_node(v) and v[0] in ("call", "mcall"):
        return "recurses"
    return "other"


def rule_r3(chk, c, R, M):
    r = chk.rule("C11.R3", "guards are marked and never cover: the guard marker is pushed exactly on the "
                           "`arm.cond.is_some()` edge (the wildcard filler on the other), the guard column exists iff any "
                           "arm of the match has a guard; in every row-specialisation function (where a wildcard head "
                           "keeps the row) the marker drops the row or diverges and never shares the wildcard's arm")
    g = guard_roles(r, c, R)
    if g is None:
        return
    marker, wildcard, fillers = g
    cm.rule_r3a(r, c, R, M, marker, wildcard, fillers)
    # (b) every match over the module's Pattern enum
    nmatch = nspec = 0
    reach_from = {}
    for p, b in sorted(c.hir.items()):
        if is_test(p) or not (p.startswith(R.module + "::") or ("<" in p and R.module + "::" in p)):
            continue
        base = p.split("::{closure")[0]
        params = set()
        hb = c.hir.get(base)
        if hb:
            params = set(pp[0][1] for pp in hb["params"] if hirq.is_node(pp[0]) and pp[0][0] == "pbind")
        if "{closure" in p:
            continue
        for n in hirq.walk(b["body"]):
            if n[0] != "match":
                continue
            arms = hirq.match_arms(n)
            named = set(last(d) for (pat, gd, body) in arms for d in hirq.pat_paths(pat) if parent(d) == R.P)
            if wildcard not in named and marker not in named:
                continue
            nmatch += 1
            wa = [(pat, gd, body) for (pat, gd, body) in arms if any(
                parent(d) == R.P and last(d) == wildcard for d in hirq.pat_paths(pat))]
            ga = [(pat, gd, body) for (pat, gd, body) in arms if any(
                parent(d) == R.P and last(d) == marker for d in hirq.pat_paths(pat))]
            catch = [(pat, gd, body) for (pat, gd, body) in arms if hirq.pat_is_wild(pat)]
            if not ga:
                ga = catch            # the marker falls into the catch-all arm
            wkind = sorted(set(classify_row_result(body, params) for (_p, _g, body) in wa)) or ["-"]
            gkind = sorted(set(classify_row_result(body, params) for (_p, _g, body) in ga)) or ["unmatched"]
            shared = any(x[2] is y[2] for x in wa for y in ga)
            spec = "keeps" in wkind
            r.instance("%s:match-on-Pattern" % p, sample={"fn": p, "wildcard_arm": wkind, "marker_arm": gkind,
                                                          "shared_arm": shared, "row_specialisation": spec})
            if not spec:
                continue
            nspec += 1
            where = "%s:%d" % (b["file"], b["line"])
            if shared:
                r.violation("%s:marker-shares-wildcard-arm" % p,
                            "in this row-specialisation function the %s marker is matched by the same arm as the %s "
                            "wildcard: rows of guarded arms survive specialisation like unguarded catch-alls, so guarded "
                            "arms count as covering (a non-exhaustive match is accepted) and hide later arms" % (
                                marker, wildcard), where)
            elif any(k not in ("drops", "diverges") for k in gkind):
                r.violation("%s:marker-keeps-row" % p,
                            "in this row-specialisation function a row whose head is the %s marker is not dropped "
                            "(arm: %s): guarded arms count as covering" % (marker, gkind), where)
    r.floor("matches over the module's Pattern enum", nmatch, 9)
    r.floor("row-specialisation functions", nspec, 3)
    # both directions go through a specialisation function that drops marker rows
    F = getattr(M, "F", None)
    U = getattr(M, "U", None)
    if F is not None and U is not None:
        cg = M.cg
        droppers = set()
        for p, b in c.hir.items():
            if is_test(p) or not p.startswith(R.module + "::") or "{closure" in p:
                continue
            hbp = set(pp[0][1] for pp in b["params"] if hirq.is_node(pp[0]) and pp[0][0] == "pbind")
            for n in hirq.walk(b["body"]):
                if n[0] == "match":
                    for (pat, gd, body) in n[2]:
                        if any(parent(d) == R.P and last(d) == marker for d in hirq.pat_paths(pat)) and \
                                classify_row_result(body, hbp) == "drops":
                            droppers.add(p)
        for role, root in (("exhaustiveness", cm.cname(F)), ("usefulness", U.name)):
            reach = cg.reachable_from([root])
            r.instance("%s-direction-drops-guarded-rows" % role, sample={"root": root, "droppers": sorted(
                d for d in droppers if d in reach)})
            if not (droppers & reach):
                r.violation("%s:%s-never-drops-guarded-rows" % (root, role),
                            "no function reachable from %s removes rows whose head is the %s marker: in the %s "
                            "direction guarded arms are treated like unguarded ones" % (last(root), marker, role),
                            c.hir[R.cm]["file"])


# --------------------------------------------------------------------------------------------------- R5
UNWRAPS = {"expect", "unwrap", "unwrap_or", "unwrap_or_default", "clone", "cloned", "copied", "to_usize", "into"}


class Sources:
    """where the value of an expression comes from inside one function body (HIR, flow-insensitive)"""

    def __init__(self, body):
        self.body = body
        self.bind = {}       # local -> [source exprs]
        self.mutated = set()
        self._collect(body)

    def _bindpat(self, pat, src):
        if not hirq.is_node(pat):
            return
        if pat[0] == "pbind":
            self.bind.setdefault(pat[1], []).append(src)
            if pat[2] is not None:
                self._bindpat(pat[2], src)
        elif pat[0] in ("pts", "ptuple", "por"):
            for q in (pat[2] if pat[0] == "pts" else pat[1]):
                self._bindpat(q, ("destructured", src))
        elif pat[0] == "pstruct":
            for (_f, q) in pat[2]:
                self._bindpat(q, ("destructured", src))
        elif pat[0] == "pref":
            self._bindpat(pat[1], src)

    def _collect(self, e):
        for n in hirq.walk(e):
            if n[0] == "let" and n[2] is not None:
                self._bindpat(n[1], n[2])
            elif n[0] == "letx":
                self._bindpat(n[1], ("destructured", n[2]))
            elif n[0] == "match":
                for (pat, g, body) in n[2]:
                    self._bindpat(pat, ("destructured", n[1]))
            elif n[0] == "assignop" or n[0] == "assign":
                nm = hirq.local_name(n[2] if n[0] == "assignop" else n[1])
                if nm:
                    self.mutated.add(nm)

    def of(self, e, depth=0):
        """set of ('call', callee, node) | ('lit', v) | ('counter', name) | ('param', name) | ('other', text)"""
        if isinstance(e, tuple) and e[0] == "destructured":
            return self.of(e[1], depth)
        e = hirq.unmacro(e)
        if not hirq.is_node(e) or depth > 12:
            return {("other", str(e)[:40])}
        k = e[0]
        if k == "local":
            if e[1] in self.mutated:
                return {("counter", e[1])}
            if e[1] not in self.bind:
                return {("param", e[1])}
            out = set()
            for s in self.bind[e[1]]:
                out |= self.of(s, depth + 1)
            return out
        if k == "lit":
            return {("lit", e[2])}
        if k == "block":
            return self.of(e[2], depth + 1) if e[2] is not None else {("other", "()")}
        if k == "if":
            out = self.of(e[2], depth + 1)
            if e[3] is not None:
                out |= self.of(e[3], depth + 1)
            return out
        if k == "match":
            out = set()
            for (pat, g, body) in e[2]:
                if not V.diverges(body):
                    out |= self.of(body, depth + 1)
            return out
        if k in ("cast", "addr"):
            return self.of(e[1] if k == "cast" else e[2], depth + 1)
        if k == "un" and e[1] == "Deref":
            return self.of(e[2], depth + 1)
        if k == "mcall":
            if e[3] in UNWRAPS:
                return self.of(e[4], depth + 1)
            return {("call", e[2] or e[3], id(e))}
        if k == "call":
            d = hirq.def_path(e[2])
            if d in V.OPTION_PATHS and e[3]:
                return self.of(e[3][0], depth + 1)
            return {("call", d or "?", id(e))}
        return {("other", hirq.render(e))}


def find_node(body, ident):
    for n in hirq.walk(body):
        if id(n) == ident:
            return n
    return None


def rule_r5(chk, c, R):
    r = chk.rule("C11.R5", "constructor totals and arities come from the definition: ConstructorId::total is derived "
                           "from the enum definition's variant list for enums and is the constant 2/1 for Bool/product "
                           "types; sub-pattern vectors are sized from the definition's field list / the tuple type; the "
                           "slot of a converted sub-pattern comes from a lookup (type checker's field index, field "
                           "name), never from a counter local to the conversion")
    # ---- total(): the function of the module called on the signature's constructor whose result bounds `0..total`
    Fdef = None
    for p in R.mod_fns:
        f = R.fns.get(p)
        if f and f["output"] == "usize" and f.get("self_ty") and len(f["inputs"]) == 2 and \
                f["inputs"][1].endswith("sema::Sema") and f["inputs"][0].lstrip("&") in R.adts:
            Fdef = p
    if r.anchor("constructor-count function (fn(&ConstructorId, &Sema) -> usize)", Fdef):
        cid = R.fns[Fdef]["inputs"][0].lstrip("&")
        A = R.adts[cid]
        b = c.hir[Fdef]
        m = next((n for n in hirq.walk(b["body"]) if n[0] == "match"), None)
        if r.anchor("match over the constructor id in %s" % last(Fdef), m):
            # Bool role: the constructor-id variant created where a boolean literal pattern is discovered
            bool_variants = set()
            for p in R.mod_fns:
                for n in hirq.walk(c.hir[p]["body"]):
                    if n[0] == "match":
                        for (pat, g, body) in n[2]:
                            if any(last(d) == "Bool" and parent(d) != cid and parent(d).startswith(R.module)
                                   for d in hirq.pat_paths(pat)):
                                for x in hirq.walk(body):
                                    if x[0] == "def" and x[1] in ("ctor", "variant") and parent(x[2]) == cid:
                                        bool_variants.add(last(x[2]))
            for v in A["variants"]:
                tys = " ".join(f["ty"] for f in v["fields"])
                is_enum = "EnumDefinition" in tys
                arms = [(pat, g, body) for (pat, g, body) in m[2]
                        if any(parent(d) == cid and last(d) == v["name"] for d in hirq.pat_paths(pat))
                        or hirq.pat_is_wild(pat)]
                key = "%s:%s" % (Fdef, v["name"])
                if not arms:
                    r.violation(key + ":no-arm", "no arm for constructor kind %s" % v["name"], b["file"])
                    continue
                pat, g, body = arms[0]
                val = arm_value(body)
                k = hirq.lit_int(val)
                how = "constant %s" % k if k is not None else hirq.render(val)
                r.instance(key, sample={"variant": v["name"], "payload": tys, "total": how})
                where = "%s:%d" % (b["file"], b["line"])
                if is_enum:
                    bound = set()
                    for sub in (pat[1] if pat[0] == "por" else [pat]):
                        if sub[0] == "pts":
                            bound |= set(q[1] for q in sub[2] if hirq.is_node(q) and q[0] == "pbind")
                    lens = [n for n in hirq.walk(val) if n[0] == "mcall" and n[3] == "len"]
                    ok = False
                    for ln in lens:
                        getters = [n for n in hirq.walk(ln[4]) if n[0] == "mcall" and n[2] and n[2].endswith(
                            "sema::Sema::enum_") and any(x[0] == "local" and x[1] in bound for a in n[5]
                                                         for x in hirq.walk(a))]
                        acc = [n for n in hirq.walk(ln[4]) if n[0] == "mcall" and n[2] and "EnumDefinition::" in n[2]]
                        if getters and acc:
                            # the accessor reads the variant list of the definition
                            ab = c.hir.get(acc[0][2])
                            flds = [n[2] for n in hirq.walk(ab["body"]) if n[0] == "field"] if ab else []
                            ed = R.adts.get(parent(acc[0][2]))
                            vt = [f["ty"] for f in ed["variants"][0]["fields"] if f["name"] in flds] if ed else []
                            if any("VariantDefinition" in t for t in vt):
                                ok = True
                    if k is not None or not ok:
                        r.violation(key + ":total-not-from-definition",
                                    "the number of constructors of an enum is %s, not the length of the enum "
                                    "definition's variant list: with a wrong total a match that names fewer variants "
                                    "than the enum has is taken for complete (accepted, falls through) or a complete "
                                    "one is rejected" % how, where)
                else:
                    want = 2 if v["name"] in bool_variants else 1
                    if k != want:
                        r.violation(key + ":total-constant",
                                    "constructor kind %s has %s constructors (%s) but total() yields %s" % (
                                        v["name"], want, "true/false" if want == 2 else "a product type has exactly "
                                        "one", how), where)
            r.floor("constructor kinds", len(A["variants"]), 5)
    # ---- conversion: vectors sized from the definition, slots from a lookup
    nstore = nsize = 0
    pat_mod = parent(R.pat_enum)
    for p in R.mod_fns:
        b = c.hir[p]
        S = None
        for n in hirq.walk(b["body"]):
            if n[0] != "assign":
                continue
            lhs = hirq.unmacro(n[1])
            if not (hirq.is_node(lhs) and lhs[0] == "index"):
                continue
            S = S or Sources(b["body"])
            # the stored value is a converted pattern (directly, or a local that holds one)
            if not any(cs.callee in R.converters for cs in hirq.calls(n[2])) and not any(
                    src[0] == "call" and src[1] in R.converters for x in hirq.walk(n[2]) if x[0] == "local"
                    for src in S.of(x)):
                continue
            S = S or Sources(b["body"])
            nstore += 1
            vec = hirq.local_name(lhs[1])
            idx_src = S.of(lhs[2])
            desc = sorted(set((s[0], last(s[1]) if s[0] == "call" else s[1]) for s in idx_src))
            r.instance("%s:slot-index@%s" % (p, vec), sample={"fn": p, "vector": vec, "index_sources": str(desc)})
            where = "%s:%d" % (b["file"], b["line"])
            for s in idx_src:
                if s[0] == "counter":
                    r.violation("%s:subpattern-index-from-local-counter" % p,
                                "the slot a converted sub-pattern is stored in is taken from the local counter `%s` "
                                "(incremented per sub-pattern) instead of the field index the type checker resolved "
                                "for it: with `..` before a positional sub-pattern (`C(.., p)`) the pattern is checked "
                                "against the wrong field, so a non-exhaustive match is accepted (or an exhaustive one "
                                "rejected)" % s[1], where)
                elif s[0] != "call":
                    r.violation("%s:subpattern-index-not-from-lookup" % p,
                                "the slot index of a converted sub-pattern is %s, not the result of a lookup" % (s,),
                                where)
            # size of the vector
            for src in S.bind.get(vec, []):
                fe = [x for x in hirq.walk(src) if x[0] == "call" and (hirq.def_path(x[2]) or "").endswith(
                    "vec::from_elem")] if not isinstance(src, tuple) else []
                for x in fe:
                    nsize += 1
                    ssrc = S.of(x[3][1])
                    bad = []
                    for q in ssrc:
                        if q[0] == "lit" and q[1] == 0:
                            continue
                        node = find_node(b["body"], q[2]) if q[0] == "call" else None
                        if q[0] == "call" and last(q[1]) == "len" and node is not None and not any(
                                y[0] == "field" and len(y) > 3 and y[3].startswith(pat_mod + "::")
                                for y in hirq.walk(node)):
                            continue
                        bad.append(q)
                    r.instance("%s:vector-size@%s" % (p, vec), sample={"fn": p, "sources": str(sorted(
                        (q[0], last(str(q[1]))) for q in ssrc))})
                    if bad:
                        r.violation("%s:subpattern-vector-not-sized-from-definition" % p,
                                    "the vector of sub-patterns is sized by %s instead of the number of fields of the "
                                    "definition / the arity of the tuple type: fields the pattern does not mention are "
                                    "not padded with wildcards and columns go out of step" % (
                                        [(q[0], last(str(q[1]))) for q in bad],), where)
    r.floor("sub-pattern slot stores", nstore, 2)
    r.floor("sub-pattern vectors", nsize, 2)


def run(chk, F):
    c = F.crate("dora_frontend")
    r0 = chk.rule("C11.R0", "the functions and types of the exhaustiveness pass are located by role")
    R = Roles(r0, c)
    if not R.ok:
        return
    r0.instance("roles", sample={"per_match": R.cm, "entry": R.entry, "expr_visitors": sorted(R.expr_visitors),
                                 "stmt_visitors": sorted(R.stmt_visitors), "converters": sorted(R.converters),
                                 "pattern_enum": R.P})
    try:
        rule_r1(chk, F, c, R)
        M = cm.Match(c, R)
        M.cg = CallGraph(F, libs=["dora_frontend"], bins=[])
        cm.rule_r4(chk, c, R, M)
        cm.rule_r2(chk, c, R, M)
        rule_r3(chk, c, R, M)
        rule_r5(chk, c, R)
        rule_r6(chk, F)
        rule_r7(chk, F)
    except (Uninterpretable, cm.Unint) as e:
        # a construct the rules cannot interpret is an analysis failure (exit 2), never a violation
        raise factsmod.AnalysisError("C11", "cannot interpret: %s" % e)
    chk.assumptions += [
        "partial claim: decides the wiring around the usefulness algorithm (every match reached, every arm in the "
        "matrix, guards marked and non-covering, verdict reported as an error, constructor totals/arity taken from the "
        "definitions); the exactness of the recursive matrix procedure itself is value-level and not decided",
    ]


def rule_r6(chk, F):
    """C11.R6: the dense lowering of a match over Int64 literals subtracts the first literal and truncates the offset
    to Int32 for `Switch`.  The truncation is only sound between two emitted guards: selector < first and selector >
    last both jump to the default arm *before* the offset is narrowed — otherwise a value that is congruent to a table
    slot modulo 2^32 (literal - 2^32) selects that literal's arm instead of the wildcard arm ("selects the first arm
    whose pattern holds")."""
    r = chk.rule("C11.R6", "jump-table lowering of Int64 matches: the truncation of the selector offset to Int32 is "
                           "preceded by emitted guards against both ends of the literal range (lower and upper), each "
                           "jumping to the default arm")
    fe = F.crate("dora_frontend")
    sites = []
    for p, b in fe.hir.items():
        if "generator" not in p:
            continue
        for n in hirq.walk(b["body"]):
            if n[0] == "mcall" and n[3] == "int64_to_int32":
                sites.append((p, b))
                break
    if not r.anchor("generator function that narrows an Int64 selector with int64_to_int32", sites):
        return

    def guards_in(body, depth=0, seen=None):
        """comparison emitters paired with a conditional jump, in this body and in generator helpers it calls"""
        seen = seen if seen is not None else set()
        kinds = []
        names = []
        for n in hirq.walk(body):
            if n[0] == "mcall" and n[3].startswith("emit_test_"):
                names.append(n[3])
            if n[0] == "call" and hirq.is_node(n[2]) and n[2][:2] == ["def", "fn"] and n[2][2] in fe.hir \
                    and n[2][2] not in seen and depth < 2 and "generator" in n[2][2]:
                seen.add(n[2][2])
                kinds += guards_in(fe.hir[n[2][2]]["body"], depth + 1, seen)
        jumps = sum(1 for n in hirq.walk(body) if n[0] == "mcall" and n[3] in ("emit_jump_if_true", "emit_jump_if_false"))
        for nm in names[:jumps]:
            kinds.append(nm)
        return kinds

    for p, b in sites:
        # the arm (or function) that contains the narrowing: guards emitted before it in the same arm
        arm = None
        for n in hirq.walk(b["body"]):
            if n[0] == "match":
                for pat, guard, body in n[2]:
                    if any(m[0] == "mcall" and m[3] == "int64_to_int32" for m in hirq.walk(body)):
                        arm = body
        scope = arm if arm is not None else b["body"]
        kinds = guards_in(scope)
        lower = [k for k in kinds if k in ("emit_test_lt", "emit_test_le")]
        upper = [k for k in kinds if k in ("emit_test_gt", "emit_test_ge")]
        r.instance("%s:int64-offset-narrowing" % p, sample={"function": last(p), "guards": kinds})
        where = "%s:%d" % (b["file"], b["line"])
        if not lower:
            r.violation("%s:int64-offset-narrowing:no-lower-bound-guard" % p,
                        "the Int64 selector offset is truncated to Int32 without an emitted guard `selector < first → "
                        "default`: a value below the first literal whose offset is congruent to a table slot modulo "
                        "2^32 (e.g. literal - 4294967296) passes Switch's own bounds check and selects that literal's "
                        "arm instead of the wildcard arm", where)
        if not upper:
            r.violation("%s:int64-offset-narrowing:no-upper-bound-guard" % p,
                        "the Int64 selector offset is truncated to Int32 without an emitted guard `selector > last → "
                        "default`: first + 2^32 selects the first literal's arm", where)


def rule_r7(chk, F):
    """C11.R7: the jump-table lowering groups the arms per literal value.  "Selects the first arm whose pattern and
    guard hold" needs every value's candidate list to contain, in source order, the wildcard arms written *before* the
    value's first own arm (a guarded `_ if g` in front of `1 => …`) and those written after it.  Structurally: in the
    grouping function the list of wildcard arms seen so far flows into a value's list when that list is created, and
    a later wildcard arm is appended to every existing value list."""
    r = chk.rule("C11.R7", "arm grouping of the jump-table lowering keeps first-match order: a value's candidate list "
                           "is created from the wildcard arms seen so far, and every later wildcard arm is appended "
                           "to all existing value lists")
    fe = F.crate("dora_frontend")
    n_inst = 0
    for p, b in sorted(fe.hir.items()):
        if "generator" not in p:
            continue
        for n in hirq.walk(b["body"]):
            if n[0] != "match":
                continue
            some_arm = none_arm = None
            for pat, guard, body in n[2]:
                ctors = [m[1][2] for m in hirq.walk(pat) if m[0] in ("pts", "ppath", "pstruct") and hirq.is_node(m[1])]
                if any(c.endswith("Option::Some") for c in ctors):
                    some_arm = body
                elif any(c.endswith("Option::None") for c in ctors):
                    none_arm = body
            if some_arm is None or none_arm is None:
                continue
            wild = {hirq.strip(m[4])[1] for m in hirq.walk(none_arm)
                    if m[0] == "mcall" and m[3] == "push" and hirq.strip(m[4])[0] == "local"}
            maps = {hirq.strip(m[4])[1] for m in hirq.walk(some_arm)
                    if m[0] == "mcall" and m[3] in ("entry", "insert", "get_mut") and hirq.strip(m[4])[0] == "local"}
            # the wildcard list is the pushed-to local of the None arm that is not a per-value list taken from the map
            wild = {w for w in wild if not any(m[0] in ("let",) and m[1][0] == "pbind" and m[1][1] == w
                                               for m in hirq.walk(none_arm))}
            bound_in_none = {m[1] for m in hirq.walk(none_arm) if m[0] == "pbind"}
            wild -= bound_in_none
            if not wild or not maps:
                continue
            n_inst += 1
            W, M = sorted(wild)[0], sorted(maps)[0]
            key = "%s:%s:%s" % (p, M, W)
            seeds = any(m == ["local", W] for m in hirq.walk(some_arm))
            appends = any(m == ["local", M] for m in hirq.walk(none_arm))
            r.instance(key, sample={"function": last(p), "value_lists": M, "wildcard_arms": W,
                                    "value_list_created_from_wildcards": seeds,
                                    "later_wildcard_appended_to_value_lists": appends})
            where = "%s:%d" % (b["file"], b["line"])
            if not seeds:
                r.violation(key + ":value-list-not-seeded-with-earlier-wildcard-arms",
                            "%s: a literal's candidate list is created without the wildcard arms seen so far (%s is "
                            "not read where %s gets a new entry): `match v { _ if g => a, 1 => b, … }` with v == 1 "
                            "and g true dispatches straight to arm b, not to the first arm that holds"
                            % (last(p), W, M), where)
            if not appends:
                r.violation(key + ":later-wildcard-not-appended-to-value-lists",
                            "%s: a wildcard arm is not appended to the existing per-value lists (%s is not touched "
                            "in the wildcard case): `match v { 1 if g => a, _ => b }` with v == 1 and g false finds "
                            "no candidate after arm a" % (last(p), M), where)
    r.floor("arm-grouping functions of the jump-table lowering", n_inst, 1)

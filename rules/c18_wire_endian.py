"""C18.R4 helper: byte order of the multi-byte stream primitives, derived from the helpers' own bodies.

reader composite   `let b1 = self.read(); let b2 = self.read(); .. ; (b4 << 24) | (b3 << 16) | (b2 << 8) | b1`
                   -> the k-th value read is shifted by <bits already read> (little endian) or by the mirror (big)
writer composite   k-th emitted piece is `value >> s_k` (Dora: pushes / sub-emits in statement order)
byteorder writer   the endianness type argument of `WriteBytesExt::write_uN::<E>` (MIR generic arguments)
"""
import re

import doraq
import hirq
from hirq import is_node, last, strip
from rules import c18_wire_rs as RS
from rules import c18_wire_dora as DS


def classify(widths_bits, shifts):
    """widths of the pieces in stream order and the shift applied to each -> 'LE' | 'BE' | 'mixed'"""
    if len(widths_bits) < 2 or len(widths_bits) != len(shifts) or any(s is None for s in shifts):
        return None
    le, acc = [], 0
    for w in widths_bits:
        le.append(acc)
        acc += w
    be = [acc - le[i] - widths_bits[i] for i in range(len(le))]
    if shifts == le:
        return "LE"
    if shifts == be:
        return "BE"
    return "mixed"


# ---------------------------------------------------------------------------------------------- Rust

def _or_terms(e, out):
    e = strip(e)
    if is_node(e) and e[0] == "bin" and e[1] in ("BitOr", "Add", "BitXor"):
        _or_terms(e[2], out)
        _or_terms(e[3], out)
        return
    sh = 0
    if is_node(e) and e[0] == "bin" and e[1] == "Shl":
        sh = hirq.lit_int(e[3])
        e = strip(e[2])
    while is_node(e) and e[0] == "cast":
        e = strip(e[1])
    nm = hirq.local_name(e)
    out.append((nm, sh))


def rust_reader_order(rs, path):
    if path not in rs.hir:
        return None
    b = rs.hir[path][1]["body"]
    if not (is_node(b) and b[0] == "block" and b[2] is not None):
        return None
    pieces = []
    for st in b[1]:
        if not (is_node(st) and st[0] == "let" and is_node(st[1]) and st[1][0] == "pbind" and st[2] is not None):
            return None
        sub = [c for c in hirq.calls(st[2]) if c.is_method and c.callee and c.callee.startswith(RS.READER_TY + "::")
               and hirq.local_name(c.recv) == "self"]
        if len(sub) != 1:
            return None
        ms = rs.method(sub[0].callee)
        if ms[0] != "prim":
            return None
        pieces.append((st[1][1], ms[1] * 8))
    terms = []
    _or_terms(b[2], terms)
    tm = dict(terms)
    if len(terms) != len(pieces) or set(tm) != {n for n, _w in pieces}:
        return None
    return classify([w for _n, w in pieces], [tm[n] for n, _w in pieces])


def rust_writer_order(rs, path):
    """byteorder endianness type argument from MIR"""
    if path not in rs.hir:
        return None
    c = rs.hir[path][0]
    m = c.mir.get(path)
    if not m:
        return None
    found = set()
    for blk in m["blocks"]:
        t = blk.get("t")
        if not t or t[0] != "call":
            continue
        f = t[1].get("f")
        fn = f[1].get("fn") if isinstance(f, list) and len(f) > 1 and isinstance(f[1], dict) else None
        if not fn or not RS.BYTEORDER.match(fn.get("d") or ""):
            continue
        g = fn.get("g") or ""
        if "LittleEndian" in g:
            found.add("LE")
        elif "BigEndian" in g or "NetworkEndian" in g:
            found.add("BE")
        elif "NativeEndian" in g:
            found.add("native")
        else:
            found.add("?")
    if len(found) == 1:
        v = found.pop()
        return v if v in ("LE", "BE") else "mixed"
    return None if not found else "mixed"


# ---------------------------------------------------------------------------------------------- Dora

def _dora_terms(n, out):
    while n[0] == "PAREN_EXPR":
        n = doraq.nodes(n)[0]
    if n[0] == "BIN_EXPR":
        op = doraq.toks(n)[0][1] if doraq.toks(n) else ""
        ns = doraq.nodes(n)
        if op in ("|", "+", "^"):
            _dora_terms(ns[0], out)
            _dora_terms(ns[1], out)
            return
        if op == "<<":
            base = ns[0]
            while base[0] == "PAREN_EXPR":
                base = doraq.nodes(base)[0]
            sh = doraq.lit_value(ns[1])
            out.append((DS.seg_names(base)[0] if base[0] == "PATH_EXPR" else None, sh))
            return
    if n[0] == "PATH_EXPR":
        out.append((DS.seg_names(n)[0], 0))
        return
    out.append((None, None))


def dora_reader_order(ds, name):
    fn = ds.methods_src.get((DS.READER_CLS, name))
    if fn is None or fn.body is None:
        return None
    pieces = []
    tail = None
    for c in doraq.nodes(fn.body):
        if c[0] == "LET":
            pat = [x for x in doraq.nodes(c) if x[0] == "IDENT_PATTERN"]
            sub = [cs for cs in doraq.calls(c) if cs.recv is not None and cs.recv[0] == "PATH_EXPR"
                   and DS.seg_names(cs.recv) == ["self"]]
            if not pat or len(sub) != 1:
                return None
            ms = ds.method(DS.READER_CLS, sub[0].name)
            if ms[0] != "prim":
                return None
            pieces.append((doraq.ident(pat[0]), ms[1] * 8))
        elif c[0] == "EXPR_STMT":
            tail = doraq.nodes(c)[0] if doraq.nodes(c) else None
    if tail is None or len(pieces) < 2:
        return None
    terms = []
    _dora_terms(tail, terms)
    tm = dict(terms)
    if len(terms) != len(pieces) or set(tm) != {n for n, _w in pieces}:
        return None
    return classify([w for _n, w in pieces], [tm[n] for n, _w in pieces])


def dora_writer_order(ds, name):
    fn = ds.methods_src.get((DS.WRITER_CLS, name))
    if fn is None or fn.body is None or not fn.params():
        return None
    param = fn.params()[0][0]
    pieces = []
    for c in doraq.nodes(fn.body):
        if c[0] != "EXPR_STMT" or not doraq.nodes(c):
            return None
        e = doraq.nodes(c)[0]
        if e[0] != "METHOD_CALL_EXPR":
            return None
        recv, nm, args = DS.call_parts(e)
        if len(args) != 1:
            return None
        if recv[0] == "FIELD_EXPR" and nm == "push":
            w = 8
        elif recv[0] == "PATH_EXPR" and DS.seg_names(recv) == ["self"]:
            ms = ds.method(DS.WRITER_CLS, nm)
            if ms[0] != "prim":
                return None
            w = ms[1] * 8
        else:
            return None
        shifts = []
        uses_param = False
        for x in doraq.walk(args[0]):
            if x[0] == "PATH_EXPR" and DS.seg_names(x) == [param]:
                uses_param = True
            if x[0] == "BIN_EXPR" and doraq.toks(x) and doraq.toks(x)[0][1] in (">>", ">>>"):
                ns = doraq.nodes(x)
                base = ns[0]
                while base[0] == "PAREN_EXPR":
                    base = doraq.nodes(base)[0]
                if base[0] == "PATH_EXPR" and DS.seg_names(base) == [param]:
                    shifts.append(doraq.lit_value(ns[1]))
                else:
                    shifts.append(None)
        if not uses_param or len(shifts) > 1:
            return None
        pieces.append((w, shifts[0] if shifts else 0))
    if len(pieces) < 2:
        return None
    return classify([w for w, _s in pieces], [s for _w, s in pieces])


def byte_orders(rs, ds):
    """{label: order | ('via', wrapped primitive, order)} for every multi-byte primitive of the four stream classes"""
    out = {}
    for path, ms in sorted(rs.methods.items()):
        if ms[0] != "prim" or ms[1] < 2:
            continue
        if path.startswith(RS.READER_TY + "::"):
            out["rust " + last(path)] = rust_reader_order(rs, path)
        else:
            o = rust_writer_order(rs, path)
            if o is None:
                # a wrapper (emit_id -> emit_u32): order of the single multi-byte method it calls
                subs = [c.callee for c in hirq.calls(rs.hir[path][1]["body"]) if c.is_method and c.callee
                        and c.callee.startswith(RS.WRITER_TY + "::") and rs.methods.get(c.callee, ("",))[0] == "prim"]
                if len(subs) == 1:
                    o = rust_writer_order(rs, subs[0])
                    o = ("via", last(subs[0]), o) if o else None
            out["rust " + last(path)] = o
    for (cls, name), ms in sorted(ds.methods.items()):
        if ms[0] != "prim" or ms[1] < 2:
            continue
        if cls == DS.READER_CLS:
            o = dora_reader_order(ds, name)
        else:
            o = dora_writer_order(ds, name)
        if o is None:
            fn = ds.methods_src.get((cls, name))
            subs = [cs.name for cs in doraq.calls(fn.body) if cs.recv is not None and cs.recv[0] == "PATH_EXPR"
                    and DS.seg_names(cs.recv) == ["self"]] if fn is not None and fn.body is not None else []
            if len(subs) == 1 and ds.methods.get((cls, subs[0]), ("",))[0] == "prim":
                o = dora_reader_order(ds, subs[0]) if cls == DS.READER_CLS else dora_writer_order(ds, subs[0])
                o = ("via", subs[0], o) if o else None
        out["dora " + name] = o
    return out

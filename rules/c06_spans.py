"""C06.R8 (= C20.R6) — computed diagnostic spans follow the text that was consumed.

Almost every diagnostic span in the front end is the span of a syntax node or token, which lies on character
boundaries inside its file by construction (C16).  The exception are spans *computed* from an offset while scanning the
text of a literal: a helper takes an offset and a character cursor, consumes characters and reports `Span::new(offset,
n)`.  When such a helper is called from a loop that advances the same cursor, the offset must advance with it —
otherwise every report after the first character is anchored at the wrong place and, behind a multi-byte character, ends
in the middle of a character: the command-line renderer prints a misplaced underline, the language server's position
conversion slices the text there and panics.
"""
import hirq


def short(p):
    return p.rsplit("::", 1)[-1]


def strip(e):
    while isinstance(e, list) and e and (e[0] == "addr" or (e[0] == "un" and e[1] == "Deref") or e[0] == "cast"):
        e = e[2] if e[0] != "cast" else e[1]
    return e


def locals_in(e):
    return {n[1] for n in hirq.walk(e) if n[0] == "local"}


def run(chk, F, rid="C06.R8"):
    r = chk.rule(rid, "a helper that reports a span computed from an offset parameter while consuming a character "
                      "cursor is, inside a loop over that cursor, given an offset that advances with the cursor (the "
                      "span then lies on character boundaries of the text it names)")
    fe = F.crate("dora_frontend")
    SPAN_NEW = "dora_parser::span::Span::new"
    reporters = {}
    n_computed = 0
    for p, b in fe.hir.items():
        params = [pat[1] for (pat, _ty) in b["params"] if pat[0] == "pbind"]
        ptypes = {pat[1]: ty for (pat, ty) in b["params"] if pat[0] == "pbind"}
        for n in hirq.walk(b["body"]):
            if n[0] == "call" and n[2][:2] == ["def", "fn"] and n[2][2] == SPAN_NEW:
                a0 = strip(n[3][0])
                if a0[0] == "lit":
                    continue
                n_computed += 1
                used = locals_in(a0) & set(params)
                cursors = [q for q in params if "Chars" in ptypes[q] or "CharIndices" in ptypes[q] or
                           "Peekable" in ptypes[q]]
                ints = [q for q in used if ptypes[q] in ("u32", "usize")]
                if ints and cursors:
                    reporters[p] = (params.index(ints[0]), params.index(cursors[0]))
    r.floor("spans computed from non-constant offsets in the front end", n_computed, 2)
    if not r.anchor("helper that builds a span from an offset parameter while consuming a character cursor", reporters):
        return
    sites = 0
    for p, b in sorted(fe.hir.items()):
        # loops of this function
        for lp in hirq.walk(b["body"]):
            if lp[0] != "loop":
                continue
            body = lp[2]
            assigned = {strip(n[1])[1] for n in hirq.walk(body) if n[0] in ("assign",) and strip(n[1])[0] == "local"}
            assigned |= {strip(n[2])[1] for n in hirq.walk(body) if n[0] == "assignop" and strip(n[2])[0] == "local"}
            lets = {n[1][1]: n[2] for n in hirq.walk(body) if n[0] == "let" and n[1][0] == "pbind" and n[2] is not None}
            for c in hirq.walk(body):
                if not (c[0] == "call" and c[2][:2] == ["def", "fn"] and c[2][2] in reporters):
                    continue
                oi, ci = reporters[c[2][2]]
                off, cur = strip(c[3][oi]), strip(c[3][ci])
                cur_local = cur[1] if cur[0] == "local" else None
                sites += 1

                def variant(e, depth=0):
                    for n in hirq.walk(e):
                        if n[0] == "local":
                            if n[1] in assigned or n[1] == cur_local:
                                return True
                            if n[1] in lets and depth < 4 and variant(lets[n[1]], depth + 1):
                                return True
                    return False
                ok = variant(off)
                key = "%s:%s" % (p, short(c[2][2]))
                r.instance(key, sample={"caller": short(p), "helper": short(c[2][2]), "offset": hirq.render(off)[:80],
                                        "advances_with_cursor": ok})
                if not ok:
                    r.violation(key + ":loop-invariant-offset",
                                "%s calls %s in a loop that advances the cursor `%s`, but passes the same offset (%s) "
                                "on every iteration: every span reported after the first character is anchored at the "
                                "start of the text, and behind a multi-byte character it ends inside a character (a string "
                                "literal with a multi-byte character before an invalid escape: the language server's "
                                "position conversion panics, the command line underlines the wrong bytes)" % (short(p), short(c[2][2]), cur_local,
                                                                 hirq.render(off)[:60]),
                                "%s:%d" % (b["file"], c[1]))
    r.floor("calls of such helpers inside cursor loops", sites, 1)

"""C18.R4 helper: summarise the Dora side of the wire (syntax trees of pkgs/boots/*.dora) into codec signature trees.

Same principle as c18_wire_rs: a method of the reader/writer class is a primitive of width n when its body moves
exactly n bytes (`self.<vec field>.push(x)` = 1 byte written, `self.<cursor> = self.<cursor> + n` = n bytes consumed,
calls of sibling methods recursively); `self.<cursor> = self.<cursor> + <param>` is a byte run counted by that argument.
"""
import re

import doraq
from doraq import child, children, ident, is_node, is_tok, kids, nodes, text, toks
from rules import c18_wire_ir as IR
from rules.c18_wire_rs import Val, NONE

WRITER_CLS = "ByteWriter"
READER_CLS = "ByteReader"
PASS_ITER = {"iter", "as_bytes", "to_array", "clone", "bytes"}
LEN_NAMES = {"size", "len", "length", "count"}
PURE_CONV = re.compile(r"^(to_|as_)\w+$")
DIVERGE = {"unreachable", "unimplemented", "fatal_error", "panic", "abort"}
MAX_INLINE = 4


def all_tokens(n):
    out = []
    st = [n]
    while st:
        x = st.pop()
        if is_tok(x):
            out.append(x)
        else:
            st.extend(reversed(x[2]))
    return out


def seg_names(path_expr):
    """PATH_EXPR -> list of segment identifiers (SELF_KW as 'self')"""
    out = []
    for s in children(path_expr, "PATH_SEGMENT"):
        t = child(s, "IDENTIFIER") or child(s, "SELF_KW") or child(s, "UPCASE_SELF_KW")
        out.append(t[1] if t else "?")
    return out


def path_data(n):
    return [t[1] for t in toks(n) if t[0] == "IDENTIFIER"]


def call_parts(n):
    """(callee node, method name|None, [arg nodes])"""
    ns = nodes(n)
    al = child(n, "ARGUMENT_LIST")
    args = []
    if al:
        for li in children(al, "LIST_ITEM"):
            a = child(li, "ARGUMENT")
            if a is not None:
                es = nodes(a)
                args.append(es[-1] if es else a)
    if n[0] == "METHOD_CALL_EXPR":
        return ns[0], ident(n), args
    return ns[0], None, args


def coll_key(n):
    k = n[0]
    if k == "PAREN_EXPR":
        return coll_key(nodes(n)[0])
    if k == "PATH_EXPR":
        return "::".join(seg_names(n))
    if k == "FIELD_EXPR":
        t = [x for x in toks(n) if x[0] in ("IDENTIFIER", "INT_LITERAL")]
        return coll_key(nodes(n)[0]) + "." + (t[-1][1] if t else "?")
    if k == "METHOD_CALL_EXPR":
        recv, nm, args = call_parts(n)
        if not args:
            if nm in PASS_ITER:
                return coll_key(recv)
            if nm.endswith("_iter"):
                return coll_key(recv) + "." + nm[:-5]
            return coll_key(recv) + "." + nm + "()"
    return text(n)


def len_key(n):
    while n[0] == "METHOD_CALL_EXPR" and PURE_CONV.match(ident(n) or "") and not call_parts(n)[2]:
        n = nodes(n)[0]
    if n[0] == "PAREN_EXPR":
        return len_key(nodes(n)[0])
    if n[0] == "METHOD_CALL_EXPR":
        recv, nm, args = call_parts(n)
        if not args:
            if nm in LEN_NAMES:
                return coll_key(recv)
            for suf in ("_size", "_len", "_length", "_count"):
                if nm.endswith(suf):
                    return coll_key(recv) + "." + nm[:-len(suf)]
    return None


class DoraSide:
    def __init__(self, D, files):
        self.D = D
        self.files = [f for f in files if f in D]
        self.fn_index = {}          # name -> doraq.Fn   (free functions)
        self.methods_src = {}       # (class, name) -> doraq.Fn
        self.class_fields = {}
        self.aliases = {}           # file -> {alias: module last segment}
        self.consts = {}            # module last segment -> {NAME: value}
        self.fns = {}
        self.methods = {}
        self.busy = set()
        self.dups = []
        for f in self.files:
            t = D[f]
            for fn in doraq.functions(t, f):
                if fn.container in (WRITER_CLS, READER_CLS):
                    self.methods_src[(fn.container, fn.name)] = fn
                elif fn.container is None:
                    if fn.name in self.fn_index:
                        self.dups.append(fn.name)
                    self.fn_index.setdefault(fn.name, fn)
            self.aliases[f] = {}
            for n in doraq.walk(t):
                if n[0] == "USE":
                    m = re.search(r"(\w+)\s+as\s+(\w+)", text(n))
                    if m:
                        self.aliases[f][m.group(2)] = m.group(1)
                if n[0] == "CLASS" and ident(n) in (WRITER_CLS, READER_CLS):
                    fl = {}
                    for fd in doraq.walk(n):
                        if fd[0] in ("FIELD", "FIELD_DECL") and ident(fd):
                            tn = [x for x in nodes(fd) if x[0].endswith("_TYPE")]
                            fl[ident(fd)] = text(tn[0]) if tn else None
                    self.class_fields[ident(n)] = fl

    def module_consts(self, seg):
        if seg not in self.consts:
            vals = {}
            for f, t in self.D.items():
                if f.startswith("pkgs/boots/") and f.endswith("/%s.dora" % seg):
                    for k, v in doraq.consts(t).items():
                        if isinstance(v, int) and not isinstance(v, bool):
                            vals[k] = v
            self.consts[seg] = vals
        return self.consts[seg]

    # ------------------------------------------------------------------ discovery
    def stream_param(self, fn):
        for i, (pat, ty) in enumerate(fn.params()):
            if ty == WRITER_CLS:
                return (i, pat, "w")
            if ty == READER_CLS:
                return (i, pat, "r")
        return None

    def codec_functions(self):
        return sorted(n for n, fn in self.fn_index.items() if self.stream_param(fn))

    def key(self, name):
        return ("dora", name)

    def method(self, cls, name):
        k = (cls, name)
        if k in self.methods:
            return self.methods[k]
        fn = self.methods_src.get(k)
        if fn is None or k in self.busy or fn.body is None:
            return ("none",)
        self.busy.add(k)
        side = "w" if cls == WRITER_CLS else "r"
        w = Walk(self, fn, "self", side, cls=cls)
        seq = w.run()
        self.busy.discard(k)
        if not seq:
            res = ("none",)
        elif len(seq) == 1 and seq[0]["t"] == "run":
            res = ("run", seq[0]["param"])
        elif all(e["t"] == "prim" and e["const"] is None for e in seq):
            width = sum(e["w"] for e in seq)
            tys = [ty for (_p, ty) in fn.params()] + [fn.return_type() or ""]
            cls_ = "bool" if width == 1 and "Bool" in tys else IR.CLS_OF_WIDTH.get(width, "b%d" % width)
            res = ("prim", width, cls_, "checked" if w.has_assert else None)
        else:
            key = ("dora", "%s::%s" % (cls, name))
            seq = [IR.opaque("byte run counted by a parameter inside a composite helper") if e["t"] == "run" else e
                   for e in seq]
            self.fns[key] = IR.Fn(key, "%s::%s" % (cls, name), "dora", side, seq, fn.where(), owner=fn.file)
            res = ("fn", key)
        self.methods[k] = res
        return res

    def function(self, name):
        key = self.key(name)
        if key in self.fns:
            return self.fns[key]
        fn = self.fn_index.get(name)
        sp = self.stream_param(fn) if fn else None
        if sp is None or fn.body is None:
            return None
        w = Walk(self, fn, sp[1], sp[2])
        seq = w.run()
        f = IR.Fn(key, name, "dora", sp[2], seq, fn.where(), owner=fn.file)
        self.fns[key] = f
        return f


class Walk:
    def __init__(self, S, fn, stream, side, cls=None, depth=0):
        self.S = S
        self.fn = fn
        self.stream = stream
        self.side = side
        self.cls = cls              # set when walking a method of the stream class itself
        self.pending = None
        self.has_assert = False
        self.depth = depth
        self.aliases = S.aliases.get(fn.file, {})

    def run(self):
        env = {}
        for i, (pat, ty) in enumerate(self.fn.params()):
            env[pat] = Val(note=pat, isbool=(ty == "Bool"))
            env[pat].cmp = None
            self.param_index = getattr(self, "param_index", {})
            self.param_index[pat] = i
        out = []
        self.ev(self.fn.body, env, out)
        return out

    # ------------------------------------------------------------------ helpers
    def is_stream(self, n):
        while n[0] == "PAREN_EXPR":
            n = nodes(n)[0]
        return n[0] == "PATH_EXPR" and seg_names(n) == [self.stream]

    def is_self_field(self, n):
        return n[0] == "FIELD_EXPR" and nodes(n) and nodes(n)[0][0] == "PATH_EXPR" and seg_names(nodes(n)[0]) == ["self"]

    def field_name(self, n):
        t = [x for x in toks(n) if x[0] in ("IDENTIFIER", "INT_LITERAL")]
        return t[-1][1] if t else None

    def mentions_stream(self, n):
        for x in doraq.walk(n):
            if x[0] == "PATH_EXPR" and seg_names(x) == [self.stream]:
                return True
        return False

    def bind_pattern(self, pat, v, env):
        if pat is None:
            return
        if pat[0] == "IDENT_PATTERN":
            nm = ident(pat)
            if nm:
                env[nm] = v
        else:
            for x in doraq.walk(pat):
                if x[0] == "IDENT_PATTERN" and ident(x):
                    env[ident(x)] = NONE

    def emit_prim(self, out, w, cls, arg, line, note=None, names=None):
        const = arg.const if arg is not None else None
        if cls == "bool" and const is not None:
            const = (int(bool(const[0])), const[1] or ("true" if const[0] else "false"))
        p = IR.prim(w, cls, const=const, note=note, line=line, lenof=arg.lenof if arg is not None else None,
                    names=names or ())
        out.append(p)
        return p

    def arm(self, body, env, pre=None):
        seq = []
        env2 = dict(env)
        if pre:
            pre(env2)
        v = self.ev(body, env2, seq) if body is not None else NONE
        st = self.pending or "fall"
        self.pending = None
        return seq, st, v

    def generic_branch(self, arms, out, line, what):
        if IR.generic_branch(arms, out, line, what) == "div":
            self.pending = "div"

    # ------------------------------------------------------------------ dispatcher
    def ev(self, n, env, out):
        if n is None or not is_node(n):
            return NONE
        m = getattr(self, "d_" + n[0], None)
        if m is not None:
            return m(n, env, out)
        v = NONE
        for c in nodes(n):
            v = self.ev(c, env, out)
            if self.pending is not None:
                return NONE
        return NONE

    def d_BLOCK_EXPR(self, n, env, out):
        env2 = dict(env)
        last_v = NONE
        for c in nodes(n):
            if c[0] == "EXPR_STMT":
                v = self.ev(nodes(c)[0], env2, out) if nodes(c) else NONE
                last_v = NONE if any(t[0] == "SEMICOLON" for t in toks(c)) else v
            else:
                self.ev(c, env2, out)
                last_v = NONE
            if self.pending is not None:
                return NONE
        return last_v

    def d_EXPR_STMT(self, n, env, out):
        return self.ev(nodes(n)[0], env, out) if nodes(n) else NONE

    def d_LET(self, n, env, out):
        ks = kids(n)
        init = None
        seen_eq = False
        pat = None
        for c in ks:
            if is_tok(c) and c[0] == "EQ":
                seen_eq = True
            elif is_node(c):
                if seen_eq and init is None:
                    init = c
                elif not seen_eq and pat is None and c[0].endswith("_PATTERN"):
                    pat = c
        v = self.ev(init, env, out) if init is not None else NONE
        self.bind_pattern(pat, v, env)
        if v.prim and self.side == "r" and pat is not None and pat[0] == "IDENT_PATTERN":
            IR.add_name(v.prim, ident(pat))
        return NONE

    def d_PAREN_EXPR(self, n, env, out):
        return self.ev(nodes(n)[0], env, out) if nodes(n) else NONE

    def d_LIT_INT_EXPR(self, n, env, out):
        v = doraq.lit_value(n)
        return Val(const=(v, None)) if isinstance(v, int) else NONE

    def d_LIT_BOOL_EXPR(self, n, env, out):
        v = doraq.lit_value(n)
        return Val(const=(1 if v else 0, "true" if v else "false"), isbool=True)

    def d_LIT_STR_EXPR(self, n, env, out):
        return NONE

    def d_TEMPLATE_EXPR(self, n, env, out):
        return NONE

    def d_PATH_EXPR(self, n, env, out):
        segs = seg_names(n)
        if len(segs) == 1:
            return env.get(segs[0], Val(note=segs[0]))
        if len(segs) == 2 and segs[0] in self.aliases:
            vals = self.S.module_consts(self.aliases[segs[0]])
            if segs[1] in vals:
                return Val(const=(vals[segs[1]], segs[1]), note=segs[1])
        if segs and segs[-1][:1].isupper() and not segs[-1].isupper():
            return Val(variant="::".join(segs[-2:]))
        return Val(note="::".join(segs))

    def d_FIELD_EXPR(self, n, env, out):
        self.ev(nodes(n)[0], env, out)
        return Val(note=self.field_name(n))

    def d_UN_EXPR(self, n, env, out):
        v = self.ev(nodes(n)[0], env, out) if nodes(n) else NONE
        op = toks(n)[0][1] if toks(n) else ""
        if op == "!" and v.cmp:
            return Val(cmp=(v.cmp[0], v.cmp[1], not v.cmp[2]), isbool=True)
        if op == "!" and v.prim and v.isbool:
            return Val(cmp=(v.prim, [(0, "false")], True), isbool=True)
        return NONE

    def d_AS_EXPR(self, n, env, out):
        v = self.ev(nodes(n)[0], env, out)
        return v.derived() if v is not NONE else NONE

    def d_LAMBDA_EXPR(self, n, env, out):
        if self.mentions_stream(n):
            out.append(IR.opaque("a lambda touches the stream", n[1]))
        return NONE

    def d_TUPLE_EXPR(self, n, env, out):
        for c in nodes(n):
            self.ev(c, env, out)
        return NONE

    def d_BIN_EXPR(self, n, env, out):
        ns = nodes(n)
        op = [t for t in toks(n)][0][1] if toks(n) else ""
        a = self.ev(ns[0], env, out)
        b = self.ev(ns[1], env, out) if len(ns) > 1 else NONE
        if op in ("==", "!="):
            for x, y in ((a, b), (b, a)):
                if x.prim and y.const is not None and not x.cmp:
                    return Val(cmp=(x.prim, [y.const], op == "=="), isbool=True)
        if op == "||" and a.cmp and b.cmp and a.cmp[0] == b.cmp[0] and a.cmp[2] and b.cmp[2]:
            return Val(cmp=(a.cmp[0], list(a.cmp[1]) + list(b.cmp[1]), True), isbool=True)
        return NONE

    def d_ASSIGN_EXPR(self, n, env, out):
        ns = nodes(n)
        lhs, rhs = ns[0], ns[1]
        # reader primitive: self.<cursor> = self.<cursor> + n
        if self.cls is not None and self.side == "r" and self.is_self_field(lhs) and rhs[0] == "BIN_EXPR":
            rn = nodes(rhs)
            op = toks(rhs)[0][1] if toks(rhs) else ""
            if op == "+" and len(rn) == 2 and self.is_self_field(rn[0]) and \
                    self.field_name(rn[0]) == self.field_name(lhs):
                v = self.ev(rn[1], env, out)
                if v.const is not None and isinstance(v.const[0], int) and v.const[0] > 0:
                    out.append(IR.prim(v.const[0], IR.CLS_OF_WIDTH.get(v.const[0], "b%d" % v.const[0]), line=n[1]))
                elif rn[1][0] == "PATH_EXPR" and seg_names(rn[1])[0] in getattr(self, "param_index", {}):
                    out.append({"t": "run", "param": self.param_index[seg_names(rn[1])[0]], "line": n[1]})
                else:
                    out.append(IR.opaque("cursor advanced by a computed amount", n[1]))
                return NONE
        if lhs[0] == "CALL_EXPR":
            for a in call_parts(lhs)[2]:
                self.ev(a, env, out)
        v = self.ev(rhs, env, out)
        if lhs[0] == "PATH_EXPR" and len(seg_names(lhs)) == 1:
            env[seg_names(lhs)[0]] = Val(note="reassigned")
        return NONE

    # ------------------------------------------------------------------ calls
    def d_METHOD_CALL_EXPR(self, n, env, out):
        recv, name, args = call_parts(n)
        line = n[1]
        if self.is_stream(recv):
            cls = self.cls or (WRITER_CLS if self.side == "w" else READER_CLS)
            avs = [self.ev(a, env, out) for a in args]
            ms = self.S.method(cls, name)
            if ms[0] == "prim":
                arg = avs[0] if avs else None
                names = None
                if args and self.side == "w":
                    names = [t[1] for x in [args[0]] for t in all_tokens(x) if t[0] == "IDENTIFIER"
                             and not PURE_CONV.match(t[1]) and t[1] not in ("get_or_panic",)]
                p = self.emit_prim(out, ms[1], ms[2], arg, line, note=(text(args[0])[:60] if args else name),
                                   names=names)
                if ms[3]:
                    self.has_assert = True
                return Val(prim=p["id"], isbool=(ms[2] == "bool"), note=name)
            if ms[0] == "run":
                a = avs[ms[1]] if ms[1] < len(avs) else NONE
                if a.prim:
                    out.append(IR.loop(a.prim, [IR.prim(1, "u8", line=line)], line))
                else:
                    out.append(IR.loop(None, [IR.prim(1, "u8", line=line)], line,
                                       "the byte count `%s` is not a value read from the stream" % text(args[ms[1]])))
                return NONE
            if ms[0] == "fn":
                out.append(IR.call(ms[1], "%s::%s" % (cls, name), line))
            return NONE
        if self.cls is not None and self.side == "w" and self.is_self_field(recv) and name == "push":
            fty = (self.S.class_fields.get(self.cls) or {}).get(self.field_name(recv)) or ""
            for a in args:
                self.ev(a, env, out)
            if "UInt8" in fty:
                out.append(IR.prim(1, "u8", line=line))
            else:
                out.append(IR.opaque("push on a field that is not a byte vector", line))
            return NONE
        rv = self.ev(recv, env, out)
        avs = [self.ev(a, env, out) for a in args]
        lk = len_key(n)
        if lk is not None:
            return Val(lenof=lk, note=text(n)[:60])
        if not args and rv is not NONE:
            if PURE_CONV.match(name or "") or name in ("get_or_panic",):
                return rv.derived()
        return NONE

    def d_CALL_EXPR(self, n, env, out):
        callee, _nm, args = call_parts(n)
        line = n[1]
        ctext = text(callee)
        name = ctext.split("::")[-1]
        if callee[0] != "PATH_EXPR":
            self.ev(callee, env, out)
            for a in args:
                self.ev(a, env, out)
            return NONE
        if name in DIVERGE:
            self.pending = "div"
            return NONE
        if name == "assert":
            self.has_assert = True
            for a in args:
                sub = []
                self.ev(a, env, sub)
                out.extend(x for x in sub if x["t"] != "opaque")
            return NONE
        fn = self.S.fn_index.get(name)
        if fn is not None and name[:1].islower():
            sp = self.S.stream_param(fn)
            if sp is not None and sp[0] < len(args) and self.is_stream(args[sp[0]]):
                for i, a in enumerate(args):
                    if i != sp[0]:
                        self.ev(a, env, out)
                out.append(IR.call(self.S.key(name), name, line))
                return NONE
        avs = [self.ev(a, env, out) for a in args]
        segs = seg_names(callee)
        if segs[-1] == "range" and len(avs) == 2:
            v = Val(note="range")
            v.table = ("range", avs[0], avs[1])
            return v
        if segs[-1][:1].isupper():
            v = avs[0].derived() if len(avs) == 1 and avs[0] is not NONE else Val()
            v.variant = "::".join(segs[-2:])
            return v
        if fn is not None and self.S.stream_param(fn) is None and any(a.prim for a in avs) and \
                self.depth < MAX_INLINE and fn.body is not None:
            sub = Walk(self.S, fn, self.stream, self.side, depth=self.depth + 1)
            env2 = {}
            for (pat, _ty), v in zip(fn.params(), avs):
                env2[pat] = v
            v = sub.ev(fn.body, env2, out)
            if sub.pending == "div":
                self.pending = "div"
            return v
        if len(avs) == 1 and avs[0] is not NONE and len(segs) == 1 and segs[0][:1].islower():
            return avs[0].derived()
        return NONE

    # ------------------------------------------------------------------ control flow
    def if_parts(self, n):
        ns = nodes(n)
        cond = ns[0]
        then = ns[1] if len(ns) > 1 else None
        els = ns[2] if len(ns) > 2 else None
        return cond, then, els

    def d_IF_EXPR(self, n, env, out):
        cond, then, els = self.if_parts(n)
        cv = self.ev(cond, env, out)
        if self.pending is not None:
            return NONE
        if self.side == "r" and (cv.cmp or (cv.prim and cv.isbool)):
            return self.reader_if_chain(n, cv, env, out)
        s1, st1, v1 = self.arm(then, env)
        s2, st2, v2 = self.arm(els, env)
        self.generic_branch([(None, s1, st1), (None, s2, st2)], out, n[1], "if %s" % text(cond)[:40])
        return NONE

    def reader_if_chain(self, n, cv, env, out):
        def arm_of(body, vals):
            s, st, v = self.arm(body, env)
            return {"vals": vals, "variant": v.variant, "seq": s, "div": st == "div", "line": body[1] if body else None}
        cond, then, els = self.if_parts(n)
        if cv.cmp is None or (len(cv.cmp[1]) == 1 and cv.cmp[1][0][1] in ("true", "false")):
            if cv.cmp is None:
                tag, tv = cv.prim, 1
            else:
                tag = cv.cmp[0]
                tv = cv.cmp[1][0][0] if cv.cmp[2] else 1 - cv.cmp[1][0][0]
            names = {1: "true", 0: "false"}
            out.append(IR.switch(tag, [arm_of(then, [(tv, names[tv])]), arm_of(els, [(1 - tv, names[1 - tv])])],
                                 None, n[1]))
            return NONE
        tag = cv.cmp[0]
        arms = []
        cur_then, cur_els, cur_cv = then, els, cv
        while True:
            pid, consts, positive = cur_cv.cmp
            if pid != tag or not positive:
                out.append(IR.opaque("an if-chain that is not a plain `tag == CONST` dispatch", n[1]))
                return NONE
            arms.append(arm_of(cur_then, list(consts)))
            if cur_els is not None and cur_els[0] == "IF_EXPR":
                c2, t2, e2 = self.if_parts(cur_els)
                sub = []
                ncv = self.ev(c2, env, sub)
                if not sub and ncv.cmp and ncv.cmp[0] == tag:
                    cur_then, cur_els, cur_cv = t2, e2, ncv
                    continue
            s2, st2, _v2 = self.arm(cur_els, env)
            default = {"seq": s2, "div": st2 == "div"}
            break
        out.append(IR.switch(tag, arms, default, n[1]))
        return NONE

    def d_MATCH_EXPR(self, n, env, out):
        ns = nodes(n)
        scrut = ns[0]
        sv = self.ev(scrut, env, out)
        if self.pending is not None:
            return NONE
        what = "match %s" % text(scrut)[:40]
        arms_src = doraq.direct_match_arms(n)
        if sv.prim and self.side == "r":
            out.append(IR.opaque("%s dispatches on a stream value with patterns (not summarised)" % what, n[1]))
            return NONE
        arms = []
        for (ptxt, pat, body) in arms_src:
            label = None
            for x in doraq.walk(pat):
                if x[0] == "CTOR_PATTERN" or x[0] == "PATH_DATA":
                    pd = x if x[0] == "PATH_DATA" else child(x, "PATH_DATA")
                    if pd is not None:
                        label = "::".join(path_data(pd)[-2:])
                        break

            def pre(env2, pat=pat):
                self.bind_pattern(pat if pat[0] == "IDENT_PATTERN" else None, NONE, env2)
                for x in doraq.walk(pat):
                    if x[0] == "IDENT_PATTERN" and ident(x):
                        env2[ident(x)] = NONE
            seq, st, _v = self.arm(body, env, pre)
            arms.append((label.split("::")[-1] if label else None, seq, st))
        self.generic_branch(arms, out, n[1], what)
        return NONE

    def d_WHILE_EXPR(self, n, env, out):
        ns = nodes(n)
        cond, body = ns[0], ns[1]
        length = None
        why = None
        if cond[0] == "BIN_EXPR" and toks(cond) and toks(cond)[0][1] == "<":
            cn = nodes(cond)
            a = self.ev(cn[0], env, []) if cn else NONE
            b = self.ev(cn[1], env, []) if len(cn) > 1 else NONE
            ctr = seg_names(cn[0])[0] if cn and cn[0][0] == "PATH_EXPR" else None
            steps = [x for x in doraq.walk(body) if x[0] == "ASSIGN_EXPR" and nodes(x)[0][0] == "PATH_EXPR"
                     and seg_names(nodes(x)[0]) == [ctr]]
            plus_one = len(steps) == 1 and re.sub(r"\s+", "", text(nodes(steps[0])[1])) in (
                "%s+1" % ctr, "%s+1i64" % ctr, "%s+1i32" % ctr)
            if b.prim and a.const is not None and a.const[0] == 0 and plus_one:
                length = b.prim
            else:
                why = "`while %s` is not a 0..n count over a value read from the stream" % text(cond)
        else:
            why = "`while %s` is not a counted loop" % text(cond)[:40]
        seq = []
        self.ev(body, dict(env), seq)
        self.pending = None
        if not seq:
            return NONE
        out.append(IR.loop(length, seq, n[1], why))
        return NONE

    def d_FOR_EXPR(self, n, env, out):
        ns = nodes(n)
        pat, it, body = ns[0], ns[1], ns[2]
        length = None
        why = None
        iv = self.ev(it, env, out)
        if isinstance(iv.table, tuple) and iv.table and iv.table[0] == "range":
            _r, lo, hi = iv.table
            if hi.prim and lo.const is not None and lo.const[0] == 0:
                length = hi.prim
            else:
                why = "range bound `%s` is not a value read from the stream" % text(it)
        else:
            key = coll_key(it)
            for x in reversed(out):
                if x["t"] == "prim" and x.get("lenof") == key:
                    length = x["id"]
                    break
            if length is None and out and out[-1]["t"] == "prim" and out[-1].get("lenof"):
                length = out[-1]["id"]
            if length is None:
                why = "no preceding element carries the length of `%s`" % key
        env2 = dict(env)
        self.bind_pattern(pat, NONE, env2)
        seq = []
        self.ev(body, env2, seq)
        self.pending = None
        if not seq:
            return NONE
        out.append(IR.loop(length, seq, n[1], why))
        return NONE

    def d_RETURN_EXPR(self, n, env, out):
        v = self.ev(nodes(n)[0], env, out) if nodes(n) else NONE
        self.pending = "ret"
        return v

    def d_BREAK_EXPR(self, n, env, out):
        self.pending = "brk"
        return NONE

    def d_CONTINUE_EXPR(self, n, env, out):
        self.pending = "cont"
        return NONE
